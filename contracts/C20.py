"""C20 - display normalisation: monotone map into [0,1], limits -> 0/1, NaN stays NaN (masked), stretch o inverse = id on [0,1].

The real functions of quantem/core/visualization/custom_normalizations.py are executed symbolically on a POINTWISE view
of an array (pyvc/lib/c20_models.py: two generic entries of the same array, each an extended real with explicit NaN
flag, plus a ghost summary min/max/quantile of the finite entries).  A statement proved for the generic entries holds
for every entry / pair of entries of every array of any shape.  Transcendentals are uninterpreted (A4).
"""
from __future__ import annotations

import importlib
import math

import numpy as np
import z3
from matplotlib import colors

from pyvc import values as V
from pyvc import smt
from pyvc.values import Sym, Obj, Kind, S, lift
from pyvc.interp import NS, RaiseSig
from pyvc.registry import Contract, resolve
from pyvc.runner import Lemma, Bounded
from pyvc.lib import c20_models as cm
from pyvc.lib.c20_models import PArr, PMasked, Elem, fresh_parr, ext_le, ext_lt, NumVal, fresh_numval
from .common import registry, implies, AND, OR, NOT, frame_snapshot, frame_clauses

LEVEL = "proof"
# nonlinear real arithmetic over ground lemma instances: try `purify + nlsat` first (sound: purification only forgets facts);
# z3's default incremental NRA is erratic on the monotonicity obligations (0.1 s or a 10 s timeout for the same goal)
smt.PURIFY = "try"
CN = "quantem.core.visualization.custom_normalizations"
MOD = importlib.import_module(CN)
Rl = z3.Real
T, F_ = z3.BoolVal(True), z3.BoolVal(False)

INTERVALS = ("ManualInterval", "CenteredInterval", "QuantileInterval")
STRETCH_NAMES = ("LinearStretch", "PowerLawStretch", "LogarithmicStretch", "InverseLogarithmicStretch",
                 "InverseHyperbolicSineStretch", "HyperbolicSineStretch")
DATACLASSES = INTERVALS + STRETCH_NAMES + ("NormalizationConfig",)


def K(name):
    return getattr(MOD, name)


def make_registry():
    reg = registry()
    cm.install(reg, dataclasses_=[K(n) for n in DATACLASSES], normalize_cls=colors.Normalize)
    for c in CONTRACTS + SPEC_ONLY:
        reg.add_contract(c)
        if c.func.endswith(".fget"):
            reg.contracts[c.func[: -len(".fget")]] = c  # properties are called through their fget's qualname
    for n in STRETCH_NAMES:
        if "__post_init__" in K(n).__dict__:
            reg.inline.add(f"{CN}:{n}.__post_init__")
    reg.abstract_classes.add(f"{CN}:CustomNormalization")
    reg.inline.add(f"{CN}:<lambda>")  # the NORMALIZATION_PRESETS factories (interpreted, not trusted)
    reg.kind_is = kind_is
    install_stubs(reg)
    reg.models[AnyStretch.__call__] = any_stretch_call
    reg.models[AnyStretch.__dict__["inverse"].fget] = any_stretch_inverse
    return reg


# ------------------------------------------------------------------------------------------------
# small helpers
# ------------------------------------------------------------------------------------------------


def fld(o, name):
    """Field of an abstract object or attribute of a native instance."""
    return o.fields[name] if isinstance(o, Obj) else getattr(o, name)


def opt_real(ctx, name):
    """Optional[float] parameter: forks on None / a finite real."""
    if ctx.branch(ctx.fresh(name + "_is_none", "bool").t):
        return None
    return fresh_numval(ctx, name)


def rt_(x):
    return cm.rterm(x)


def KW(s):
    """keyword-only arguments: `s.kwargs` when the body is verified, plain attributes at a call site."""
    return s.__dict__.get("kwargs") or s.__dict__


def in01(e):
    return AND(e.finite(), e.val >= 0, e.val <= 1)


def frozen(arr):
    return NS(elems=arr.snapshot(), writes=arr.writes, arr=arr)


def choose(ctx, name, options):
    """Fork over a finite list of concrete alternatives."""
    for i, o in enumerate(options[:-1]):
        if ctx.branch(ctx.fresh(f"{name}_is_{i}", "bool").t):
            return o
    return options[-1]


# ------------------------------------------------------------------------------------------------
# stretches
# ------------------------------------------------------------------------------------------------

STRETCH = {
    # params, class invariant (established by __post_init__), identity condition, clips?, declared inverse class
    # LinearStretch: any slope / intercept; the stretch interface is claimed for the identity configuration only (the one the library
    # constructs: CustomNormalization builds LinearStretch()), see ASSUMPTIONS
    "LinearStretch": dict(params=("slope", "intercept"), inv=lambda p: [], ident=lambda p: AND(p["slope"] == 1, p["intercept"] == 0),
                          inverse="LinearStretch"),
    "PowerLawStretch": dict(params=("power",), inv=lambda p: [("power>0", p["power"] > 0)], ident=lambda p: p["power"] == 1,
                            inverse="PowerLawStretch"),
    "LogarithmicStretch": dict(params=("a",), inv=lambda p: [("a>0", p["a"] > 0)], ident=lambda p: F_, inverse="InverseLogarithmicStretch"),
    "InverseLogarithmicStretch": dict(params=("a",), inv=lambda p: [("a>0", p["a"] > 0)], ident=lambda p: F_, inverse="LogarithmicStretch"),
    "InverseHyperbolicSineStretch": dict(params=("a",), inv=lambda p: [("a>0", p["a"] > 0)], ident=lambda p: F_, inverse="HyperbolicSineStretch"),
    "HyperbolicSineStretch": dict(params=("a",), inv=lambda p: [("a>0", p["a"] > 0)], ident=lambda p: F_, inverse="InverseHyperbolicSineStretch"),
}


def sparams(o):
    return {p: rt_(fld(o, p)) for p in STRETCH[o.cls.__name__]["params"]}


def stretch_obj(ctx, name, tag=""):
    return Obj(K(name), {p: ctx.fresh(tag + p, "real") for p in STRETCH[name]["params"]})


def stretch_inv(o):
    return STRETCH[o.cls.__name__]["inv"](sparams(o))


def stretch_interface_posts(old, new, adm=T, mono=None, strict=None, linear=False):
    """THE STRETCH INTERFACE (class independent), stated for the generic entries old[i] -> new[i] of the argument array.
    From the property: a stretch maps [0,1] into [0,1], is non-decreasing, fixes 0 and 1, a NaN stays a NaN and no NaN is
    created.  `adm` = admissibility of the configuration (only LinearStretch needs one: it must be the identity)."""
    mono = adm if mono is None else mono
    strict = adm if strict is None else strict
    out = []
    for i, (a, b) in enumerate(zip(old, new)):
        out += [
            (f"NaN-stays-NaN-through-the-stretch(so-it-comes-back-masked)[{i}]", implies(a.nan, b.nan)),
            # (a general linear stretch may turn +-inf into NaN: inf * 0)
            (f"number-in=>number-out[{i}]", implies(AND(a.number(), OR(adm, a.finite()) if linear else T), b.number())),
            (f"[0,1]-into-[0,1][{i}]", implies(AND(in01(a), adm), in01(b))),
            (f"fixes-0[{i}]", implies(AND(a.finite(), a.val == 0, adm), AND(b.finite(), b.val == 0))),
            (f"fixes-1[{i}]", implies(AND(a.finite(), a.val == 1, adm), AND(b.finite(), b.val == 1))),
        ]
    if len(old) >= 2:
        a1, a2, b1, b2 = old[0], old[1], new[0], new[1]
        dom = AND(a1.finite(), a2.finite()) if linear else AND(a1.number(), a2.number())
        out += [
            ("non-decreasing", implies(AND(dom, ext_le(a1, a2), mono), AND(b1.number(), b2.number(), ext_le(b1, b2)))),
            ("strictly-increasing-on-[0,1]", implies(AND(in01(a1), in01(a2), a1.val < a2.val, strict), ext_lt(b1, b2))),
        ]
    return out


def stretch_call_posts(o, old, new):
    """Interface posts (under the class's admissibility condition) + what the individual class documents."""
    name = o.cls.__name__
    p = sparams(o)
    ident = STRETCH[name]["ident"](p)
    linear = name == "LinearStretch"
    if linear:
        # general linear stretch: monotone for slope >= 0; the interface itself only for the identity configuration
        out = stretch_interface_posts(old, new, adm=ident, mono=p["slope"] >= 0, strict=p["slope"] > 0, linear=True)
    else:
        out = stretch_interface_posts(old, new)
    for i, (a, b) in enumerate(zip(old, new)):
        out.append((f"identity-configuration-returns-input[{i}]", implies(ident, cm.same_elem(a, b))))
        if not linear:
            # every non-linear stretch clips its argument to [0,1] first (unless it is the identity power law)
            out += [
                (f"always-in-[0,1][{i}]", implies(AND(a.number(), NOT(ident)), in01(b))),
                (f"below-0->0[{i}]", implies(AND(a.number(), NOT(ident), OR(a.inf < 0, AND(a.inf == 0, a.val <= 0))), b.val == 0)),
                (f"above-1->1[{i}]", implies(AND(a.number(), NOT(ident), OR(a.inf > 0, AND(a.inf == 0, a.val >= 1))), b.val == 1)),
            ]
        else:
            # class docstring: y = slope * x + intercept  (stated on [0,1], the domain of a stretch)
            out.append((f"linear:y=slope*x+intercept-on-[0,1][{i}]", implies(in01(a), AND(b.finite(), b.val == p["slope"] * a.val + p["intercept"]))))
    return out


class AnyStretch:
    """SPECIFICATION-ONLY stand-in for `one of the six stretch classes with an admissible configuration` (there is no common
    base class in the repository).  CustomNormalization.__call__/inverse are verified against the interface above; each
    concrete class's __call__ / inverse is verified (contracts below) to implement it whenever `stretch_is_admissible`."""

    def __call__(self, values, copy=True):
        raise NotImplementedError

    @property
    def inverse(self):
        raise NotImplementedError


def any_stretch_call(interp, self, values, copy=True):
    ctx = interp.ctx
    if not isinstance(values, PArr):
        raise V.OutOfSubset("abstract stretch applied to a non-array")
    ctx.prove("call AnyStretch.__call__: pre:values-is-a-float-array", T if values.dt == "f" else F_, kind="call-pre")
    old = values.snapshot()
    cp = interp.truth(copy) if isinstance(copy, Sym) else bool(copy)
    if cp:
        # a fresh array - or the argument itself (identity configurations return their argument): both are possible
        res = values if ctx.branch(ctx.fresh("stretch_returns_argument", "bool").t) else _fresh_arr(ctx, "stretched", len(old))
    else:
        values.set_elems(_fresh_elems(ctx, "stretched", len(old)))
        res = values
    for lab, t in stretch_interface_posts(old, res.elems):
        ctx.assume(t)
    # ghost trace of stretch applications: (stretch object, argument array, its entries before, result array, in place?)
    ctx.ghost.setdefault("stretch_calls", []).append(NS(stretch=self, arg=values, before=old, result=res, after=res.snapshot(), in_place=not cp))
    return res


def any_stretch_inverse(interp, self):
    inv = Obj(AnyStretch, {})  # the declared inverse of an admissible stretch is an admissible stretch
    inv.fields["$inverse_of"] = self
    return inv


def sc_setup(name):
    def setup(ctx):
        s = NS(self=stretch_obj(ctx, name), values=fresh_parr(ctx, "values", "f"), copy=ctx.fresh("copy", "bool"))
        return s
    return setup


def sc_requires(s):
    r = list(stretch_inv(s.self))
    r.append(("values-is-a-float-array", T if s.values.dt == "f" else F_))
    return r


def sc_snapshot(s):
    return frozen(s.values)


def sc_ensures(s):
    res = s.result
    if not isinstance(res, PArr):
        return [("returns-an-array", F_)]
    out = stretch_call_posts(s.self, s.old.elems, res.elems)
    cp = lift(s.copy) if isinstance(s.copy, Sym) else z3.BoolVal(bool(s.copy))
    ident = STRETCH[s.self.cls.__name__]["ident"](sparams(s.self))
    out += [
        ("copy=True:input-not-written", implies(cp, z3.BoolVal(s.values.writes == s.old.writes))),
        ("copy=True:fresh-result-unless-identity", implies(AND(cp, NOT(ident)), z3.BoolVal(res is not s.values))),
        ("copy=False:result-is-the-input-array(in-place)", implies(NOT(cp), z3.BoolVal(res is s.values))),
        ("result-is-float", z3.BoolVal(res.dt == "f")),
    ]
    return out


def sc_modifies(ctx, s):
    """call site: with copy=False the argument array is overwritten in place."""
    cp = s.interp.truth(s.copy) if isinstance(s.copy, Sym) else bool(s.copy)
    s._copy = cp
    if not cp:
        s.values.set_elems(_fresh_elems(ctx, "stretched", len(s.values.elems)))


def _fresh_elems(ctx, name, k):
    els = []
    for j in range(k):
        inf = ctx.fresh(f"{name}_inf{j}", "int").t
        ctx.assume(AND(inf >= -1, inf <= 1))
        els.append(Elem(ctx.fresh(f"{name}_x{j}", "real").t, ctx.fresh(f"{name}_nan{j}", "bool").t, inf))
    return els


def _fresh_arr(ctx, name, k):
    els = _fresh_elems(ctx, name, k)
    g = cm.DataGhost(ctx, name)
    for f in g.facts(els):
        ctx.assume(f)
    return PArr(els, "f", g, name)


def sc_result(ctx, s):
    if not s._copy:
        return s.values
    if ctx.branch(STRETCH[s.self.cls.__name__]["ident"](sparams(s.self))):
        return s.values  # identity configurations return their argument itself, even with copy=True (aliasing)
    return _fresh_arr(ctx, "stretched", len(s.values.elems))


def stretch_call_contract(name):
    return Contract(f"{CN}:{name}.__call__", setup=sc_setup(name), requires=sc_requires, ensures=sc_ensures, snapshot=sc_snapshot,
                    modifies=sc_modifies, result=sc_result)


C_STRETCH_CALL = {n: stretch_call_contract(n) for n in STRETCH_NAMES}


# ---- the declared inverse: class, parameter validity, and  stretch(inverse(y)) = y  on [0,1]  (real code of all three
# functions - the `inverse` property, the inverse class's __call__, this class's __call__ - is executed symbolically)


def si_setup(name):
    def setup(ctx):
        return NS(self=stretch_obj(ctx, name), y=fresh_parr(ctx, "y", "f", k=1, with_inf=False))
    return setup


def si_requires(s):
    r = list(stretch_inv(s.self))
    if s.self.cls.__name__ == "LinearStretch":
        # a constant map has no inverse (1 / slope: ZeroDivisionError for a Python float, inf for a NumPy float)
        r.append(("slope!=0", sparams(s.self)["slope"] != 0))
    return r


def run_real(interp, fn, args, kwargs=None):
    """Interpret the body of a real function (no contract in between)."""
    return interp.call_closure(interp.closure_of(fn), list(args), dict(kwargs or {}))


def si_ensures(s):
    name = s.self.cls.__name__
    inv = s.result
    want = K(STRETCH[name]["inverse"])
    if not (isinstance(inv, Obj) and inv.cls is want):
        return [("inverse-is-an-instance-of-the-declared-inverse-class", F_)]
    out = [("inverse-is-an-instance-of-the-declared-inverse-class", T)]
    out += [("inverse-parameters-valid:" + a, b) for a, b in stretch_inv(inv)]
    tag = ""
    if name == "LinearStretch":
        p, q = sparams(s.self), sparams(inv)
        out.append(("linear:inverse-of-y=s*x+i-is-x=y/s-i/s", AND(q["slope"] * p["slope"] == 1, q["intercept"] * p["slope"] == -p["intercept"])))
        out.append(("linear:inverse-of-the-identity-is-the-identity(an-admissible-stretch)", implies(STRETCH[name]["ident"](p), STRETCH[name]["ident"](q))))
    if s.mode != "verify":
        return out
    y = s.y
    y0 = y.elems[0]
    try:
        t = run_real(s.interp, inv.cls.__call__, [inv, y], {})
        z = run_real(s.interp, s.self.cls.__call__, [s.self, t], {})
    except RaiseSig as r:
        return out + [(f"round-trip-does-not-raise({type(r.exc).__name__})", F_)]
    z0 = z.elems[0]
    if name == "LinearStretch":
        e, p = s.ctx.entails, sparams(s.self)
        tag = "[identity]" if e(AND(p["slope"] == 1, p["intercept"] == 0)) else \
            "[slope%s1,intercept%s0]" % ("=" if e(p["slope"] == 1) else "!=", "=" if e(p["intercept"] == 0) else "!=")
    # RECORDED FINDING, matched as narrowly as possible: a NON-identity LinearStretch clips its argument to [0,1] before the affine map,
    # so it cannot round-trip with its declared inverse (LinearStretch(2, 0.1): inverse(0) = -0.05 -> 0 -> 0.1).  Exactly this one
    # clause is not claimed on exactly those paths (slope != 1 or intercept != 0); every other clause of __call__ / inverse holds
    # for ALL slopes / intercepts and is proved.
    claimed = not (name == "LinearStretch" and tag != "[identity]")
    out += [
        *([("stretch(inverse(y))=y-on-[0,1]" + tag, implies(in01(y0), AND(z0.finite(), z0.val == y0.val)))] if claimed else []),
        ("inverse-maps-[0,1]-into-[0,1]", implies(in01(y0), in01(t.elems[0])) if name != "LinearStretch" else T),
        ("NaN-stays-NaN-through-both", implies(y0.nan, z0.nan)),
        ("argument-not-written", z3.BoolVal(y.writes == 0)),
    ]
    return out


def si_result(ctx, s):
    name = s.self.cls.__name__
    return stretch_obj(ctx, STRETCH[name]["inverse"], tag="inv_")


def stretch_inverse_contract(name):
    return Contract(f"{CN}:{name}.inverse.fget", setup=si_setup(name), requires=si_requires, ensures=si_ensures, result=si_result)


C_STRETCH_INV = {n: stretch_inverse_contract(n) for n in STRETCH_NAMES}


# ------------------------------------------------------------------------------------------------
# intervals: get_limits
# ------------------------------------------------------------------------------------------------


class Opt(Kind):
    """Optional number whose None-ness is a symbolic flag (no path fork unless the code inspects it with `is None`); the
    number itself is of arbitrary KIND (Python number / NumPy integer scalar, see NumVal)."""

    def __init__(self, none, num):
        Kind.__init__(self, "optional-number")
        self.none, self.num = none, num

    @property
    def val(self):
        return self.num.val

    def sanitized(self):
        return Opt(self.none, self.num.sanitized())

    def _pyvc_truth(self, interp):
        """Python truth value: None is falsy, and so is a number that is exactly zero (0, 0.0, np.float32(0), np.int16(0))"""
        return interp.ctx.branch(AND(NOT(self.none), self.num.val != 0))

    def _pyvc_float(self, interp):
        if interp.ctx.branch(self.none):
            raise RaiseSig(TypeError("float() argument must be a string or a real number, not 'NoneType'"))
        return Sym(self.num.val)


def lazy_opt(ctx, name):
    return Opt(ctx.fresh(name + "_is_none", "bool").t, fresh_numval(ctx, name))


def kind_is(interp, a, b):
    """`x is None` on a lazy optional forks the path; the not-None branch keeps the opaque value (arithmetic on it is out of subset)."""
    for x, y in ((a, b), (b, a)):
        if isinstance(x, Opt) and y is None:
            return interp.ctx.branch(x.none)
    return a is b


def onone(x):
    if x is None:
        return T
    if isinstance(x, Opt):
        return x.none
    return F_


def oval(x):
    if x is None:
        return z3.RealVal(0)
    if isinstance(x, Opt):
        return x.val
    return rt_(x)


def knum(x):
    """NumVal view of a limit-like value (None: exact 0, never used; lazy optional: its payload with the flags masked by not-None)"""
    if x is None:
        return NumVal(z3.RealVal(0))
    if isinstance(x, Opt):
        return NumVal(x.num.val, AND(NOT(x.none), x.num.np), AND(NOT(x.none), x.num.pyint))
    return NumVal.of(x)


def machine(a, b):
    """is `a - b` / `a + b` of these two limit-like values computed in a fixed-width NumPy integer dtype (may wrap around)?"""
    return NumVal.machine(knum(a), knum(b))


PY, NPI = "[python-number-limits]", "[numpy-int-scalar-limits]"


def _npi_open():
    """Are the [numpy-int-scalar-limits] clauses of BaseInterval.__call__ still open (not recorded as proved in the baseline)?
    While they are, the normaliser is only correct because _set_limits freezes PLAIN PYTHON NUMBERS (matplotlib's vmin/vmax setters
    return .item()), and that kind is part of _set_limits' / __init__'s contract.  Once BaseInterval.__call__ copes with NumPy integer
    scalars (proposed_fixes/C20_4.diff) the kind of the frozen limits is irrelevant and the clause is no longer demanded."""
    import json
    import os

    try:
        b = json.load(open(os.path.join(os.path.dirname(os.path.dirname(os.path.abspath(__file__))), "baseline", "obligations.json"))).get("C20", {})
    except Exception:
        return True
    ks = [k for k in b if k.startswith("BaseInterval.__call__::post:") and k.endswith(NPI)]
    return not ks or any(b[k] != "proved" for k in ks)


NPI_OPEN = _npi_open()


def kinded(s, posts, m):
    """A limit clause is stated for limits combined exactly (Python numbers, floats, NumPy-int with a float) and for limits
    that are NumPy fixed-width integer scalars (vmax - vmin, vcenter -+ half_range computed in that dtype).  On a path that has
    already decided the kind only that variant is emitted."""
    m = z3.simplify(lift(m))
    if z3.is_false(m):
        return [(lab + PY, t) for lab, t in posts]
    if s.mode == "apply":
        # call sites assume the callee's contract as stated (both variants); an open finding on a [numpy-int-scalar-limits]
        # clause is reported once, at the function whose arithmetic wraps around, not again at every caller
        return [(lab + PY, implies(NOT(m), t)) for lab, t in posts] + [(lab + NPI, implies(m, t)) for lab, t in posts]
    if s.ctx.entails(m):
        return [(lab + NPI, t) for lab, t in posts]
    if s.ctx.entails(NOT(m)):
        return [(lab + PY, t) for lab, t in posts]
    return [(lab + PY, implies(NOT(m), t)) for lab, t in posts] + [(lab + NPI, implies(m, t)) for lab, t in posts]


def data_arr(ctx, name="values", kinds=("f", "i")):
    dt = choose(ctx, name + "_dtype", list(kinds))
    return fresh_parr(ctx, name, dt)


def lim_record(ctx, lo, hi):
    ctx.ghost["limits"] = (lo, hi)
    return (lo, hi)


def _fields_id(o):
    return tuple(sorted((k, id(v)) for k, v in o.fields.items()))


READ_ONLY = {"values": "array(read-only-input)", "value": "array(read-only-input)", "data": "array(read-only-input)"}


def frame_posts(s, arr_name="values"):
    arr = getattr(s, arr_name)
    # the data handed to an interval / normaliser is read only (otherwise position i of the result no longer belongs to datum i)
    return frame_clauses(s, s.old.frame, READ_ONLY) + [("argument-array-not-written", z3.BoolVal(arr.writes == s.old.writes)),
            ("interval-object-unchanged", z3.BoolVal(_fields_id(s.self) == s.old.self_fields))]


def gl_snapshot(s):
    return NS(frame=frame_snapshot(s, ["values"]), writes=s.values.writes, self_fields=_fields_id(s.self))


def zabs(t):
    return z3.If(t >= 0, t, -t)


def zmaxr(a, b):
    return z3.If(a >= b, a, b)


def limits_spec(o, arr):
    """(vmin, vmax) of interval object `o` on array `arr` as the class documents it, over the ghost summary of `arr`."""
    g = arr.data
    n = o.cls.__name__
    if n == "ManualInterval":
        vmin, vmax = fld(o, "vmin"), fld(o, "vmax")
        return (z3.simplify(z3.If(onone(vmin), g.gmin, oval(vmin))), z3.simplify(z3.If(onone(vmax), g.gmax, oval(vmax))))
    if n == "CenteredInterval":
        c, hr = rt_(fld(o, "vcenter")), fld(o, "half_range")
        h = z3.simplify(z3.If(onone(hr), zmaxr(zabs(g.gmin - c), zabs(g.gmax - c)), oval(hr)))
        return (c - h, c + h)
    if n == "QuantileInterval":
        return (g.Q(rt_(fld(o, "lower_quantile"))), g.Q(rt_(fld(o, "upper_quantile"))))
    raise AssertionError(n)


def q_bad(o):
    lq, uq = rt_(fld(o, "lower_quantile")), rt_(fld(o, "upper_quantile"))
    return OR(lq < 0, lq > 1, uq < 0, uq > 1)


def limits_raise(o, arr):
    """{Exc: condition} under which get_limits of `o` on `arr` raises (numpy reductions of an empty selection / bad quantile)."""
    g = arr.data
    n = o.cls.__name__
    if n == "ManualInterval":
        return {ValueError: z3.simplify(AND(OR(onone(fld(o, "vmin")), onone(fld(o, "vmax"))), NOT(g.has_finite))), IndexError: F_}
    if n == "CenteredInterval":
        return {ValueError: z3.simplify(AND(onone(fld(o, "half_range")), NOT(g.has_finite))), IndexError: F_}
    return {ValueError: q_bad(o), IndexError: AND(NOT(q_bad(o)), NOT(g.has_finite))}


def limits_kinded(ctx, o, arr):
    """(vmin, vmax) as VALUES WITH KIND for call sites: data-derived limits are exact floats, user-supplied limits keep their
    kind; explicit centred limits are vcenter -+ half_range computed in the operands' kind - where that is fixed-width integer
    arithmetic nothing is promised about the value (see the [numpy-int-scalar-limits] clauses)."""
    lo, hi = limits_spec(o, arr)
    n = o.cls.__name__
    if n == "ManualInterval":
        a, b = knum(fld(o, "vmin")), knum(fld(o, "vmax"))
        return NumVal(lo, a.np, a.pyint), NumVal(hi, b.np, b.pyint)
    if n == "CenteredInterval":
        m = z3.simplify(AND(NOT(onone(fld(o, "half_range"))), machine(fld(o, "vcenter"), fld(o, "half_range"))))
        if z3.is_false(m):
            return NumVal(lo), NumVal(hi)
        return (NumVal(z3.If(m, ctx.fresh("wrapped_vmin", "real").t, lo), m, F_), NumVal(z3.If(m, ctx.fresh("wrapped_vmax", "real").t, hi), m, F_))
    return NumVal(lo), NumVal(hi)


def limits_result(ctx, s):
    o, arr = s.self, s.values
    if o.cls.__name__ == "QuantileInterval":
        for f in s.interp.reg.c20_quantile_facts(arr.data, [rt_(fld(o, "lower_quantile")), rt_(fld(o, "upper_quantile"))]):
            ctx.assume(f)
    lo, hi = limits_kinded(ctx, o, arr)
    return lim_record(ctx, lo, hi)


def interval_obj(ctx, name, lazy=False, tag=""):
    opt = (lambda n: lazy_opt(ctx, tag + n)) if lazy else (lambda n: opt_real(ctx, tag + n))
    if name == "ManualInterval":
        f = dict(vmin=opt("vmin"), vmax=opt("vmax"))
    elif name == "CenteredInterval":
        f = dict(vcenter=fresh_numval(ctx, tag + "vcenter"), half_range=opt("half_range"))
    else:
        f = dict(lower_quantile=ctx.fresh(tag + "lower_quantile", "real"), upper_quantile=ctx.fresh(tag + "upper_quantile", "real"))
    return Obj(K(name), f)


# ---- abstract method: any pair of finite reals (every override below is verified to return such a pair and to leave
# its argument alone; BaseInterval.__call__/inverse are verified against THIS specification, i.e. for any subclass)

C_ABS_LIMITS = Contract(
    f"{CN}:BaseInterval.get_limits", setup=lambda ctx: NS(self=Obj(K("BaseInterval"), {}), values=data_arr(ctx)),
    ensures=lambda s: [],
    result=lambda ctx, s: lim_record(ctx, fresh_numval(ctx, "vmin"), fresh_numval(ctx, "vmax")),
    note="abstract method: specification only (body raises NotImplementedError)",
)


def gl_ensures(s):
    """get_limits of the three concrete intervals: the documented limits + what the property needs from them."""
    o, arr = s.self, s.values
    g = arr.data
    n = o.cls.__name__
    lo, hi = rt_(s.result[0]), rt_(s.result[1])
    slo, shi = limits_spec(o, arr)
    out = []
    if n == "ManualInterval":
        both = AND(onone(fld(o, "vmin")), onone(fld(o, "vmax")))
        out += [("vmin=user-value-or-min-of-finite-data", lo == slo), ("vmax=user-value-or-max-of-finite-data", hi == shi)]
        data_derived = both
    elif n == "CenteredInterval":
        c = rt_(fld(o, "vcenter"))
        data_derived = onone(fld(o, "half_range"))
        m = AND(NOT(data_derived), machine(fld(o, "vcenter"), fld(o, "half_range")))
        out += kinded(s, [("symmetric-about-vcenter", lo + hi == 2 * c),
                        ("given-half_range:vcenter-+half_range", implies(NOT(data_derived), AND(lo == c - oval(fld(o, "half_range")), hi == c + oval(fld(o, "half_range"))))),
                        ("limits=spec", AND(lo == slo, hi == shi))], m)
        out += [("data-derived:tight(touches-min-or-max)", implies(data_derived, OR(lo == g.gmin, hi == g.gmax)))]
    else:
        lq, uq = rt_(fld(o, "lower_quantile")), rt_(fld(o, "upper_quantile"))
        data_derived = F_
        out += [("vmin=Q(lower_quantile)", lo == g.Q(lq)), ("vmax=Q(upper_quantile)", hi == g.Q(uq)),
                ("quantiles-ordered=>limits-ordered", implies(lq <= uq, lo <= hi)),
                ("limits-inside-data-range", AND(g.gmin <= lo, lo <= g.gmax, g.gmin <= hi, hi <= g.gmax)),
                ("quantile-0-is-min", implies(lq == 0, lo == g.gmin)), ("quantile-1-is-max", implies(uq == 1, hi == g.gmax))]
    if n != "QuantileInterval":
        out += [("data-derived-limits-ordered", implies(data_derived, lo <= hi)),
                ("two-distinct-finite-values=>vmin<vmax", implies(AND(data_derived, g.distinct2), lo < hi))]
        for i, e in enumerate(arr.elems):
            out.append((f"finite-data-inside-data-derived-limits[{i}]", implies(AND(data_derived, e.finite()), AND(lo <= e.val, e.val <= hi))))
    # value kind of the result, as call sites rely on it (limits_kinded): limits derived from the data are exact floats, a
    # user-supplied limit is handed back as it is
    klo, khi = limits_kinded(s.ctx, o, arr)
    rlo, rhi = NumVal.of(s.result[0]), NumVal.of(s.result[1])
    same_pyint = AND(implies(NOT(rlo.np), rlo.pyint == klo.pyint), implies(NOT(rhi.np), rhi.pyint == khi.pyint)) if n == "ManualInterval" else T
    # (one-directional: a limit may be a NumPy integer scalar only where call sites are told so; handing back an exact float instead is fine)
    out += [("result-kind:data-derived-limits-are-exact-floats;user-limits-keep-their-kind", AND(implies(rlo.np, klo.np), implies(rhi.np, khi.np), same_pyint))]
    return out + frame_posts(s)


def gl_contract(name):
    return Contract(
        f"{CN}:{name}.get_limits", setup=lambda ctx: NS(self=interval_obj(ctx, name), values=data_arr(ctx)),
        ensures=gl_ensures, snapshot=gl_snapshot, result=limits_result,
        raises={ValueError: lambda s: limits_raise(s.self, s.values)[ValueError], IndexError: lambda s: limits_raise(s.self, s.values)[IndexError]},
    )


C_LIMITS = {n: gl_contract(n) for n in INTERVALS}

# ------------------------------------------------------------------------------------------------
# BaseInterval.__call__ / inverse  (verified for ANY get_limits, see C_ABS_LIMITS)
# ------------------------------------------------------------------------------------------------


def bi_setup(ctx):
    return NS(self=Obj(K("BaseInterval"), {}), values=data_arr(ctx, kinds=("f", "i", "b")))


def bi_snapshot(s):
    return NS(frame=frame_snapshot(s, ["values"]), elems=s.values.snapshot(), writes=s.values.writes, self_fields=_fields_id(s.self))


def interval_posts(old, new, lo, hi, which="all"):
    """The interval map on generic entries: from the property statement (range, monotone, limits -> 0 / 1, NaN) plus the
    documented mechanism (affine between the limits).  which = "range" (clauses that do not involve the limits) | "limits" | "all"."""
    out = []
    if which in ("range", "all"):
        for i, (a, b) in enumerate(zip(old, new)):
            out += [(f"nan-in<=>nan-out[{i}]", b.nan == a.nan), (f"every-number-maps-into-[0,1][{i}]", implies(a.number(), in01(b)))]
        if which == "range":
            return out
    for i, (a, b) in enumerate(zip(old, new)):
        out += [
            (f"at-or-below-lower-limit->0[{i}]", implies(AND(a.number(), lo <= hi, OR(a.inf < 0, AND(a.inf == 0, a.val <= lo))), b.val == 0)),
            (f"at-or-above-upper-limit->1[{i}]", implies(AND(a.number(), lo < hi, OR(a.inf > 0, AND(a.inf == 0, a.val >= hi))), b.val == 1)),
            (f"affine-between-distinct-limits[{i}]", implies(AND(a.finite(), lo < hi, lo <= a.val, a.val <= hi), b.val * (hi - lo) == a.val - lo)),
            (f"coinciding-limits:unit-ramp-above-the-limit[{i}]", implies(AND(a.finite(), lo == hi, lo <= a.val, a.val <= lo + 1), b.val == a.val - lo)),
        ]
    if len(old) >= 2:
        a1, a2, b1, b2 = old[0], old[1], new[0], new[1]
        out += [
            ("non-decreasing", implies(AND(a1.number(), a2.number(), lo <= hi, ext_le(a1, a2)), b1.val <= b2.val)),
            ("strictly-increasing-between-distinct-limits", implies(AND(a1.finite(), a2.finite(), lo < hi, lo <= a1.val, a1.val < a2.val, a2.val <= hi), b1.val < b2.val)),
        ]
    return out


def _lims_raw(s):
    return s.__dict__.get("_lims") or s.ctx.ghost.get("limits")


def _lims(s):
    l = _lims_raw(s)
    return rt_(l[0]), rt_(l[1])


def lims_machine(s):
    """is `vmax - vmin` of the limits get_limits returned computed in a fixed-width NumPy integer dtype?"""
    l = _lims_raw(s)
    return machine(l[1], l[0])


def bi_ensures(s):
    res = s.result
    if not isinstance(res, PArr):
        return [("returns-an-array", F_)]
    lo, hi = _lims(s)
    return interval_posts(s.old.elems, res.elems, lo, hi, "range") + kinded(s, interval_posts(s.old.elems, res.elems, lo, hi, "limits"), lims_machine(s)) + [
        ("result-is-a-new-float-array", z3.BoolVal(res is not s.values and res.dt == "f")),
        ("argument-array-not-written", z3.BoolVal(s.values.writes == s.old.writes)),
        ("interval-object-unchanged", z3.BoolVal(_fields_id(s.self) == s.old.self_fields)),
    ] + frame_clauses(s, s.old.frame, READ_ONLY)


def bi_result(ctx, s):
    # the limits are whatever the receiver's own get_limits returns (its contract; may raise per that contract)
    s._lims = s.interp.call(s.interp.getattr(s.self, "get_limits"), [s.values], {})
    r = _fresh_arr(ctx, "normalized", len(s.values.elems))
    ctx.ghost.setdefault("interval_calls", []).append(NS(interval=s.self, arg=s.values, result=r, after=r.snapshot()))
    return r


C_BI_CALL = Contract(f"{CN}:BaseInterval.__call__", setup=bi_setup, ensures=bi_ensures, snapshot=bi_snapshot, result=bi_result)


def binv_setup(ctx):
    return NS(self=Obj(K("BaseInterval"), {}), values=fresh_parr(ctx, "values", "f"))


def binv_ensures(s):
    res = s.result
    if not isinstance(res, PArr):
        return [("returns-an-array", F_)]
    lo, hi = _lims(s)
    out, lim = [], []
    for i, (a, b) in enumerate(zip(s.old.elems, res.elems)):
        out += [(f"nan-in=>nan-out[{i}]", implies(a.nan, b.nan))]
        lim += [(f"finite:vmin+y*(vmax-vmin)[{i}]", implies(a.finite(), AND(b.finite(), b.val == lo + a.val * (hi - lo)))),
                (f"0->vmin,1->vmax[{i}]", implies(a.finite(), AND(implies(a.val == 0, b.val == lo), implies(a.val == 1, b.val == hi))))]
    a1, a2, b1, b2 = s.old.elems[0], s.old.elems[1], res.elems[0], res.elems[1]
    lim.append(("non-decreasing", implies(AND(a1.finite(), a2.finite(), lo <= hi, a1.val <= a2.val), b1.val <= b2.val)))
    out += kinded(s, lim, lims_machine(s))
    return out + [("result-is-a-new-array", z3.BoolVal(res is not s.values)),
                  ("argument-array-not-written", z3.BoolVal(s.values.writes == s.old.writes)),
                  ("interval-object-unchanged", z3.BoolVal(_fields_id(s.self) == s.old.self_fields))] + frame_clauses(s, s.old.frame, READ_ONLY)


C_BI_INV = Contract(f"{CN}:BaseInterval.inverse", setup=binv_setup, ensures=binv_ensures, snapshot=bi_snapshot, result=bi_result,
                    requires=lambda s: [("values-is-a-float-array", T if s.values.dt == "f" else F_)])

# ------------------------------------------------------------------------------------------------
# CustomNormalization
# ------------------------------------------------------------------------------------------------

CNORM = K("CustomNormalization")


def stretch_is_admissible(o):
    """Class invariant of CustomNormalization.stretch: a stretch with valid parameters; LinearStretch only as the identity
    (the only linear stretch __init__ ever builds)."""
    r = [("stretch:" + a, b) for a, b in stretch_inv(o)]
    if o.cls.__name__ == "LinearStretch":
        r.append(("stretch:linear-is-identity", STRETCH["LinearStretch"]["ident"](sparams(o))))
    return r


def norm_obj(ctx, interval_names=INTERVALS):
    iv = interval_obj(ctx, choose(ctx, "interval_class", list(interval_names)), lazy=True)
    st = Obj(AnyStretch, {})  # class invariant: an admissible stretch (see AnyStretch / stretch_is_admissible)
    return Obj(CNORM, dict(interval=iv, stretch=st, _vmin=lazy_opt(ctx, "norm_vmin"), _vmax=lazy_opt(ctx, "norm_vmax"), _clip=False, _scale=None))


def cn_snapshot(s):
    o = s.self
    arr = s.__dict__.get("value", s.__dict__.get("data"))
    return NS(frame=frame_snapshot(s, [k for k in ("value", "data") if isinstance(s.__dict__.get(k), PArr)]), elems=arr.snapshot() if arr is not None else (), writes=arr.writes if arr is not None else 0, fields=_fields_id(o),
              interval=o.fields.get("interval"), stretch=o.fields.get("stretch"),
              interval_fields=_fields_id(o.fields["interval"]) if "interval" in o.fields else None,
              stretch_fields=_fields_id(o.fields["stretch"]) if "stretch" in o.fields else None)


# ---- __call__ : the property statement


def call_setup(ctx):
    return NS(self=norm_obj(ctx), value=data_arr(ctx, "value", kinds=("f", "i", "b")))


def call_requires(s):
    return []  # class invariant `stretch is admissible` is built into the abstract stretch object


def call_ensures(s):
    res = s.result
    if not isinstance(res, PMasked):
        return [("returns-a-masked-array", F_)]
    lo, hi = _lims(s)
    old = s.old.elems
    new = res.elems
    out, lim = [], []
    for i, (a, b, m) in enumerate(zip(old, new, res.mask)):
        out += [
            (f"NaN-comes-back-masked[{i}]", implies(a.nan, m)),
            (f"NaN-is-not-turned-into-a-number[{i}]", implies(a.nan, b.nan)),
            (f"numbers-are-not-masked[{i}]", implies(a.number(), NOT(m))),
            (f"numbers-map-into-[0,1][{i}]", implies(a.number(), in01(b))),
        ]
        lim += [
            (f"lower-limit(and-below)->0[{i}]", implies(AND(a.number(), lo <= hi, OR(a.inf < 0, AND(a.inf == 0, a.val <= lo))), b.val == 0)),
            (f"upper-limit(and-above)->1[{i}]", implies(AND(a.number(), lo < hi, OR(a.inf > 0, AND(a.inf == 0, a.val >= hi))), b.val == 1)),
        ]
    a1, a2, b1, b2 = old[0], old[1], new[0], new[1]
    lim += [
        ("non-decreasing-in-the-data-value", implies(AND(a1.number(), a2.number(), lo <= hi, ext_le(a1, a2)), b1.val <= b2.val)),
        ("strictly-increasing-between-distinct-limits", implies(AND(a1.finite(), a2.finite(), lo < hi, lo <= a1.val, a1.val < a2.val, a2.val <= hi), b1.val < b2.val)),
        ("limits-are-those-of-the-interval", AND(*[x == y for x, y in zip((lo, hi), limits_spec(s.old.interval, s.value))])),
    ]
    out += kinded(s, lim, lims_machine(s))
    out += [
        ("composition:masked(stretch(interval(value)))", T if s.mode == "apply" else z3.BoolVal(_composition_ok(s, res))),
        ("argument-array-not-written", z3.BoolVal(s.value.writes == s.old.writes)), *frame_clauses(s, s.old.frame, READ_ONLY),
        ("normalization-object-unchanged", z3.BoolVal(_fields_id(s.self) == s.old.fields and _fields_id(fld(s.self, "interval")) == s.old.interval_fields
                                                        and _fields_id(fld(s.self, "stretch")) == s.old.stretch_fields)),
    ]
    return out


def _composition_ok(s, res):
    """mechanism (anchor `composition and masking`): the interval is applied once to `value`, the stretch once - in place or
    using its result - to the interval's output, and the masked result carries exactly the stretched entries."""
    g = s.ctx.ghost
    ic, sc = g.get("interval_calls", []), g.get("stretch_calls", [])
    if len(ic) != 1 or len(sc) != 1:
        return False
    ic, sc = ic[0], sc[0]
    return (ic.interval is s.old.interval and ic.arg is s.value and sc.stretch is s.old.stretch and sc.arg is ic.result and sc.before == ic.after
            and res.base is sc.result and tuple(res.elems) == sc.after)


C_CALL = Contract(
    f"{CN}:CustomNormalization.__call__", setup=call_setup, requires=call_requires, ensures=call_ensures, snapshot=cn_snapshot,
    raises={ValueError: lambda s: limits_raise(s.old.interval, s.value)[ValueError], IndexError: lambda s: limits_raise(s.old.interval, s.value)[IndexError]},
    result=lambda ctx, s: call_result(ctx, s),
)


# ---- inverse : 0 -> lower limit, 1 -> upper limit, monotone, NaN stays NaN


def cinv_setup(ctx):
    return NS(self=norm_obj(ctx, interval_names=("ManualInterval", "CenteredInterval")), value=fresh_parr(ctx, "value", "f", with_inf=False))


def limits_data_independent(iv):
    n = iv.cls.__name__
    if n == "ManualInterval":
        return AND(NOT(onone(fld(iv, "vmin"))), NOT(onone(fld(iv, "vmax"))))
    if n == "CenteredInterval":
        return NOT(onone(fld(iv, "half_range")))
    return F_


def cinv_requires(s):
    r = []
    # BaseInterval.inverse asks the interval for limits OF ITS ARGUMENT (the normalised values): only meaningful once the
    # limits are frozen (_set_limits) or explicit - this is how the colour bar uses it
    r.append(("interval-limits-explicit(frozen)", limits_data_independent(fld(s.self, "interval"))))
    return r


def cinv_ensures(s):
    res = s.result
    if not isinstance(res, PArr):
        return [("returns-an-array", F_)]
    lo, hi = limits_spec(s.old.interval, s.value)  # explicit limits: independent of the array
    out, lim = [], []
    for i, (a, b) in enumerate(zip(s.old.elems, res.elems)):
        out += [(f"NaN-stays-NaN[{i}]", implies(a.nan, b.nan))]
        lim += [(f"0->lower-limit[{i}]", implies(AND(a.finite(), a.val == 0), AND(b.finite(), b.val == lo))),
                (f"1->upper-limit[{i}]", implies(AND(a.finite(), a.val == 1), AND(b.finite(), b.val == hi))),
                (f"[0,1]->[vmin,vmax][{i}]", implies(AND(in01(a), lo <= hi), AND(b.finite(), lo <= b.val, b.val <= hi)))]
    a1, a2, b1, b2 = s.old.elems[0], s.old.elems[1], res.elems[0], res.elems[1]
    lim += [("non-decreasing-on-[0,1]", implies(AND(in01(a1), in01(a2), lo <= hi, a1.val <= a2.val), b1.val <= b2.val))]
    out += kinded(s, lim, lims_machine(s))
    out += [("argument-array-not-written", z3.BoolVal(s.value.writes == s.old.writes)), *frame_clauses(s, s.old.frame, READ_ONLY),
            ("normalization-object-unchanged", z3.BoolVal(_fields_id(s.self) == s.old.fields)),
            ("composition:interval.inverse(stretch.inverse(value))", z3.BoolVal(_inv_composition_ok(s, res)))]
    return out


def _inv_composition_ok(s, res):
    g = s.ctx.ghost
    ic, sc = g.get("interval_calls", []), g.get("stretch_calls", [])
    if len(ic) != 1 or len(sc) != 1:
        return False
    ic, sc = ic[0], sc[0]
    return (sc.stretch.fields.get("$inverse_of") is s.old.stretch and sc.arg is s.value and ic.interval is s.old.interval and ic.arg is sc.result
            and tuple(ic.arg.elems) == sc.after and res is ic.result and tuple(res.elems) == ic.after)


C_CINV = Contract(f"{CN}:CustomNormalization.inverse", setup=cinv_setup, requires=cinv_requires, ensures=cinv_ensures, snapshot=cn_snapshot)


# ---- _set_limits : limits frozen from the data


def sl_setup(ctx):
    return NS(self=norm_obj(ctx), data=data_arr(ctx, "data", kinds=("f", "i", "b")))


def centered_machine(iv):
    """explicit centred limits vcenter -+ half_range computed in a fixed-width NumPy integer dtype?"""
    if iv.cls.__name__ != "CenteredInterval":
        return F_
    return z3.simplify(AND(NOT(onone(fld(iv, "half_range"))), machine(fld(iv, "vcenter"), fld(iv, "half_range"))))


def kind_flags(x):
    k = knum(x)
    return k.np, k.pyint


def sl_raise(E):
    def cond(s):
        if s.data.dt == "b":
            return F_
        return limits_raise(s.old.interval, s.data)[E]
    return cond


def sl_ensures(s):
    o = s.self
    iv = fld(o, "interval")
    if not (isinstance(iv, Obj) and iv.cls is K("ManualInterval")):
        return [("interval-is-now-a-ManualInterval", F_)]
    if s.data.dt == "b":
        lo, hi = z3.RealVal(0), z3.RealVal(1)
    else:
        lo, hi = limits_spec(s.old.interval, s.data)
    vmin, vmax = fld(iv, "vmin"), fld(iv, "vmax")
    out = [
        ("interval-is-now-a-ManualInterval", T),
        ("frozen:both-limits-explicit", AND(NOT(onone(vmin)), NOT(onone(vmax)))),
        # matplotlib's vmin/vmax setters hand back plain Python numbers (.item()); the frozen interval is built from those
        *([("frozen-limits-are-plain-python-numbers", AND(NOT(kind_flags(vmin)[0]), NOT(kind_flags(vmax)[0])))] if NPI_OPEN else []),
        ("returns-None", z3.BoolVal(s.result is None)),
        ("stretch-untouched", z3.BoolVal(fld(o, "stretch") is s.old.stretch and _fields_id(fld(o, "stretch")) == s.old.stretch_fields)),
        ("previous-interval-object-untouched", z3.BoolVal(_fields_id(s.old.interval) == s.old.interval_fields)),
        ("data-not-written", z3.BoolVal(s.data.writes == s.old.writes)), *frame_clauses(s, s.old.frame, READ_ONLY),
    ]
    out += kinded(s, [
        ("frozen-limits=limits-of-the-previous-interval-on-the-data(bool:0,1)", AND(oval(vmin) == lo, oval(vmax) == hi)),
        ("norm.vmin/vmax=frozen-limits", AND(NOT(onone(fld(o, "_vmin"))), NOT(onone(fld(o, "_vmax"))), oval(fld(o, "_vmin")) == lo, oval(fld(o, "_vmax")) == hi)),
    ], F_ if s.data.dt == "b" else centered_machine(s.old.interval))
    return out


def sl_modifies(ctx, s):
    o = s.self
    if s.data.dt == "b":
        lo, hi = 0.0, 1.0
    else:
        lo, hi = s.interp.call(s.interp.getattr(fld(o, "interval"), "get_limits"), [s.data], {})
        lo, hi = knum(lo).sanitized(), knum(hi).sanitized()  # (frozen-limits-are-plain-python-numbers)
    o.fields["interval"] = Obj(K("ManualInterval"), dict(vmin=lo, vmax=hi))
    o.fields["_vmin"], o.fields["_vmax"] = lo, hi


C_SETLIM = Contract(
    f"{CN}:CustomNormalization._set_limits", setup=sl_setup, ensures=sl_ensures, snapshot=cn_snapshot, modifies=sl_modifies,
    raises={ValueError: sl_raise(ValueError), IndexError: sl_raise(IndexError)},
)

# ---- __init__ : configuration -> interval / stretch objects

ITYPES = {"quantile": "QuantileInterval", "manual": "ManualInterval", "centered": "CenteredInterval"}
STYPES = {"linear": "LinearStretch", "power": "PowerLawStretch", "logarithmic": "LogarithmicStretch", "asinh": "InverseHyperbolicSineStretch"}


def init_setup(ctx):
    s = NS(self=Obj(CNORM, {}))
    s.interval_type = choose(ctx, "interval_type", list(ITYPES) + ["<any other string>"])
    s.stretch_type = choose(ctx, "stretch_type", list(STYPES) + ["<any other string>"])
    has_data = ctx.branch(ctx.fresh("data_given", "bool").t)
    s.kwargs = dict(
        # dtype kinds: the body never inspects the dtype itself; _set_limits' contract distinguishes only bool / non-bool,
        # and an integer array is the special case `no NaN/inf, integral values` of the float case
        data=data_arr(ctx, "data", kinds=("f", "b")) if has_data else None, lower_quantile=ctx.fresh("lower_quantile", "real"), upper_quantile=ctx.fresh("upper_quantile", "real"),
        vmin=lazy_opt(ctx, "vmin"), vmax=lazy_opt(ctx, "vmax"), vcenter=fresh_numval(ctx, "vcenter"), half_range=lazy_opt(ctx, "half_range"),
        power=ctx.fresh("power", "real"), logarithmic_index=ctx.fresh("logarithmic_index", "real"), asinh_linear_range=ctx.fresh("asinh_linear_range", "real"),
    )
    return s


def init_plan(s):
    """What the configuration selects (class docstring): interval by name; stretch by name, a power != 1 always selects the power law."""
    kw = KW(s)
    itype, stype = s.interval_type, s.stretch_type
    iv = None
    if itype in ITYPES:
        f = {"QuantileInterval": dict(lower_quantile=kw["lower_quantile"], upper_quantile=kw["upper_quantile"]),
             "ManualInterval": dict(vmin=kw["vmin"], vmax=kw["vmax"]),
             "CenteredInterval": dict(vcenter=kw["vcenter"], half_range=kw["half_range"])}[ITYPES[itype]]
        iv = Obj(K(ITYPES[itype]), f)
    p = rt_(kw["power"])
    power_sel = T if stype == "power" else (p != 1)
    known = stype in STYPES
    bad_param = {"linear": F_, "power": F_, "logarithmic": rt_(kw["logarithmic_index"]) <= 0, "asinh": rt_(kw["asinh_linear_range"]) <= 0}.get(stype, F_)
    config_error = OR(z3.BoolVal(iv is None), AND(power_sel, p <= 0), AND(NOT(power_sel), z3.BoolVal(not known)), AND(NOT(power_sel), bad_param))
    return NS(interval=iv, power_sel=power_sel, config_error=z3.simplify(config_error))


def init_raise(E):
    def cond(s):
        pl = init_plan(s)
        if E is ValueError:
            c = pl.config_error
            if pl.interval is not None and KW(s)["data"] is not None and KW(s)["data"].dt != "b":
                c = OR(c, limits_raise(pl.interval, KW(s)["data"])[ValueError])
            return c
        if pl.interval is not None and KW(s)["data"] is not None and KW(s)["data"].dt != "b":
            return AND(NOT(pl.config_error), limits_raise(pl.interval, KW(s)["data"])[IndexError])
        return F_
    return cond


def init_ensures(s):
    if s.mode == "apply":
        return []  # the object state is built exactly as described (init_modifies)
    o = s.self
    kw = KW(s)
    pl = init_plan(s)
    iv, st = o.fields.get("interval"), o.fields.get("stretch")
    if not (isinstance(iv, Obj) and isinstance(st, Obj)) or pl.interval is None:
        return [("interval-and-stretch-objects-created", F_)]
    out = [("interval-and-stretch-objects-created", T)]
    # stretch
    sname = st.cls.__name__
    want_param = {"PowerLawStretch": ("power", kw["power"]), "LogarithmicStretch": ("a", kw["logarithmic_index"]),
                  "InverseHyperbolicSineStretch": ("a", kw["asinh_linear_range"])}
    out += [("power!=1-or-'power'<=>PowerLawStretch", pl.power_sel == z3.BoolVal(sname == "PowerLawStretch")),
            ("otherwise-stretch-class-by-name", implies(NOT(pl.power_sel), z3.BoolVal(STYPES.get(s.stretch_type) == sname)))]
    if sname in want_param:
        pn, pv = want_param[sname]
        out.append(("stretch-parameter-is-the-configured-one", rt_(fld(st, pn)) == rt_(pv)))
    out += [("stretch-admissible:" + a, b) for a, b in stretch_is_admissible(st)]
    # interval
    if s.interval_type == "manual" and not (KW(s)["data"] is not None and KW(s)["data"].dt == "b"):
        # THE CALLER'S manual limits are the interval's limits (with or without data: freezing keeps an explicit limit; a BOOLEAN
        # image is the documented exception of _set_limits: its limits are always 0, 1) - stated
        # separately for a limit that is exactly zero (Python 0, 0.0, np.float32(0), np.int16(0): all falsy) and any other number
        for k in ("vmin", "vmax"):
            if iv.cls is K("ManualInterval"):
                for tag, c in zero_split(kw[k]):
                    out.append((f"manual-limits-given-by-the-caller-are-the-interval's-limits[{k}]{tag}",
                                implies(c, AND(NOT(onone(fld(iv, k))), oval(fld(iv, k)) == oval(kw[k])))))
    if KW(s)["data"] is None:
        out += [("interval-class-by-name", z3.BoolVal(iv.cls is pl.interval.cls)),
                ("interval-parameters-are-the-configured-ones", AND(z3.BoolVal(iv.cls is pl.interval.cls and set(iv.fields) == set(pl.interval.fields)),
                                                                    *[same_limit(iv.fields.get(k), v) for k, v in pl.interval.fields.items() if k in iv.fields])),
                ("norm.vmin/vmax-are-the-arguments", AND(*[AND(onone(fld(o, "_" + k)) == onone(kw[k]), implies(NOT(onone(kw[k])), oval(fld(o, "_" + k)) == oval(kw[k]))) for k in ("vmin", "vmax")]))]
    else:
        if KW(s)["data"].dt == "b":
            lo, hi = z3.RealVal(0), z3.RealVal(1)
        else:
            lo, hi = limits_spec(pl.interval, KW(s)["data"])
        if iv.cls is not K("ManualInterval"):
            return out + [("data-given:interval-frozen-to-ManualInterval", F_)]
        out += [("data-given:interval-frozen-to-ManualInterval", T),
                *([("data-given:frozen-limits-are-plain-python-numbers", AND(NOT(kind_flags(fld(iv, "vmin"))[0]), NOT(kind_flags(fld(iv, "vmax"))[0])))] if NPI_OPEN else []),
                ("data-not-written", z3.BoolVal(KW(s)["data"].writes == 0)),
                ("frame:the-caller's-array(read-only-input)-is-not-written", z3.BoolVal(KW(s)["data"]._pyvc_signature() == s.old.data_sig))]
        out += kinded(s, [
            ("data-given:frozen-limits=limits-of-the-configured-interval-on-the-data(bool:0,1)",
             AND(NOT(onone(fld(iv, "vmin"))), NOT(onone(fld(iv, "vmax"))), oval(fld(iv, "vmin")) == lo, oval(fld(iv, "vmax")) == hi)),
            ("data-given:norm.vmin/vmax=frozen-limits", AND(NOT(onone(fld(o, "_vmin"))), NOT(onone(fld(o, "_vmax"))), oval(fld(o, "_vmin")) == lo, oval(fld(o, "_vmax")) == hi)),
        ], F_ if KW(s)["data"].dt == "b" else centered_machine(pl.interval))
    out.append(("clip-disabled-in-matplotlib-base", z3.BoolVal(o.fields.get("_clip") is False)))
    return out


def same_limit(got, want):
    """the same optional number (None-ness and mathematical value; the value KIND may differ: float(x) is exact)"""
    return AND(onone(got) == onone(want), implies(NOT(onone(want)), oval(got) == oval(want)))


ZERO, NONZERO = "[limit-is-exactly-0(int-0,float-0.0,numpy-scalar-0)]", "[nonzero-limit]"


def zero_split(x):
    """[(tag, condition)]: the caller gave this limit, and it is exactly zero / any other number"""
    given = NOT(onone(x))
    return [(ZERO, z3.simplify(AND(given, oval(x) == 0))), (NONZERO, z3.simplify(AND(given, oval(x) != 0)))]


C_INIT = Contract(
    f"{CN}:CustomNormalization.__init__", setup=init_setup, ensures=init_ensures,
    snapshot=lambda s: NS(data_sig=KW(s)["data"]._pyvc_signature() if KW(s)["data"] is not None else None),
    raises={ValueError: init_raise(ValueError), IndexError: init_raise(IndexError)}, modifies=lambda ctx, s: init_modifies(ctx, s),
)

# ---- _resolve_normalization / NORMALIZATION_PRESETS

CONFIG_DEFAULTS = dict(interval_type="quantile", stretch_type="linear", lower_quantile=0.02, upper_quantile=0.98, vmin=None, vmax=None,
                       vcenter=0.0, half_range=None, power=1.0, logarithmic_index=1000.0, asinh_linear_range=0.1)
# what each preset NAME promises (read off the names; `*_auto` / plain = the default quantile interval, `*_minmax` = data min/max)
PRESET_SPEC = {
    "linear_auto": {}, "quantile": {}, "linear_minmax": dict(interval_type="manual"), "minmax": dict(interval_type="manual"),
    "linear_centered": dict(interval_type="centered"), "log_auto": dict(stretch_type="logarithmic"),
    "log_minmax": dict(stretch_type="logarithmic", interval_type="manual"), "power_squared": dict(stretch_type="power", power=2.0),
    "power_sqrt": dict(stretch_type="power", power=0.5), "asinh_centered": dict(stretch_type="asinh", interval_type="centered"),
}
RESOLVE_CASES = ([("preset", n) for n in PRESET_SPEC] + [("unknown-preset", "no_such_preset"), ("none", ()), ("none", ("vmin",)), ("none", ("vmax",)),
                 ("none", ("vmin", "vmax", "stretch_type")), ("none", ("lower_quantile",)), ("none", ("upper_quantile",)),
                 ("none", ("lower_quantile", "upper_quantile")), ("none", ("vmin", "lower_quantile")), ("dict", None), ("config", None), ("bad-type", None)])


def rn_setup(ctx):
    kind, arg = choose(ctx, "case", RESOLVE_CASES)
    s = NS(kind=kind, arg=arg, kwargs={})
    s.case = f"{kind}:{arg}" if arg is not None else kind
    if kind in ("preset", "unknown-preset"):
        s.norm = arg
    elif kind == "none":
        s.norm = None
        for k in arg:
            s.kwargs[k] = "logarithmic" if k == "stretch_type" else ctx.fresh("kw_" + k, "real")
    elif kind == "dict":
        s.norm = dict(interval_type="centered", vcenter=ctx.fresh("d_vcenter", "real"), power=ctx.fresh("d_power", "real"))
    elif kind == "config":
        s.norm = Obj(K("NormalizationConfig"), dict(CONFIG_DEFAULTS, stretch_type="asinh"))
    else:
        s.norm = 42
    return s


def cfg_expected(s):
    if s.kind == "preset":
        return dict(CONFIG_DEFAULTS, **PRESET_SPEC[s.arg])
    if s.kind == "none":
        kw = s.kwargs
        if "vmin" in kw or "vmax" in kw:
            return dict(CONFIG_DEFAULTS, interval_type="manual", stretch_type=kw.get("stretch_type", "linear"), vmin=kw.get("vmin"), vmax=kw.get("vmax"))
        if "lower_quantile" in kw or "upper_quantile" in kw:
            return dict(CONFIG_DEFAULTS, interval_type="quantile", lower_quantile=kw.get("lower_quantile", 0.02), upper_quantile=kw.get("upper_quantile", 0.98))
        return dict(CONFIG_DEFAULTS)
    if s.kind == "dict":
        return dict(CONFIG_DEFAULTS, **s.norm)
    return None


def veq_field(a, b):
    if a is None or b is None or isinstance(a, str) or isinstance(b, str):
        return z3.BoolVal(a is b or (isinstance(a, str) and a == b))
    return rt_(a) == rt_(b)


def config_is_covered(get):
    """The configuration lies in the domain on which CustomNormalization.__init__ is proved not to raise a configuration
    error and builds an admissible stretch (independent of data)."""
    p = rt_(get("power"))
    st = get("stretch_type")
    return AND(z3.BoolVal(get("interval_type") in ITYPES), z3.BoolVal(st in STYPES), p > 0,
               implies(AND(p == 1, z3.BoolVal(st == "logarithmic")), rt_(get("logarithmic_index")) > 0),
               implies(AND(p == 1, z3.BoolVal(st == "asinh")), rt_(get("asinh_linear_range")) > 0),
               rt_(get("lower_quantile")) >= 0, rt_(get("lower_quantile")) <= rt_(get("upper_quantile")), rt_(get("upper_quantile")) <= 1)


def rn_ensures(s):
    if s.mode == "apply":
        return []  # the result IS the promised configuration (rn_result)
    r = s.result
    out = [("preset-table-is-exactly-the-module's", z3.BoolVal(set(MOD.NORMALIZATION_PRESETS) == set(PRESET_SPEC)))]
    if s.kind == "config":
        return out + [("config-object-returned-as-is", z3.BoolVal(r is s.norm))]
    exp = cfg_expected(s)
    if not (isinstance(r, Obj) and r.cls is K("NormalizationConfig")) and not isinstance(r, K("NormalizationConfig")):
        return out + [("returns-a-NormalizationConfig", F_)]
    out.append(("returns-a-NormalizationConfig", T))
    for k, v in exp.items():
        out.append((f"field:{k}", veq_field(fld(r, k), v)))
    if s.kind == "preset":
        out.append(("preset-resolves-to-a-covered-configuration", config_is_covered(lambda k: fld(r, k))))
    return out


C_RESOLVE = Contract(
    f"{CN}:_resolve_normalization", setup=rn_setup, ensures=rn_ensures,
    raises={ValueError: lambda s: z3.BoolVal(rn_kind(s) == "unknown-preset"), TypeError: lambda s: z3.BoolVal(rn_kind(s) == "bad-type")},
    result=lambda ctx, s: rn_result(ctx, s),
)

# ------------------------------------------------------------------------------------------------
# call sites: the display entry point builds ONE normaliser from the user's arguments and applies it to the user's array
# (visualization.py:_show_2d_array).  Callees are used through their contracts: _resolve_normalization, CustomNormalization.__init__
# (-> _set_limits -> get_limits) and CustomNormalization.__call__; the matplotlib side is outside the property (stub figure / axes
# objects passed as `figax`, array_to_rgba specification-only).
# ------------------------------------------------------------------------------------------------

VIZ = "quantem.core.visualization.visualization"
VIZU = "quantem.core.visualization.visualization_utils"
CFG_FIELDS = tuple(CONFIG_DEFAULTS)


def rn_kind_apply(s):
    n = s.norm
    if n is None:
        return "none", ()
    if isinstance(n, dict):
        return "dict", None
    if isinstance(n, str):
        return ("preset", n) if n in PRESET_SPEC else ("unknown-preset", n)
    if (isinstance(n, Obj) and n.cls is K("NormalizationConfig")) or isinstance(n, K("NormalizationConfig")):
        return "config", None
    return "bad-type", None


def rn_kind(s):
    if s.mode == "apply" and "kind" not in s.__dict__:
        s.kind, s.arg = rn_kind_apply(s)
    return s.kind


def rn_result(ctx, s):
    """call site: the configuration the documentation promises for (norm, keywords)"""
    if rn_kind(s) == "config":
        return s.norm
    exp = cfg_expected(s)
    if any(k not in CONFIG_DEFAULTS for k in exp):
        raise RaiseSig(TypeError("NormalizationConfig() got an unexpected keyword argument"))
    return Obj(K("NormalizationConfig"), exp)


def _sanitize(v):
    return v.sanitized() if hasattr(v, "sanitized") else v


def init_modifies(ctx, s):
    """call site: the object state the constructor contract describes (interval / stretch objects as configured, limits frozen
    from the data through _set_limits' own contract)"""
    o, kw, pl = s.self, KW(s), init_plan(s)
    if not isinstance(s.interval_type, str) or not isinstance(s.stretch_type, str) or pl.interval is None:
        raise V.OutOfSubset("CustomNormalization(...) with a symbolic interval / stretch name at a call site")
    if ctx.branch(pl.power_sel):
        st = Obj(K("PowerLawStretch"), dict(power=kw["power"]))
    else:
        name = STYPES[s.stretch_type]
        st = Obj(K(name), {"LinearStretch": dict(slope=1.0, intercept=0.0), "LogarithmicStretch": dict(a=kw["logarithmic_index"]),
                           "InverseHyperbolicSineStretch": dict(a=kw["asinh_linear_range"])}.get(name) or dict(power=kw["power"]))
    o.fields.update(interval=pl.interval, stretch=st, _vmin=_sanitize(kw["vmin"]), _vmax=_sanitize(kw["vmax"]), _clip=False, _scale=None)
    ctx.ghost.setdefault("norm_built", []).append(NS(obj=o, args={k: (s.__dict__[k] if k in ("interval_type", "stretch_type") else kw[k]) for k in CFG_FIELDS},
                                                     data=kw["data"], configured_interval=pl.interval))
    if kw["data"] is not None:
        s.interp.call(s.interp.getattr(o, "_set_limits"), [kw["data"]], {})


def call_result(ctx, s):
    """call site: a masked array of the argument's shape; its entries are described by the postconditions"""
    s._lims = s.interp.call(s.interp.getattr(fld(s.self, "interval"), "get_limits"), [s.value], {})
    els = _fresh_elems(ctx, "normalised", len(s.value.elems))
    res = PMasked(els, [ctx.fresh(f"normalised_mask{j}", "bool").t for j in range(len(els))], PArr(els, "f", None, "normalised"))
    ctx.ghost.setdefault("norm_calls", []).append(NS(self=s.self, value=s.value, result=res))
    return res


class Rgba(Kind):
    """opaque RGBA image; `src` = the scaled-amplitude array it was computed from"""
    _pyvc_value = True

    def __init__(self, src):
        Kind.__init__(self, "rgba-image")
        self.src = src


C_RGBA = Contract(f"{VIZU}:array_to_rgba", setup=lambda ctx: NS(scaled_amplitude=fresh_parr(ctx, "scaled", "f")), ensures=lambda s: [],
                  result=lambda ctx, s: Rgba(s.scaled_amplitude), note="specification only: colour mapping is outside the property")


class StubAxes:
    """a figure's axes as far as _show_2d_array uses them (duck-typed `figax` argument; models in install_stubs)"""

    def imshow(self, image, **kw):
        raise NotImplementedError

    def set(self, **kw):
        raise NotImplementedError

    @property
    def spines(self):
        raise NotImplementedError


def install_stubs(reg):
    def imshow(interp, self, image, **kw):
        self.fields["shown"] = image  # ghost: what is displayed

    reg.models[StubAxes.imshow] = imshow
    reg.models[StubAxes.set] = lambda interp, self, **kw: None
    reg.models[StubAxes.__dict__["spines"].fget] = lambda interp, self: {}


class StubFigure:
    pass


SHOW_CASES = [("none", ()), ("none", ("vmin",)), ("none", ("vmax",)), ("none", ("vmin", "vmax")), ("none", ("lower_quantile", "upper_quantile")),
              ("dict", "manual"), ("config", "manual"), ("preset", "log_minmax"), ("preset", "linear_centered"), ("preset", "power_sqrt")]


def show_setup(ctx):
    kind, arg = choose(ctx, "case", SHOW_CASES)
    s = NS(kind=kind, arg=arg, array=data_arr(ctx, "array", kinds=("f", "i")))
    s.case = f"{kind}:{arg}"
    s.fig, s.ax = Obj(StubFigure, {}), Obj(StubAxes, {})
    extra, norm = {}, None
    if kind == "none":
        for k in arg:
            # a limit keyword of ANY kind and value (exact zeros included); quantiles are reals
            extra[k] = fresh_numval(ctx, "kw_" + k) if k in ("vmin", "vmax") else ctx.fresh("kw_" + k, "real")
    elif kind == "dict":
        norm = dict(interval_type="manual", stretch_type="logarithmic", vmin=fresh_numval(ctx, "d_vmin"), vmax=fresh_numval(ctx, "d_vmax"))
    elif kind == "config":
        norm = Obj(K("NormalizationConfig"), dict(CONFIG_DEFAULTS, interval_type="manual", vmin=lazy_opt(ctx, "c_vmin"), vmax=lazy_opt(ctx, "c_vmax")))
    else:
        norm = arg
    s.norm_arg, s.extra = norm, extra
    s.kwargs = dict(norm=norm, figax=(s.fig, s.ax), **extra)
    # the configuration the documentation of `norm` / the keywords promises
    e = NS(kind=kind, arg=arg, kwargs=extra, norm=norm)
    s.expected = dict(norm.fields) if kind == "config" else cfg_expected(e)
    s.exp_interval = init_plan(NS(interval_type=s.expected["interval_type"], stretch_type=s.expected["stretch_type"], kwargs=dict(s.expected, data=None))).interval
    return s


def show_raise(E):
    # the limits cannot be derived from an array without finite entries / quantiles outside [0, 1] (contracts of get_limits)
    return lambda s: limits_raise(s.exp_interval, s.array)[E]


def show_ensures(s):
    g = s.ctx.ghost
    built, calls = g.get("norm_built", []), g.get("norm_calls", [])
    if len(built) != 1:
        return [("exactly-one-normaliser-is-built", F_)]
    b = built[0]
    out = [("exactly-one-normaliser-is-built", T)]
    for k, v in s.expected.items():
        got = b.args[k]
        same = same_limit(got, v) if k in ("vmin", "vmax", "half_range") else veq_field(got, v)
        out.append((f"normaliser-receives-the-resolved-configuration:{k}", same))
    out += [("normaliser-limits-are-frozen-from-the-caller's-array(data=)", z3.BoolVal(b.data is s.array)),
            ("normaliser-is-applied-exactly-once,to-the-caller's-array", z3.BoolVal(len(calls) == 1 and calls[0].self is b.obj and calls[0].value is s.array))]
    shown = s.ax.fields.get("shown")
    out.append(("the-image-shown-is-computed-from-the-normalised-array", z3.BoolVal(len(calls) == 1 and isinstance(shown, Rgba) and shown.src is calls[0].result)))
    out.append(("returns-the-given-figure-and-axes", z3.BoolVal(isinstance(s.result, tuple) and len(s.result) == 2 and s.result[0] is s.fig and s.result[1] is s.ax)))
    out.append(("caller's-array-not-written", z3.BoolVal(s.array.writes == s.old.writes)))
    # THE PROPERTY'S limit clause at the entry point: limits the user gave are the limits of the normaliser that is applied
    user = {"none": s.extra, "dict": s.norm_arg if s.kind == "dict" else {}, "config": s.norm_arg.fields if s.kind == "config" else {}}.get(s.kind, {})
    iv = fld(b.obj, "interval")
    for k in ("vmin", "vmax"):
        if k in user and isinstance(iv, Obj) and iv.cls is K("ManualInterval"):
            for tag, c in zero_split(user[k]):
                out.append((f"manual-limits-given-by-the-caller-are-the-normaliser's-limits[{k}]{tag}",
                            implies(c, AND(NOT(onone(fld(iv, k))), oval(fld(iv, k)) == oval(user[k])))))
    return out + frame_clauses(s, s.old.frame, {"array": "array(read-only-input)"})


C_SHOW = Contract(f"{VIZ}:_show_2d_array", setup=show_setup, ensures=show_ensures,
                  snapshot=lambda s: NS(frame=frame_snapshot(s, ["array"]), writes=s.array.writes),
                  raises={ValueError: show_raise(ValueError), IndexError: show_raise(IndexError)})


# ---- _show_2d_combined: one normaliser from the same arguments (no data=: each array is normalised with its own limits inside
# list_of_arrays_to_rgba, which receives THE normaliser built here)


def lrgba_result(ctx, s):
    r = Rgba(None)
    r.arrays, r.norm = list(s.list_of_arrays), s.norm
    return r


C_LRGBA = Contract(f"{VIZU}:list_of_arrays_to_rgba", setup=lambda ctx: NS(list_of_arrays=[fresh_parr(ctx, "a0", "f")]), ensures=lambda s: [],
                   result=lrgba_result, note="specification only: applies `norm` to every array and mixes colours (colour mixing is outside the property)")


def comb_setup(ctx):
    s = show_setup(ctx)
    s.arrays = [s.array, data_arr(ctx, "array2", kinds=("f",))]
    s.list_of_arrays = list(s.arrays)
    del s.__dict__["array"]
    return s


def comb_ensures(s):
    built = s.ctx.ghost.get("norm_built", [])
    if len(built) != 1:
        return [("exactly-one-normaliser-is-built", F_)]
    b = built[0]
    out = [("exactly-one-normaliser-is-built", T)]
    for k, v in s.expected.items():
        got = b.args[k]
        out.append((f"normaliser-receives-the-resolved-configuration:{k}", same_limit(got, v) if k in ("vmin", "vmax", "half_range") else veq_field(got, v)))
    shown = s.ax.fields.get("shown")
    ok = isinstance(shown, Rgba) and getattr(shown, "norm", None) is b.obj and len(getattr(shown, "arrays", ())) == len(s.arrays) \
        and all(x is y for x, y in zip(shown.arrays, s.arrays))
    out += [("limits-are-not-frozen-from-one-of-the-arrays(each-array-gets-its-own)", z3.BoolVal(b.data is None)),
            ("the-image-shown-is-the-caller's-arrays-under-THE-normaliser-built-here", z3.BoolVal(ok)),
            ("returns-the-given-figure-and-axes", z3.BoolVal(isinstance(s.result, tuple) and len(s.result) == 2 and s.result[0] is s.fig and s.result[1] is s.ax)),
            ("caller's-arrays-not-written", z3.BoolVal(all(a.writes == 0 for a in s.arrays))),
            ("caller's-list-not-modified", z3.BoolVal(len(s.list_of_arrays) == len(s.arrays) and all(x is y for x, y in zip(s.list_of_arrays, s.arrays))))]
    user = {"none": s.extra, "dict": s.norm_arg if s.kind == "dict" else {}, "config": s.norm_arg.fields if s.kind == "config" else {}}.get(s.kind, {})
    iv = fld(b.obj, "interval")
    for k in ("vmin", "vmax"):
        if k in user and isinstance(iv, Obj) and iv.cls is K("ManualInterval"):
            for tag, c in zero_split(user[k]):
                out.append((f"manual-limits-given-by-the-caller-are-the-normaliser's-limits[{k}]{tag}",
                            implies(c, AND(NOT(onone(fld(iv, k))), oval(fld(iv, k)) == oval(user[k])))))
    return out


C_COMB = Contract(f"{VIZ}:_show_2d_combined", setup=comb_setup, ensures=comb_ensures,
                  raises={})  # without data= nothing is computed from the arrays here: no exception is expected on any path


SPEC_ONLY = [C_ABS_LIMITS, C_RGBA, C_LRGBA]
CONTRACTS = ([C_STRETCH_CALL[n] for n in STRETCH_NAMES] + [C_STRETCH_INV[n] for n in STRETCH_NAMES]
             + [C_LIMITS[n] for n in INTERVALS] + [C_BI_CALL, C_BI_INV, C_CALL, C_CINV, C_SETLIM, C_INIT, C_RESOLVE, C_SHOW, C_COMB])

# ------------------------------------------------------------------------------------------------
# run-time oracles: the same statements evaluated on the REAL classes with concrete inputs (replay + bounded stand-ins)
# ------------------------------------------------------------------------------------------------

_SPECIAL = {"nan": float("nan"), "inf": float("inf"), "-inf": float("-inf")}


def _arr(xs, dtype="float64"):
    v = [_SPECIAL.get(x, x) if isinstance(x, str) else x for x in xs]
    return np.array(v, dtype=np.dtype(dtype))


def _tol(dtype):
    k = np.dtype(dtype)
    return {2: 4e-3, 4: 2e-6}.get(k.itemsize, 1e-9) if k.kind == "f" else 1e-9


def _quiet():
    import warnings

    warnings.simplefilter("ignore")
    return np.errstate(all="ignore")


def _monotone_problem(x, y, tol):
    """first pair violating  x_i <= x_j  =>  y_i <= y_j  among the non-NaN entries."""
    idx = [i for i in range(len(x)) if not np.isnan(x[i])]
    idx.sort(key=lambda i: x[i])
    for a, b in zip(idx, idx[1:]):
        if y[a] > y[b] + tol:
            return f"x={x[a]!r}->{y[a]!r} but x={x[b]!r}->{y[b]!r}"
    return None


def rt_stretch(inp):
    cls = K(inp["cls"])
    params = dict(inp.get("params", {}))
    if any((not np.isfinite(v)) or abs(v) > 1e3 or (0 < abs(v) < 1e-3) for v in params.values()):
        return dict(violated=False, observed="parameters outside the numerically meaningful replay range", expected="-")
    try:
        st = cls(**params)
    except ValueError:
        return dict(violated=False, observed="invalid parameters rejected by __post_init__", expected="-")
    name = inp["cls"]
    linear = name == "LinearStretch"
    ident = (linear and params.get("slope", 1.0) == 1.0 and params.get("intercept", 0.0) == 0.0) or (name == "PowerLawStretch" and params.get("power", 1.0) == 1.0)
    x = _arr(inp.get("xs", [0.0, 0.25, 1.0]))
    x0 = x.copy()
    copy = bool(inp.get("copy", True))
    problems = []
    with _quiet():
        y = st(x, copy=copy)
        if copy and not np.array_equal(x, x0, equal_nan=True):
            problems.append("copy=True but the input array was modified")
        if not copy and y is not x:
            problems.append("copy=False but the result is not the input array (in-place contract)")
        y = np.array(y, dtype=float)
        if (np.isnan(x0) != np.isnan(y)).any():
            problems.append(f"NaN pattern changed: in {x0.tolist()} out {y.tolist()}")
        adm = (not linear) or ident
        for xi, yi in zip(x0, y):
            if np.isnan(xi):
                continue
            if adm and 0 <= xi <= 1 and not (-1e-12 <= yi <= 1 + 1e-12):
                problems.append(f"x={xi} in [0,1] -> {yi} outside [0,1]")
            if adm and xi in (0.0, 1.0) and abs(yi - xi) > 1e-9:
                problems.append(f"{xi} is not a fixed point: -> {yi}")
            if not linear and not ident and not (-1e-12 <= yi <= 1 + 1e-12):
                problems.append(f"x={xi} -> {yi} outside [0,1]")
            if linear and 0 <= xi <= 1 and abs(yi - (params.get("slope", 1.0) * xi + params.get("intercept", 0.0))) > 1e-12:
                problems.append(f"x={xi} -> {yi}, documented y = slope*x + intercept = {params.get('slope', 1.0) * xi + params.get('intercept', 0.0)}")
        if not linear or params.get("slope", 1.0) >= 0:
            m = _monotone_problem(x0, y, 1e-12)
            if m:
                problems.append("not non-decreasing: " + m)
        # declared inverse
        if not (linear and params.get("slope", 1.0) == 0):
            inv = st.inverse
            if linear and (abs(inv.slope * params.get("slope", 1.0) - 1) > 1e-12 or abs(inv.intercept * params.get("slope", 1.0) + params.get("intercept", 0.0)) > 1e-12):
                problems.append(f"inverse of y = s*x + i is not x = y/s - i/s: {inv}")
        # (the round trip of a NON-identity LinearStretch is the recorded finding: not claimed, see ASSUMPTIONS)
        if not (linear and not ident):
            if type(inv).__name__ != STRETCH[name]["inverse"]:
                problems.append(f"inverse is a {type(inv).__name__}")
            yy = _arr(inp.get("ys", [0.0, 0.05, 0.3, 0.5, 0.77, 1.0]))
            yy = yy[(yy >= 0) & (yy <= 1)]
            z = st(inv(yy))
            bad = np.abs(z - yy) > 1e-7
            if bad.any():
                j = int(np.nonzero(bad)[0][0])
                problems.append(f"stretch(inverse(y)) != y: y={yy[j]} -> inverse {inv(yy)[j]} -> {z[j]}")
    return dict(violated=bool(problems), observed="; ".join(problems[:3]) or "ok",
                expected="[0,1] into [0,1], 0->0, 1->1, non-decreasing, NaN<->NaN, copy/in-place semantics, stretch(inverse(y)) = y on [0,1]")


def fam_stretch(tier="quick", seed=0):
    xs = [-2.0, -0.0, 0.0, 1e-9, 0.1, 0.25, 0.5, 0.5, 0.9, 1.0, 1.0000001, 7.0, "nan", "inf", "-inf"]
    grid = [0.01, 0.1, 1.0 / 3.0, 0.5, 1.0, 2.0, 10.0, 1000.0] + ([0.03, 0.7, 3.0, 30.0, 400.0] if tier == "thorough" else [])  # (0.003 would underflow 0.05**333 in float64)
    for copy in (True, False):
        yield dict(cls="LinearStretch", params={}, xs=xs, copy=copy)
        for sl, ic in ((2.0, 0.1), (0.5, 0.0), (1.0, -0.25), (0.0, 0.5)):
            yield dict(cls="LinearStretch", params=dict(slope=sl, intercept=ic), xs=xs, copy=copy)
        for v in grid:
            yield dict(cls="PowerLawStretch", params=dict(power=v), xs=xs, copy=copy)
            for c in ("LogarithmicStretch", "InverseLogarithmicStretch"):
                yield dict(cls=c, params=dict(a=v), xs=xs, copy=copy)
            if v <= 50:
                for c in ("InverseHyperbolicSineStretch", "HyperbolicSineStretch"):
                    if c == "HyperbolicSineStretch" and v < 0.01:
                        continue  # sinh(1/a) overflows float64 below a ~ 1/710
                    yield dict(cls=c, params=dict(a=v), xs=xs, copy=copy)


def conc_stretch(name):
    def conc(ev):
        params = {}
        for p in STRETCH[name]["params"]:
            v = ev(p)
            if v is None:
                return None
            params[p] = float(v)
        xs = []
        for j in range(2):
            v = ev(f"values_x{j}")
            if v is None:
                continue
            if ev(f"values_nan{j}", False):
                xs.append("nan")
            elif (ev(f"values_inf{j}", 0) or 0) != 0:
                xs.append("inf" if ev(f"values_inf{j}") > 0 else "-inf")
            else:
                xs.append(float(v))
        ys = [float(ev("y_x0"))] if ev("y_x0") is not None else None
        d = dict(cls=name, params=params, xs=xs or [0.0, 0.5, 1.0], copy=bool(ev("copy", True)))
        if ys:
            d["ys"] = ys + [0.0, 0.05, 0.3, 0.5, 0.77, 1.0]
        return d
    return conc


def _dec(v):
    """a limit given as {"np": dtype, "v": value} is the NumPy scalar np.<dtype>(value); anything else is itself"""
    if isinstance(v, dict) and "np" in v:
        return np.dtype(v["np"]).type(v["v"])
    return v


def _decd(d):
    return {k: _dec(v) for k, v in d.items()}


def _plain(d):
    """the same configuration with every NumPy-scalar limit replaced by the Python number it denotes"""
    return {k: (v["v"] if isinstance(v, dict) and "np" in v else v) for k, v in d.items()}


def NP(dtype, v):
    return dict(np=dtype, v=v)


def scalar_limits_overflow(kind, fields, sanitised=False):
    """Exact prediction: are the limits NumPy integer scalars of one dtype whose difference / vcenter -+ half_range leaves that
    dtype's range (and are they used as given, i.e. not first turned into Python numbers by matplotlib's vmin/vmax setters)?"""
    def npi(v):
        return isinstance(v, dict) and "np" in v and np.dtype(v["np"]).kind in "iu"
    if kind == "manual":
        a, b = fields.get("vmin"), fields.get("vmax")
        if sanitised or not (npi(a) and npi(b) and a["np"] == b["np"]):
            return False
        info = np.iinfo(np.dtype(a["np"]))
        return not (info.min <= b["v"] - a["v"] <= info.max)
    if kind == "centered":
        c, h = fields.get("vcenter"), fields.get("half_range")
        if not (npi(c) and npi(h) and c["np"] == h["np"]):
            return False
        info = np.iinfo(np.dtype(c["np"]))
        return any(not (info.min <= t <= info.max) for t in (c["v"] - h["v"], c["v"] + h["v"], 2 * h["v"]))
    return False


NP_LIMIT_CONFIGS = [
    ("ManualInterval", dict(vmin=NP("int16", -20000), vmax=NP("int16", 20000)), [-20000.0, -5.0, 0.0, 7.0, 20000.0]),
    ("ManualInterval", dict(vmin=NP("int8", -100), vmax=NP("int8", 100)), [-100.0, -5.0, 0.0, 7.0, 100.0, 120.0]),
    ("ManualInterval", dict(vmin=NP("int16", -100), vmax=NP("int16", 100)), [-100.0, -5.0, 0.0, 7.0, 100.0]),
    ("ManualInterval", dict(vmin=NP("uint8", 10), vmax=NP("uint8", 200)), [5.0, 10.0, 100.0, 200.0, 250.0]),
    ("ManualInterval", dict(vmin=NP("int64", -20000), vmax=NP("int64", 20000)), [-20000.0, -5.0, 0.0, 7.0, 20000.0]),
    ("ManualInterval", dict(vmin=NP("float32", -2.5), vmax=NP("float32", 7.5)), [-3.0, -2.5, 0.0, 7.5, 9.0]),
    ("ManualInterval", dict(vmin=NP("int8", -100), vmax=100.0), [-100.0, 0.0, 100.0]),
    ("CenteredInterval", dict(vcenter=NP("int8", 100), half_range=NP("int8", 100)), [0.0, 50.0, 100.0, 200.0]),
    ("CenteredInterval", dict(vcenter=NP("int16", 0), half_range=NP("int16", 20000)), [-20000.0, -5.0, 0.0, 7.0, 20000.0]),
    ("CenteredInterval", dict(vcenter=NP("int16", 100)), [0.0, 50.0, 100.0, 200.0]),
]


def fam_np_limits_interval(tier="quick", seed=0):
    """user-supplied limits given as NumPy scalars (narrow / wide, signed / unsigned integers, float32), float and integer data"""
    for cls, fields, xs in NP_LIMIT_CONFIGS:
        for dtype in ("float64", "float32", "int32"):
            yield dict(cls=cls, fields=fields, xs=xs, dtype=dtype, dataset="np-scalar-limits")


def fam_np_limits_norm(tier="quick", seed=0):
    for cls, fields, xs in NP_LIMIT_CONFIGS:
        itype = {"ManualInterval": "manual", "CenteredInterval": "centered"}[cls]
        for stretch in (dict(), dict(stretch_type="logarithmic")):
            for given in (True, False):
                for dtype in ("float64", "int32"):
                    yield dict(config=dict(interval_type=itype, **fields, **stretch), xs=xs, dtype=dtype, dataset="np-scalar-limits", data_given=given)


def _mk_interval(inp):
    return K(inp["cls"])(**_decd(inp.get("fields", {})))


def rt_interval(inp):
    """BaseInterval.__call__ / get_limits of a concrete interval on concrete data: the interval part of the property."""
    iv = _mk_interval(inp)
    dtype = inp.get("dtype", "float64")
    x = _arr(inp["xs"], dtype)
    x0 = x.copy()
    problems = []
    with _quiet():
        fin = x[np.isfinite(x)] if x.dtype.kind == "f" else x
        try:
            lo, hi = iv.get_limits(x)
        except (ValueError, IndexError) as e:
            q = [inp.get("fields", {}).get(k) for k in ("lower_quantile", "upper_quantile")] if inp["cls"] == "QuantileInterval" else []
            ok = fin.size == 0 or any(v is not None and not (0 <= v <= 1) for v in q)
            return dict(violated=not ok, observed=f"get_limits raised {type(e).__name__}: {e}", expected="limits (data has finite entries, quantiles in [0,1])")
        lo, hi = float(lo), float(hi)
        pf = _plain(inp.get("fields", {}))
        want = None
        if inp["cls"] == "CenteredInterval" and pf.get("half_range") is not None:
            want = (pf.get("vcenter", 0.0) - pf["half_range"], pf.get("vcenter", 0.0) + pf["half_range"])
        elif inp["cls"] == "ManualInterval" and pf.get("vmin") is not None and pf.get("vmax") is not None:
            want = (pf["vmin"], pf["vmax"])
        if want is not None and (lo, hi) != (float(want[0]), float(want[1])):
            problems.append(f"get_limits returned ({lo}, {hi}), the configured limits are {want}")
        try:
            y = iv(x)
        except Exception as e:
            return dict(violated=True, observed=f"interval(x) raised {type(e).__name__}: {e}", expected="normalised array")
        if not np.array_equal(x, x0, equal_nan=True):
            problems.append("input array modified")
        y = np.asarray(y, dtype=float)
        xf = x0.astype(float)
        tol = _tol(dtype)
        if (np.isnan(xf) != np.isnan(y)).any():
            problems.append(f"NaN pattern changed: {xf.tolist()} -> {y.tolist()}")
        for xi, yi in zip(xf, y):
            if np.isnan(xi):
                continue
            if not (0 <= yi <= 1):
                problems.append(f"x={xi} -> {yi} outside [0,1]")
            if lo <= hi and xi <= lo and yi != 0:
                problems.append(f"x={xi} <= lower limit {lo} -> {yi} (expected 0)")
            if lo < hi and xi >= hi and abs(yi - 1) > tol:
                problems.append(f"x={xi} >= upper limit {hi} -> {yi} (expected 1)")
            if lo < hi and lo <= xi <= hi and np.isfinite(xi) and abs(yi - (xi - lo) / (hi - lo)) > tol:
                problems.append(f"x={xi} -> {yi}, affine map gives {(xi - lo) / (hi - lo)} (limits {lo}, {hi})")
        if lo <= hi:
            m = _monotone_problem(xf, y, 0.0)
            if m:
                problems.append(f"not non-decreasing (limits {lo}, {hi}): " + m)
        data_derived = (inp["cls"] == "ManualInterval" and not inp.get("fields")) or (inp["cls"] == "CenteredInterval" and inp.get("fields", {}).get("half_range") is None)
        if data_derived and fin.size:
            if not (lo <= float(fin.min()) and float(fin.max()) <= hi):
                problems.append(f"data-derived limits ({lo}, {hi}) do not contain the finite data [{fin.min()}, {fin.max()}]")
            if len(set(fin.tolist())) >= 2 and not lo < hi:
                problems.append(f"two distinct finite values but limits ({lo}, {hi})")
    return dict(violated=bool(problems), observed="; ".join(problems[:3]) or "ok",
                expected="into [0,1], non-decreasing, lower limit -> 0, upper limit -> 1, affine in between, NaN<->NaN, input untouched")


DATASETS = {
    "ramp": [0.0, 1.0, 2.0, 3.0, 4.0, 5.0, 6.0, 7.0, 8.0, 9.0],
    "two-values": [3.0, 3.0, 3.0, 5.0],
    "unsorted": [9.0, 2.0, 7.0, 0.0, 5.0, 3.0, 8.0, 1.0, 6.0, 4.0, 12.0, 10.0],
    "negatives": [-7.5, -1.0, 0.0, 0.25, 2.0, 11.0],
    "nan-inf": ["nan", -3.0, "-inf", 0.0, 0.5, "nan", 1.0, "inf", 42.0],
    "mostly-equal": [0.0] * 60 + [1.0],
    "narrow-range-on-pedestal": [5000.0, 5000.004, 5000.01, 5000.0197, 5000.015],
    "tiny-scale": [1e-10, 2.5e-10, 0.0, 2.9e-9, 1.1e-9],
    "huge-scale": [-3e12, 1e11, 2.5e12, 7e12],
    "wide-ints": [-100, -50, 0, 27, 28, 50, 100],
    "full-int8": [-128, -100, -1, 0, 27, 28, 100, 127],
    "small-uints": [5, 10, 100, 200, 250],
}
INTERVAL_CONFIGS = [
    ("ManualInterval", {}), ("ManualInterval", dict(vmin=1.0, vmax=6.5)), ("ManualInterval", dict(vmin=10, vmax=200)), ("ManualInterval", dict(vmin=2.0)),
    ("ManualInterval", dict(vmin=3.0, vmax=3.0)), ("CenteredInterval", {}), ("CenteredInterval", dict(vcenter=2.0)), ("CenteredInterval", dict(vcenter=100)),
    ("CenteredInterval", dict(vcenter=1.0, half_range=4.0)), ("QuantileInterval", {}), ("QuantileInterval", dict(lower_quantile=0.0, upper_quantile=1.0)),
    ("QuantileInterval", dict(lower_quantile=0.25, upper_quantile=0.5)),
]
FLOATS = ("float64", "float32", "float16")
INTS = ("int64", "int32", "int16", "int8", "uint8", "uint16")


def _datasets_for(dtype):
    k = np.dtype(dtype)
    for name, xs in DATASETS.items():
        if k.kind != "f" and name in ("nan-inf", "narrow-range-on-pedestal", "tiny-scale", "huge-scale"):
            continue
        if k.kind == "f":
            # the data set must be representable in the dtype (float16: 1e11 would become inf, 1e-10 would become 0)
            fi = np.finfo(k)
            nums = [abs(v) for v in xs if not isinstance(v, str) and v != 0]
            if nums and (max(nums) > fi.max / 4 or min(nums) < fi.tiny * 1e3 or (name == "narrow-range-on-pedestal" and fi.eps > 1e-7)):
                continue
        if k.kind != "f" and any(isinstance(v, float) and v != int(v) for v in xs):
            xs = [int(v * 4) for v in xs]
        if k.kind in "iu":
            info = np.iinfo(k)
            if any(v < info.min or v > info.max for v in xs):
                continue
        yield name, xs


def fam_interval(tier="quick", seed=0):
    yield from fam_np_limits_interval(tier, seed)
    for dtype in FLOATS + INTS:
        for dname, xs in _datasets_for(dtype):
            for cls, fields in INTERVAL_CONFIGS:
                yield dict(cls=cls, fields=fields, xs=xs, dtype=dtype, dataset=dname)


def conc_interval(name):
    def conc(ev):
        fields = {}
        for f in {"ManualInterval": ("vmin", "vmax"), "CenteredInterval": ("vcenter", "half_range"), "QuantileInterval": ("lower_quantile", "upper_quantile")}[name]:
            if ev(f + "_is_none", False):
                continue
            v = ev(f)
            if v is not None:
                fields[f] = float(v)
        xs = []
        for j in range(2):
            v = ev(f"values_x{j}")
            if v is None:
                continue
            xs.append("nan" if ev(f"values_nan{j}", False) else ("inf" if (ev(f"values_inf{j}", 0) or 0) > 0 else "-inf" if (ev(f"values_inf{j}", 0) or 0) < 0 else float(v)))
        lo, hi = ev("values_min"), ev("values_max")
        xs += [float(v) for v in (lo, hi) if v is not None]
        xs += [k for k, flag in (("inf", "values_has_pinf"), ("-inf", "values_has_ninf"), ("nan", "values_has_nan")) if ev(flag, False)]
        return dict(cls=name, fields=fields, xs=xs or [0.0, 1.0], dtype="float64")
    return conc


def conc_base_interval(ev):
    """BaseInterval.__call__ is verified for an arbitrary get_limits result (vmin, vmax): realised by ManualInterval(vmin, vmax)."""
    lo, hi = ev("vmin"), ev("vmax")
    if lo is None or hi is None:
        return None
    xs = []
    for j in range(2):
        v = ev(f"values_x{j}")
        if v is None:
            continue
        xs.append("nan" if ev(f"values_nan{j}", False) else ("inf" if (ev(f"values_inf{j}", 0) or 0) > 0 else "-inf" if (ev(f"values_inf{j}", 0) or 0) < 0 else float(v)))
    return dict(cls="ManualInterval", fields=dict(vmin=float(lo), vmax=float(hi)), xs=xs + [float(lo), float(hi)], dtype="float64")


def predicts_wraparound(kind, fields, xs, dtype):
    """Exact-integer prediction: does the limit / subtraction arithmetic of this case leave the range of the array's fixed-width
    integer dtype?  (x - vmin with an integer-kind vmin; vmin - vcenter, vcenter -+ half_range with an integer vcenter)"""
    k = np.dtype(dtype)
    if k.kind not in "iu":
        return False
    info = np.iinfo(k)
    xs = [int(v) for v in xs]
    inr = lambda t: info.min <= t <= info.max
    mn, mx = min(xs), max(xs)
    if kind == "manual":
        vmin = fields.get("vmin")
        lo = mn if vmin is None else vmin
        return isinstance(lo, int) and any(not inr(x - lo) for x in xs)
    if kind == "centered":
        c, hr = fields.get("vcenter", 0.0), fields.get("half_range")
        if isinstance(c, int) and hr is None:
            h = max(abs(mn - c), abs(mx - c))
            return any(not inr(t) for t in (mn - c, mx - c, h, c - h, c + h)) or any(not inr(x - (c - h)) for x in xs)
    return False


def _still_fails_in_float64(rt, inp):
    return bool(rt(dict(inp, dtype="float64")).get("violated"))


def _passes_with_python_limits(rt, inp, key):
    return not rt(dict(inp, **{key: _plain(inp.get(key, {}))})).get("violated")


def klass_dtype(inp, res):
    kind = {"ManualInterval": "manual", "CenteredInterval": "centered", "QuantileInterval": "quantile"}[inp["cls"]]
    if scalar_limits_overflow(kind, inp.get("fields", {})) and _passes_with_python_limits(rt_interval, inp, "fields"):
        return "numpy-int-scalar-limits-overflow"
    if predicts_wraparound(kind, inp.get("fields", {}), inp["xs"], inp.get("dtype", "float64")) and not _still_fails_in_float64(rt_interval, inp):
        return "fixed-width-integer-wraparound"
    return "value-level:" + np.dtype(inp.get("dtype", "float64")).kind


def rt_norm(inp):
    """THE PROPERTY on the real CustomNormalization: finite data into [0,1], non-decreasing, limits -> 0/1, NaN masked."""
    cfg = dict(inp.get("config", {}))
    if "preset" in inp:
        c = MOD._resolve_normalization(inp["preset"])
        cfg = {f: getattr(c, f) for f in CONFIG_DEFAULTS}
    dtype = inp.get("dtype", "float64")
    x = _arr(inp["xs"], dtype)
    if inp.get("shape"):
        x = x.reshape(inp["shape"])
    x0 = x.copy()
    problems = []
    with _quiet():
        try:
            n = CNORM(**_decd(cfg), data=x if inp.get("data_given", True) else None)
            lo, hi = n.interval.get_limits(x)
            out = n(x)
        except Exception as e:
            return dict(violated=True, observed=f"raised {type(e).__name__}: {e}", expected="a masked array in [0,1]")
        lo, hi = float(lo), float(hi)
        pc = _plain(cfg)
        if pc.get("interval_type") == "centered" and pc.get("half_range") is not None and (lo, hi) != (float(pc.get("vcenter", 0.0) - pc["half_range"]), float(pc.get("vcenter", 0.0) + pc["half_range"])):
            problems.append(f"limits ({lo}, {hi}) are not vcenter -+ half_range = ({pc.get('vcenter', 0.0) - pc['half_range']}, {pc.get('vcenter', 0.0) + pc['half_range']})")
        if pc.get("interval_type") == "manual":
            for k, got in (("vmin", lo), ("vmax", hi)):
                if pc.get(k) is not None and got != float(pc[k]):
                    problems.append(f"manual limit {k}={pc[k]!r} given by the caller, but the normaliser's {k} is {got}")
        if not np.array_equal(x, x0, equal_nan=True):
            problems.append("input array modified")
        if not isinstance(out, np.ma.MaskedArray):
            problems.append(f"result is {type(out).__name__}, not a masked array")
        mask = np.ma.getmaskarray(out).ravel()
        y = np.ma.getdata(out).astype(float).ravel()
        xf = x0.astype(float).ravel()
        for xi, yi, mi in zip(xf, y, mask):
            if np.isnan(xi):
                if not mi:
                    problems.append(f"NaN entry is not masked (data {yi})")
                continue
            if mi:
                problems.append(f"x={xi} is masked")
            if not (0 <= yi <= 1):
                problems.append(f"x={xi} -> {yi} outside [0,1]")
            if lo <= hi and xi <= lo and yi != 0:
                problems.append(f"x={xi} <= lower limit {lo} -> {yi} (expected 0)")
            if lo < hi and xi >= hi and abs(yi - 1) > 1e-12:
                problems.append(f"x={xi} >= upper limit {hi} -> {yi} (expected 1)")
        if lo <= hi:
            m = _monotone_problem(xf, np.where(mask, np.nan, y), 1e-12)
            if m:
                problems.append(f"not non-decreasing (limits {lo}, {hi}): " + m)
        # composition: the result is the stretch applied to the interval's output
        want = np.asarray(n.stretch(n.interval(x0.copy())), dtype=float).ravel()
        if not np.allclose(np.where(mask, 0.0, y), np.where(mask, 0.0, want), rtol=0, atol=1e-12, equal_nan=True):
            j = int(np.nonzero(~np.isclose(np.where(mask, 0.0, y), np.where(mask, 0.0, want), rtol=0, atol=1e-12))[0][0])
            problems.append(f"result is not stretch(interval(x)): x={xf[j]} -> {y[j]}, stretch(interval(x)) = {want[j]}")
        fin = xf[np.isfinite(xf)]
        if inp.get("data_given", True) and cfg.get("interval_type", "quantile") != "quantile" and cfg.get("vmin") is None and cfg.get("vmax") is None \
                and cfg.get("half_range") is None and len(set(fin.tolist())) >= 2 and not lo < hi:
            problems.append(f"two distinct finite values but limits ({lo}, {hi})")
        if lo < hi and inp.get("data_given", True):
            back = np.asarray(n.inverse(np.array([0.0, 1.0])), dtype=float)
            if not np.allclose(back, [lo, hi], rtol=1e-9, atol=1e-9):
                problems.append(f"inverse([0,1]) = {back.tolist()} != limits ({lo}, {hi})")
    return dict(violated=bool(problems), observed="; ".join(problems[:3]) or "ok",
                expected="finite data into [0,1], non-decreasing, lower/upper limit -> 0/1, NaN masked and only NaN, input untouched")


def fam_norm(tier="quick", seed=0):
    yield from fam_np_limits_norm(tier, seed)
    rng = np.random.default_rng(seed + 20)
    for dtype in FLOATS + INTS + ("bool",):
        if dtype == "bool":
            for preset in PRESET_SPEC:
                yield dict(preset=preset, xs=[True, False, True, True], dtype="bool", dataset="bool")
            continue
        sets = list(_datasets_for(dtype))
        if np.dtype(dtype).kind == "f":
            for j in range(6 if tier == "thorough" else 1):
                r = (rng.normal(size=24) * (10.0 ** rng.integers(-2, 3))).round(4).tolist()
                r[3], r[11] = "nan", "inf"
                sets.append((f"random{j}", r))
        for dname, xs in sets:
            for preset in PRESET_SPEC:
                for given in (True, False):
                    yield dict(preset=preset, xs=xs, dtype=dtype, dataset=dname, data_given=given)
            for cfg in (dict(interval_type="manual", vmin=1.0, vmax=6.5, stretch_type="logarithmic", logarithmic_index=7.0),
                        dict(interval_type="manual", vmin=10, vmax=200), dict(interval_type="manual", vmin=0, vmax=5.0), dict(interval_type="manual", vmin=-2.0, vmax=0.0),
                        dict(interval_type="centered", vcenter=100),
                        dict(interval_type="centered", vcenter=1.0, half_range=3.0, stretch_type="asinh", asinh_linear_range=0.4),
                        dict(interval_type="quantile", lower_quantile=0.1, upper_quantile=0.6, power=0.3)):
                yield dict(config=cfg, xs=xs, dtype=dtype, dataset=dname, data_given=True)
                yield dict(config=cfg, xs=xs, dtype=dtype, dataset=dname, data_given=False)
    yield dict(preset="quantile", xs=DATASETS["ramp"][:9], dtype="float64", shape=[3, 3], dataset="2-d")
    yield dict(preset="log_minmax", xs=DATASETS["nan-inf"][:8], dtype="float32", shape=[2, 2, 2], dataset="3-d")


def klass_norm(inp, res):
    cfg = dict(inp.get("config", {}))
    if "preset" in inp:
        cfg = dict(CONFIG_DEFAULTS, **PRESET_SPEC.get(inp["preset"], {}))
    kind = cfg.get("interval_type", "quantile")
    fields = {k: cfg[k] for k in ("vmin", "vmax", "vcenter", "half_range") if cfg.get(k) is not None}
    # (manual limits + data: CustomNormalization freezes the limits through matplotlib's setters -> Python numbers)
    if scalar_limits_overflow(kind, fields, sanitised=(kind == "manual" and inp.get("data_given", True))) and _passes_with_python_limits(rt_norm, inp, "config"):
        return "numpy-int-scalar-limits-overflow"
    fields = _plain(fields)
    if predicts_wraparound(kind, fields, inp["xs"], inp.get("dtype", "float64")) and not _still_fails_in_float64(rt_norm, inp):
        return "fixed-width-integer-wraparound"
    return "value-level:" + np.dtype(inp.get("dtype", "float64")).kind


def conc_norm(ev):
    xs = []
    for j in range(2):
        v = ev(f"value_x{j}")
        if v is None:
            continue
        xs.append("nan" if ev(f"value_nan{j}", False) else ("inf" if (ev(f"value_inf{j}", 0) or 0) > 0 else "-inf" if (ev(f"value_inf{j}", 0) or 0) < 0 else float(v)))
    lo, hi = ev("value_min"), ev("value_max")
    xs += [float(v) for v in (lo, hi) if v is not None]
    if not xs:
        return None
    return dict(preset="minmax", xs=xs, dtype="float64", data_given=False)


def rt_init(inp):
    """configuration -> interval / stretch objects, as the class docstring describes it (a power != 1 selects the power law)."""
    cfg = _decd(dict(inp["config"]))
    itype, stype, power = cfg.get("interval_type", "quantile"), cfg.get("stretch_type", "linear"), cfg.get("power", 1.0)
    exp_err = itype not in ITYPES or (stype != "power" and power == 1.0 and stype not in STYPES) or power <= 0
    x = _arr(inp["xs"]) if inp.get("xs") else None
    with _quiet():
        try:
            n = CNORM(**cfg, data=x)
        except ValueError as e:
            return dict(violated=not exp_err, observed=f"ValueError: {e}", expected="an object" if not exp_err else "ValueError")
        problems = []
        if exp_err:
            problems.append("invalid configuration accepted")
        want = "PowerLawStretch" if (stype == "power" or power != 1.0) else STYPES.get(stype)
        if type(n.stretch).__name__ != want:
            problems.append(f"stretch is {type(n.stretch).__name__}, configuration (stretch_type={stype!r}, power={power}) selects {want}")
        elif want == "PowerLawStretch" and n.stretch.power != power:
            problems.append(f"power {n.stretch.power} != {power}")
        elif want == "LogarithmicStretch" and n.stretch.a != cfg.get("logarithmic_index", 1000.0):
            problems.append(f"logarithmic index {n.stretch.a}")
        elif want == "InverseHyperbolicSineStretch" and n.stretch.a != cfg.get("asinh_linear_range", 0.1):
            problems.append(f"asinh range {n.stretch.a}")
        ref = K(ITYPES[itype])(**{k: cfg[k] for k in {"quantile": ("lower_quantile", "upper_quantile"), "manual": ("vmin", "vmax"), "centered": ("vcenter", "half_range")}[itype] if k in cfg})
        if x is None:
            if n.interval != ref:
                problems.append(f"interval {n.interval} != configured {ref}")
        else:
            lo, hi = (float(v) for v in ref.get_limits(x))
            if type(n.interval).__name__ != "ManualInterval" or (n.interval.vmin, n.interval.vmax) != (lo, hi) or (n.vmin, n.vmax) != (lo, hi):
                problems.append(f"limits not frozen to those of the configured interval on the data ({lo}, {hi}): {n.interval}, vmin/vmax=({n.vmin}, {n.vmax})")
        if itype == "manual":
            # the caller's manual limits are the interval's limits (a limit that is exactly zero included)
            for k in ("vmin", "vmax"):
                if cfg.get(k) is not None and (getattr(n.interval, k, None) is None or float(getattr(n.interval, k)) != float(cfg[k])):
                    problems.append(f"manual limit {k}={cfg[k]!r} given by the caller, the interval has {k}={getattr(n.interval, k, None)!r}")
    return dict(violated=bool(problems), observed="; ".join(problems[:3]) or "ok", expected="interval and stretch objects as configured; limits frozen from data")


def fam_init(tier="quick", seed=0):
    for itype, extra in (("quantile", {}), ("quantile", dict(lower_quantile=0.1, upper_quantile=0.7)), ("manual", {}), ("manual", dict(vmin=1.0)), ("manual", dict(vmin=-1.0, vmax=2.5)),
                         # manual limits that are exactly zero, in every kind a caller may write them
                         ("manual", dict(vmin=0, vmax=5)), ("manual", dict(vmin=0.0)), ("manual", dict(vmin=-4.0, vmax=0.0)), ("manual", dict(vmin=NP("float32", 0.0), vmax=NP("float32", 2.0))),
                         ("manual", dict(vmin=NP("int16", -3), vmax=NP("int16", 0))),
                         ("centered", {}), ("centered", dict(vcenter=2.0, half_range=3.0)), ("centered", dict(vcenter=0, half_range=0.5)), ("bogus", {})):
        for stype, sx in (("linear", {}), ("power", dict(power=2.0)), ("power", {}), ("logarithmic", dict(logarithmic_index=10.0)), ("logarithmic", dict(power=2.0)),
                          ("asinh", dict(asinh_linear_range=0.3)), ("asinh", dict(power=0.5)), ("linear", dict(power=3.0)), ("bogus", {}), ("bogus", dict(power=2.0)), ("linear", dict(power=-1.0))):
            for xs in (None, DATASETS["negatives"], DATASETS["nan-inf"]):
                yield dict(config=dict(interval_type=itype, stretch_type=stype, **extra, **sx), xs=xs)


def rt_resolve(inp):
    problems = []
    for name, spec in PRESET_SPEC.items():
        try:
            c = MOD._resolve_normalization(name)
        except Exception as e:
            problems.append(f"{name}: raised {type(e).__name__}")
            continue
        exp = dict(CONFIG_DEFAULTS, **spec)
        for k, v in exp.items():
            if getattr(c, k) != v:
                problems.append(f"preset {name}: {k}={getattr(c, k)!r}, the name promises {v!r}")
    if set(MOD.NORMALIZATION_PRESETS) != set(PRESET_SPEC):
        problems.append(f"preset names differ: {sorted(set(MOD.NORMALIZATION_PRESETS) ^ set(PRESET_SPEC))}")
    c = MOD._resolve_normalization(None, vmin=1.0, vmax=2.0)
    if (c.interval_type, c.vmin, c.vmax) != ("manual", 1.0, 2.0):
        problems.append(f"vmin/vmax keywords give {c}")
    c = MOD._resolve_normalization(None, lower_quantile=0.1)
    if (c.interval_type, c.lower_quantile, c.upper_quantile) != ("quantile", 0.1, 0.98):
        problems.append(f"quantile keywords give {c}")
    for bad, E in (("no_such_preset", ValueError), (42, TypeError)):
        try:
            MOD._resolve_normalization(bad)
            problems.append(f"{bad!r} accepted")
        except E:
            pass
    return dict(violated=bool(problems), observed="; ".join(problems[:3]) or "ok", expected="every preset resolves to the configuration its name promises")


def rt_show_wiring(inp):
    """The display entry points must hand the configured limits to CustomNormalization (anchor file visualization.py)."""
    import matplotlib

    matplotlib.use("Agg")
    import matplotlib.pyplot as plt
    from quantem.core.visualization import visualization as viz

    captured = []
    real = viz.CustomNormalization

    class Spy(real):
        def __init__(self, *a, **kw):
            captured.append(dict(kw))
            super().__init__(*a, **kw)

    viz.CustomNormalization = Spy
    problems = []
    try:
        x = np.linspace(0.0, 4.0, 16).reshape(4, 4)
        cfg = dict(interval_type="manual", vmin=inp.get("vmin", 1.0), vmax=inp.get("vmax", 3.0))
        for fn, arg in ((viz._show_2d_array, x), (viz._show_2d_combined, [x, x.T])):
            captured.clear()
            with _quiet():
                fig, ax = fn(arg, norm=dict(cfg))
            plt.close(fig)
            if not captured:
                problems.append(f"{fn.__name__}: no CustomNormalization built")
                continue
            kw = captured[-1]
            if (kw.get("vmin"), kw.get("vmax")) != (cfg["vmin"], cfg["vmax"]):
                problems.append(f"{fn.__name__}: configured limits ({cfg['vmin']}, {cfg['vmax']}) reach CustomNormalization as ({kw.get('vmin')}, {kw.get('vmax')})")
    finally:
        viz.CustomNormalization = real
    return dict(violated=bool(problems), observed="; ".join(problems) or "ok", expected="vmin/vmax of the resolved configuration are passed on unchanged")


def klass_show(inp, res):
    o = str(res.get("observed", ""))
    return "_show_2d_combined-passes-vmin-as-vmax" if o.startswith("_show_2d_combined: configured limits") and "_show_2d_array" not in o else "any"


def fam_show(tier="quick", seed=0):
    yield dict(vmin=1.0, vmax=3.0)
    yield dict(vmin=0.0, vmax=3.0)  # limits that are exactly zero
    yield dict(vmin=-2.5, vmax=0)


def rt_zero_d(inp):
    """`arrays of any shape`: 0-d arrays."""
    with _quiet():
        try:
            n = CNORM(interval_type="manual", vmin=0.0, vmax=2.0)
            out = n(np.array(inp.get("x", 1.0)))
            ok = abs(float(out) - 0.5) < 1e-12
            return dict(violated=not ok, observed=f"{out!r}", expected="0.5")
        except Exception as e:
            return dict(violated=True, observed=f"raised {type(e).__name__}: {e}", expected="0.5 (0-d array normalised like any other shape)")


def _memo(rt):
    """replaying many failing obligations of one contract scans the same family again and again: evaluate each input once"""
    import functools
    import json as _json

    cache = {}

    @functools.wraps(rt)
    def f(inp):
        k = _json.dumps(inp, sort_keys=True, default=str)
        if k not in cache:
            cache[k] = rt(inp)
        return cache[k]

    return f


rt_interval_m, rt_norm_m, rt_stretch_m, rt_init_m = _memo(rt_interval), _memo(rt_norm), _memo(rt_stretch), _memo(rt_init)

for _n in STRETCH_NAMES:
    for _c in (C_STRETCH_CALL[_n], C_STRETCH_INV[_n]):
        _c.rt, _c.rt_family, _c.concretize = rt_stretch_m, (lambda _n=_n: (i for i in fam_stretch() if i["cls"] == _n)), conc_stretch(_n)
for _n in INTERVALS:
    C_LIMITS[_n].rt, C_LIMITS[_n].rt_family, C_LIMITS[_n].concretize = rt_interval_m, (lambda _n=_n: (i for i in _ffam() if i["cls"] == _n)), conc_interval(_n)
_KIND = {"ManualInterval": "manual", "CenteredInterval": "centered", "QuantileInterval": "quantile"}
# replay families hold only inputs that satisfy the statement on the unchanged tree (no integer wrap-around of data or limits)
_ffam = lambda: (i for i in fam_interval() if (np.dtype(i["dtype"]).kind == "f" or i["dtype"] in ("int64", "int32"))
                 and not scalar_limits_overflow(_KIND[i["cls"]], i.get("fields", {})))
C_BI_CALL.rt, C_BI_CALL.rt_family, C_BI_CALL.concretize = rt_interval_m, _ffam, conc_base_interval
C_BI_INV.rt, C_BI_INV.rt_family = rt_interval_m, _ffam
_nfam = lambda: (i for i in fam_norm() if (np.dtype(i["dtype"]).kind == "f" or i["dtype"] in ("int64", "int32", "bool"))
                 and not ("config" in i and scalar_limits_overflow(i["config"].get("interval_type"), i["config"], sanitised=(i["config"].get("interval_type") == "manual" and i.get("data_given", True)))))
for _c in (C_CALL, C_CINV, C_SETLIM):
    _c.rt, _c.rt_family = rt_norm_m, _nfam
C_INIT.rt, C_INIT.rt_family = rt_init_m, fam_init
C_CALL.concretize = conc_norm
C_RESOLVE.rt, C_RESOLVE.rt_family = rt_resolve, (lambda: iter([{}]))


def rt_show(inp):
    """The entry point on real arrays: the one normaliser it builds receives the configuration resolved from (norm, keywords),
    the caller's array as data (single-array form), and limits given by the caller are that normaliser's limits."""
    import matplotlib

    matplotlib.use("Agg")
    import matplotlib.pyplot as plt
    from quantem.core.visualization import visualization as viz

    built = []
    real = viz.CustomNormalization

    class Spy(real):
        def __init__(self, *a, **kw):
            built.append((self, dict(kw)))
            super().__init__(*a, **kw)

    norm = inp.get("norm")
    norm = _decd(norm) if isinstance(norm, dict) else norm
    kw = _decd(inp.get("kw", {}))
    x = _arr(inp.get("xs", DATASETS["negatives"] + [3.0, 4.0])).reshape(2, -1)
    combined = inp.get("fn") == "_show_2d_combined"
    problems = []
    viz.CustomNormalization = Spy
    try:
        with _quiet():
            try:
                fig, ax = (viz._show_2d_combined([x, x.T.copy().reshape(x.shape)], norm=norm, **kw) if combined else viz._show_2d_array(x, norm=norm, **kw))
                plt.close(fig)
            except Exception as e:
                plt.close("all")
                return dict(violated=True, observed=f"raised {type(e).__name__}: {e}", expected="a figure")
        exp = MOD._resolve_normalization(norm, **kw)
        if len(built) != 1:
            problems.append(f"{len(built)} normalisers built")
        else:
            obj, got = built[0]
            for f in CONFIG_DEFAULTS:
                if f in got and got[f] is not getattr(exp, f) and got[f] != getattr(exp, f):
                    problems.append(f"{f}={getattr(exp, f)!r} of the resolved configuration reaches CustomNormalization as {got[f]!r}")
            if not combined and got.get("data") is not x:
                problems.append("the caller's array is not passed as data=")
            user = dict(norm if isinstance(norm, dict) else {}, **{k: v for k, v in kw.items() if k in ("vmin", "vmax")})
            if exp.interval_type == "manual":
                for k in ("vmin", "vmax"):
                    if user.get(k) is not None and (getattr(obj.interval, k) is None or float(getattr(obj.interval, k)) != float(user[k])):
                        problems.append(f"the caller's limit {k}={user[k]!r} is not the normaliser's limit ({getattr(obj.interval, k)!r})")
    finally:
        viz.CustomNormalization = real
    return dict(violated=bool(problems), observed="; ".join(problems[:3]) or "ok", expected="one normaliser, built from the resolved configuration and the caller's array; given limits are its limits")


def fam_show_calls(tier="quick", seed=0):
    for fn in ("_show_2d_array", "_show_2d_combined"):
        for norm, kw in ((None, {}), (None, dict(vmin=0)), (None, dict(vmax=0.0)), (None, dict(vmin=-1.0, vmax=3)), (None, dict(vmin=NP("float32", 0.0), vmax=NP("float32", 2.5))),
                         (None, dict(lower_quantile=0.1, upper_quantile=0.9)), (dict(interval_type="manual", vmin=0, vmax=NP("int16", 7), stretch_type="logarithmic"), {}),
                         (dict(interval_type="centered", vcenter=0, half_range=2.0), {}), ("log_minmax", {}), ("power_sqrt", {}), ("linear_centered", {})):
            yield dict(fn=fn, norm=norm, kw=kw)


C_SHOW.rt = C_COMB.rt = _memo(rt_show)
C_SHOW.rt_family = lambda: (i for i in fam_show_calls() if i["fn"] == "_show_2d_array")
C_COMB.rt_family = lambda: (i for i in fam_show_calls() if i["fn"] == "_show_2d_combined")

# ------------------------------------------------------------------------------------------------
# property-level lemmas (from the contract statements alone)
# ------------------------------------------------------------------------------------------------


def lemma_composition(ctx):
    """interval map (BaseInterval.__call__ contract) followed by an admissible stretch (stretch interface) gives THE PROPERTY
    for one / two generic entries.  (CustomNormalization.__call__ is also verified directly; this is the statement-level
    composition, independent of that body.)"""
    x = fresh_parr(ctx, "x", "f").elems
    u = _fresh_elems(ctx, "u", 2)
    y = _fresh_elems(ctx, "y", 2)
    lo, hi = Rl("vmin"), Rl("vmax")
    hyp = [t for _, t in interval_posts(x, u, lo, hi)] + [t for _, t in stretch_interface_posts(u, y)]
    a1, a2 = x
    return [
        ("numbers-into-[0,1]", hyp, implies(a1.number(), in01(y[0]))),
        ("NaN-stays-NaN-and-nothing-else-becomes-NaN", hyp, y[0].nan == a1.nan),
        ("non-decreasing", hyp + [lo <= hi], implies(AND(a1.number(), a2.number(), ext_le(a1, a2)), y[0].val <= y[1].val)),
        ("lower-limit->0", hyp + [lo <= hi], implies(AND(a1.finite(), a1.val == lo), y[0].val == 0)),
        ("upper-limit->1", hyp + [lo < hi], implies(AND(a1.finite(), a1.val == hi), y[0].val == 1)),
    ]


def lemma_two_distinct(ctx):
    """`at least two distinct finite values` => data-derived min/max and centred limits are distinct, so BOTH limit clauses
    (-> 0 and -> 1) apply; for quantile limits only vmin <= vmax follows (they may coincide: then no map can send the single
    limit to both 0 and 1 - the upper-limit clause is necessarily stated under vmin < vmax)."""
    g = cm.DataGhost(ctx, "d")
    c = Rl("vcenter")
    hyp = g.facts([]) + [g.distinct2]
    h = zmaxr(zabs(g.gmin - c), zabs(g.gmax - c))
    ql, qu = Rl("ql"), Rl("qu")
    qf = [z3.Implies(ql <= qu, g.Q(ql) <= g.Q(qu))]
    return [
        ("min<max", hyp, g.gmin < g.gmax),
        ("centred:vcenter-h<vcenter+h", hyp, c - h < c + h),
        ("centred-covers-data", hyp, AND(c - h <= g.gmin, g.gmax <= c + h)),
        ("quantile:ordered-quantiles=>ordered-limits", hyp + qf + [ql <= qu], g.Q(ql) <= g.Q(qu)),
    ]


def lemma_frozen(ctx):
    """After _set_limits the interval is ManualInterval(vmin, vmax) with both limits explicit: by the ManualInterval.get_limits
    contract the limits no longer depend on the array they are asked about."""
    a, b = Rl("frozen_vmin"), Rl("frozen_vmax")
    iv = Obj(K("ManualInterval"), dict(vmin=Sym(a), vmax=Sym(b)))
    arr1, arr2 = fresh_parr(ctx, "arr1"), fresh_parr(ctx, "arr2")
    l1, l2 = limits_spec(iv, arr1), limits_spec(iv, arr2)
    r1 = limits_raise(iv, arr1)
    return [("same-limits-for-any-array", [], AND(l1[0] == l2[0], l1[1] == l2[1], l1[0] == a, l1[1] == b)),
            ("never-raises", [], AND(NOT(r1[ValueError]), NOT(r1[IndexError])))]


LEMMAS = [Lemma("interval-then-stretch=property", lemma_composition, uses=["BaseInterval.__call__", "stretch interface"]),
          Lemma("two-distinct-finite-values", lemma_two_distinct, uses=["get_limits"]),
          Lemma("limits-frozen-by-_set_limits", lemma_frozen, uses=["ManualInterval.get_limits", "CustomNormalization._set_limits"])]

BOUNDED = [
    Bounded.from_rt("stretch classes: parameter sweep incl. out-of-range / NaN / inf inputs and inverse round trip", rt_stretch, fam_stretch,
                    "6 classes, 8 (13 thorough) parameter values, 15 inputs, copy True/False; float64"),
    Bounded.from_rt("intervals: dtype sweep", rt_interval, fam_interval, "9 dtypes (float16/32/64, int8..64, uint8/16) x 8 data sets x 12 interval configurations", klass=klass_dtype),
    Bounded.from_rt("CustomNormalization: dtype x preset sweep with NaN/inf entries", rt_norm, fam_norm,
                    "10 dtypes x <=9 data sets x (10 presets + 7 explicit configurations incl. exact-zero manual limits) x data given / not given; 1-d, 2-d, 3-d", klass=klass_norm),
    Bounded.from_rt("CustomNormalization.__init__: configuration -> interval / stretch objects", rt_init, fam_init, "14 interval configurations (incl. manual limits that are exactly zero as int / float / NumPy scalars) x 11 stretch configurations x (no data, 2 data sets)"),
    Bounded.from_rt("presets resolve to what their names promise (real objects)", rt_resolve, lambda: iter([{}]), "all presets + keyword forms + 2 rejected inputs"),
    Bounded.from_rt("display entry points pass the configured limits on", rt_show_wiring, fam_show, "_show_2d_array, _show_2d_combined; three manual configurations (two with a limit that is exactly 0); "
                    "real matplotlib figures (figax=None), complementing the contracts of the two functions", klass=klass_show),
    Bounded.from_rt("display entry points: real figures, keyword / dict / preset forms", rt_show, fam_show_calls, "2 entry points x 11 (norm, keyword) forms incl. exact-zero and NumPy-scalar limits; figax=None"),
    Bounded.from_rt("0-d array", rt_zero_d, lambda: iter([dict(x=1.0)]), "one 0-d input",
                    klass=lambda inp, res: "0-d-input-raises-TypeError" if "TypeError: return arrays must be of ArrayType" in str(res.get("observed")) else "any"),
]

TRUSTED = [
    "pyvc engine (AST interpreter, path exploration), z3, cvc5",
    "pointwise abstraction (pyvc/lib/c20_models.py): the code under contract touches array entries only through elementwise ufuncs with scalar operands and "
    "through min/max/quantile of a[np.isfinite(a)]; two generic entries + a ghost summary (min, max, quantile function, has-finite, two-distinct) stand for any array of any shape",
    "numpy: NaN propagation through add/subtract/multiply/true_divide/clip/log/exp/power/sinh/arcsinh; clip(+-inf) = bound; in-place float ufunc into int/bool array raises; "
    "np.array(a, copy=False) is a / copy=True is fresh; asarray/ravel do not copy; a[np.isfinite(a)] selects the finite entries; min/max of an empty selection raise ValueError; "
    "np.quantile: ValueError for q outside [0,1], IndexError on empty input, monotone in q, between min and max, Q(0)=min, Q(1)=max; np.ma.masked_invalid masks exactly NaN/inf",
    "A4 real-analysis schemas (pyvc/reals.py): exp/log inverse pair, strictly increasing, exp 0 = 1; sinh/arcsinh inverse pair, strictly increasing, ODD (added for C20); "
    "rpow on [0,1]: range, monotone, fixes 0/1, (x^p)^(1/p) = x",
    "matplotlib.colors.Normalize: __init__/vmin/vmax store the given limits as plain Python numbers (_sanitize_extrema: .item() / float(); numeric value preserved); callbacks ignored",
    "value KIND of user-supplied limits (pyvc/lib/c20_models.py NumVal): Python int / float or NumPy fixed-width integer scalar of an arbitrary (symbolic) dtype; "
    "+, -, abs of NumPy integer scalars (also with a Python int, NEP 50) are computed in that dtype: the result lies in the dtype's range and is exact when no overflow occurs "
    "(what happens on overflow is left open); with a float operand the result is an exact float64; float()/.item() are exact; np.min/np.max of an integer array return a scalar of the array's dtype",
    "np.quantile(..., overwrite_input=True) permutes its argument in place, and a ravel() view writes through to the caller's array (frame clauses)",
    "@dataclass constructors bind fields positionally / by keyword / default and call __post_init__ (generated __init__ has no source)",
    "np.maximum / np.minimum propagate NaN, np.fmax / np.fmin ignore it (NaN entry -> the other operand); np.nan_to_num replaces NaN / +-inf by numbers; np.percentile(a, p) = "
    "np.quantile(a, p/100); np.nanquantile / np.nanpercentile skip NaN but not +-inf; np.iscomplexobj of a real-valued array is False; bool(x) of a number is x != 0 (exact zeros of every "
    "kind are falsy), float(None) raises TypeError",
    "display entry points (_show_2d_array, _show_2d_combined): the matplotlib side is outside the property - figure / axes are duck-typed stub objects passed as `figax` (imshow records "
    "what is shown), array_to_rgba / list_of_arrays_to_rgba are specification-only (an opaque image that remembers the array / (arrays, normaliser) it was computed from), "
    "_resolve_scalebar and config.get run as they are; the figax=None branch (plt.subplots), colour bars and scale bars are not covered",
    "dynamic dispatch by behavioural subtyping (meta-level): BaseInterval.__call__/inverse verified against the abstract get_limits specification, every override verified against "
    "its own stronger contract; CustomNormalization.__call__/inverse verified against the stretch interface (AnyStretch), every stretch class verified to implement it",
]
ASSUMPTIONS = [
    "A1 floats are reals (rounding/overflow ignored; float16/32 covered only by the bounded dtype sweep)",
    "A2 fixed-width integers are mathematical in the proof; integer wrap-around is covered ONLY by the bounded dtype sweep (where it produces genuine findings)",
    "A4 transcendentals uninterpreted with ground lemma instances",
    "A6 numpy / matplotlib contracts as listed in trusted_base",
    "limits form an interval: monotonicity and `lower limit -> 0` are stated under vmin <= vmax (user-supplied ManualInterval limits with vmin > vmax give a DEcreasing map - not an interval, outside the claim)",
    "`upper limit -> 1` is stated under vmin < vmax: with coinciding limits no map can send the one limit to both 0 and 1 (the code then skips the division). "
    "`two distinct finite values` implies vmin < vmax for data min/max and centred limits (lemma), NOT for every quantile pair (e.g. 60 zeros and a single 1 with the default 2%/98% quantiles)",
    "configuration strings are enumerated as {each literal the code compares against, one other string}; integer data in __init__ is covered by the float case (see comment in init_setup)",
    "CustomNormalization.inverse is specified for explicit (frozen) limits only: BaseInterval.inverse asks get_limits about the NORMALISED values",
    "LinearStretch.__call__ / inverse are under contract for EVERY slope / intercept (NaN stays NaN, y = slope*x + intercept on [0,1], monotone for slope >= 0, copy / in-place "
    "semantics, inverse = (1/slope, -intercept/slope) for slope != 0); the stretch INTERFACE ([0,1] into [0,1], fixes 0 and 1) is claimed for the identity LinearStretch() only - the one "
    "configuration CustomNormalization builds (slope/intercept are not among the property's stretch parameters). RECORDED FINDING (not claimed, matched by exactly one clause on exactly "
    "the non-identity paths): `stretch(inverse(y)) = y on [0,1]` fails for a non-identity LinearStretch because __call__ clips its argument to [0,1] before the affine "
    "map, e.g. LinearStretch(2, 0.1): inverse(0) = -0.05 -> clipped to 0 -> stretch gives 0.1 != 0; LinearStretch(0.5, 0): inverse(1) = 2 -> clipped to 1 -> 0.5 != 1",
    "limits given as NumPy scalars: integer scalars of ONE dtype per expression are modelled with machine arithmetic (clauses tagged [numpy-int-scalar-limits]); mixed integer dtypes "
    "(NumPy promotion) and the overflow of narrow FLOAT scalars (np.float16(-60000)..np.float16(60000): vmax - vmin = inf) are not modelled (A1); float32 limits are in the bounded sweep",
    "while the [numpy-int-scalar-limits] clauses of BaseInterval.__call__ are open findings, _set_limits / __init__ additionally promise that the frozen limits are plain Python numbers "
    "(that is what makes CustomNormalization(data=...) correct for NumPy-scalar limits today); the clause is dropped automatically once the baseline records those clauses as proved (NPI_OPEN)",
    "0-d inputs, python lists/scalars as `value`, np.bool_ limits: not modelled deductively (0-d is in the bounded checks)",
    "manual limits: the value domain of the constructor / entry-point contracts is ANY real number of any kind (Python int / float incl. NumPy floats, NumPy fixed-width integer scalar), "
    "exact zeros included (clauses tagged [limit-is-exactly-0(...)]); a BOOLEAN image is the documented exception (its limits are always 0, 1)",
    "entry points are under contract for: real-valued float / integer arrays, norm in {None + limit / quantile keywords, dict, NormalizationConfig, preset name}, figax given; "
    "complex and boolean images, show_2d's grid / argument broadcasting (_normalize_show_args_to_grid) are not covered deductively",
]
EXPLANATION = ("VCs generated from the real source of all functions of custom_normalizations.py (6 stretch classes' __call__ and inverse, 3 get_limits, BaseInterval.__call__/inverse, "
               "CustomNormalization.__init__/_set_limits/__call__/inverse, _resolve_normalization incl. the preset lambdas) and of the display entry points _show_2d_array / "
               "_show_2d_combined of visualization.py (callees used through their contracts: the normaliser they build receives the resolved configuration and the caller's array, "
               "and limits given by the caller are its limits) on a pointwise array abstraction with explicit NaN / +-inf flags; "
               "round trips stretch(inverse(y)) = y proved by symbolic execution of the three real functions involved; discharged by z3 / cvc5")
REPLAY = {}
