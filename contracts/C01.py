"""C01 - serializer round trip: load(save(x)) is structurally equal to x (AutoSerialize / zarr).

The real functions of quantem/core/io/serialize.py are executed symbolically (their `ast`, read at check time) over an
abstract zarr group (pyvc/lib/c01_models.py) with kind-abstract values, symbolic payloads and symbolic names.
No encoder specification is written: every decoder is verified on the group that the REAL encoder produced
(the contract's `setup` runs the real writer), and the postcondition is the property's equivalence.
Recursive calls (nested objects, nested containers) and the array reader/writer pair are used through their contracts
(induction on depth); container width is unrolled (<= 3).
"""
from __future__ import annotations

import functools
import os
import sys

import z3

from pyvc import values as V
from pyvc.values import Sym, Obj, Kind, S, lift, OutOfSubset
from pyvc.interp import NS, Interp, RaiseSig, PathEnd
from pyvc.registry import Contract, resolve
from pyvc.runner import Lemma, Bounded
from pyvc.lib import c01_models as cm
from pyvc.lib.c01_models import StrSym, SMap, AGroup, AArray, ABytes, SymSet, ATypes, DType, keq, sterm, is_name, is_strsym, show
from .common import registry

from quantem.core.io.serialize import AutoSerialize

LEVEL = "other"
SER = "quantem.core.io.serialize"
AS = f"{SER}:AutoSerialize"


# ------------------------------------------------------------------------------------------------
# fixture classes (real AutoSerialize subclasses; importable as contracts.C01.<name>)
# ------------------------------------------------------------------------------------------------


class Box(AutoSerialize):
    def __init__(self, **kw):
        self.__dict__.update(kw)


class Inner(AutoSerialize):
    def __init__(self, **kw):
        self.__dict__.update(kw)


class Leaf(AutoSerialize):
    def __init__(self, **kw):
        self.__dict__.update(kw)


import torch as _torch


class NNInner(AutoSerialize, _torch.nn.Module):
    """An AutoSerialize class that is also a torch module (like quantem's ObjectPixelated, ProbePixelated, ...)."""

    def __init__(self, **kw):
        _torch.nn.Module.__init__(self)
        self.__dict__.update(kw)


def _foreign_namespace():
    ns = {k: v for k, v in vars(AutoSerialize).items() if k not in ("__dict__", "__weakref__")}
    # an EQUAL but not IDENTICAL marker object, as a class derived from another load of the serializer module carries it
    ns["__autoserialize_marker__"] = tuple(list(AutoSerialize.__autoserialize_marker__))
    ns["__module__"] = __name__
    ns["__qualname__"] = "ForeignAuto"
    ns["__init__"] = lambda self, **kw: self.__dict__.update(kw)
    ns["__doc__"] = "Behaves like an AutoSerialize class without deriving from THIS AutoSerialize: recognised through its marker only."
    return ns


ForeignAuto = type("ForeignAuto", (), _foreign_namespace())
assert ForeignAuto.__autoserialize_marker__ == AutoSerialize.__autoserialize_marker__ and ForeignAuto.__autoserialize_marker__ is not AutoSerialize.__autoserialize_marker__


def is_auto(v):
    """the property's notion of 'an AutoSerialize object' (docstring of _is_autoserialize_instance): an instance, or a class carrying an equal marker"""
    return isinstance(v, AutoSerialize) or getattr(type(v), "__autoserialize_marker__", None) == AutoSerialize.__autoserialize_marker__


_REG = {}
MODE = {"skip": False}  # C14 re-uses this module with symbolic skip sets


def make_registry(skip_mode=False):
    MODE["skip"] = skip_mode
    reg = registry()
    cm.install(reg)
    for c in CONTRACTS:
        if c not in INLINE_AT_CALL_SITES:
            reg.add_contract(c)
    for q in ("_serialize_value", "_get_group", "_get_array", "_is_autoserialize_instance", "_fix_torch_module_sets",
              "_convert_string_to_path_if_needed", "_is_numeric_scalar", "_restore_numpy_rng"):
        reg.inline.add(f"{AS}.{q}")
    # repository functions are never executed natively (they would touch the REAL file system instead of the ghost one):
    # a callee without contract / inline permission is interpreted in place by the engine
    reg.strict_calls = True
    _REG["reg"] = reg
    return reg


# ------------------------------------------------------------------------------------------------
# symbolic inputs
# ------------------------------------------------------------------------------------------------

RESERVED = ["_autoserialize", "_container_type", "_sequence_encoding", "_torch_iterable_module_type",
            "_autoserialize_skip_names", "_autoserialize_skip_types"]
RESERVED_SUFFIXES = [".is_path", ".torch_save"]
SV = z3.StringVal


def name_facts(t, cls=None):
    """What the property assumes about an attribute name / dict key (plus: not a dunder, not a class-level attribute)."""
    fs = [z3.Length(t) >= 1, z3.Not(z3.Contains(t, SV("/"))), z3.Not(z3.PrefixOf(SV("__"), t))]
    fs += [t != SV(r) for r in RESERVED]
    fs += [z3.Not(z3.SuffixOf(SV(sfx), t)) for sfx in RESERVED_SUFFIXES]
    if cls is not None:
        fs += [t != SV(c) for c in dir(cls) if not c.startswith("__")]
    return fs


def fresh_name(ctx, base, cls=None, distinct_from=()):
    n = StrSym(z3.String(ctx.fresh_name(base)))
    for f in name_facts(n.t, cls):
        ctx.assume(f)
    for d in distinct_from:  # attribute names of one object / keys of one dict are pairwise distinct
        ctx.assume(n.t != sterm(d))
    cm.note_name(ctx, n, lambda c, _cls=cls: name_excluded(c, _cls), RESERVED_SUFFIXES, distinct_from)
    return n


def name_excluded(c, cls=None):
    """python-level mirror of name_facts: the concrete string c violates them (so a fresh name cannot equal c)."""
    return (len(c) == 0 or "/" in c or c.startswith("__") or c in RESERVED or any(c.endswith(x) for x in RESERVED_SUFFIXES)
            or (cls is not None and not c.startswith("__") and c in dir(cls)))


def pick(ctx, name, options):
    """Enumerate `options` (one path each, binary search => O(log n) decisions); the choice is an Int so counter-models name the case."""
    v = ctx.fresh(name, "int")
    lo, hi = 0, len(options)
    ctx.assume(z3.And(v.t >= lo, v.t < hi))
    while hi - lo > 1:
        mid = (lo + hi) // 2
        if ctx.branch(v.t < mid):
            hi = mid
        else:
            lo = mid
    return options[lo]


def sub(cases, part):
    """cases of one part of a contract that is split into several Contract objects (same function, disjoint case sets; they verify in parallel)"""
    i, n = part
    return list(cases)[i::n]


def fresh_dim(ctx, name):
    d = ctx.fresh(name, "int")
    ctx.assume(d.t >= 0)
    return d


SCALAR_CASES = ["none", "bool", "int", "float", "str", "path", "npint", "npfloat", "npbool"]
ARRAY_CASES = ["ndarray0", "ndarray1", "ndarray2", "ndarray3"]
TORCH_CASES = ["tensor", "tensor_grad", "tensor_nonleaf", "parameter", "module"]
EXTRA_CASES = ["optimizer", "scheduler", "other"]  # outside the property's list of kinds: checked at attribute position only
KINDONLY_CASES = ["pylogger", "tlogger", "rng:PCG64", "rng:MT19937", "rng:Philox", "rng:SFC64"]
LEAF_CASES = SCALAR_CASES + ARRAY_CASES + TORCH_CASES + KINDONLY_CASES


def mk_leaf(ctx, case, tag="v"):
    if case == "none":
        return None
    if case == "bool":
        return ctx.fresh(tag + "_b", "bool")
    if case == "int":
        return ctx.fresh(tag + "_i", "int")
    if case == "float":
        return ctx.fresh(tag + "_f", "real")
    if case == "str":
        return StrSym(z3.String(ctx.fresh_name(tag + "_s")))
    if case == "path":
        return cm.mk_kind("path", p=StrSym(z3.String(ctx.fresh_name(tag + "_p"))))
    if case == "npint":
        return cm.mk_kind("npint", v=ctx.fresh(tag + "_ni", "int"))
    if case == "npfloat":
        return cm.mk_kind("npfloat", v=ctx.fresh(tag + "_nf", "real"))
    if case == "npbool":
        return cm.mk_kind("npbool", v=ctx.fresh(tag + "_nb", "bool"))
    if case == "npcomplex":
        return cm.mk_kind("npcomplex", v=None)
    if case.startswith("ndarray"):
        nd = int(case[7:])
        shape = tuple(fresh_dim(ctx, f"{tag}_d{j}") for j in range(nd))
        return cm.mk_ndarray(DType(), shape, cm.fresh_tok("data"))
    if case in ("tensor", "tensor_grad", "tensor_nonleaf"):
        # plain tensor / leaf with requires_grad / NON-LEAF with requires_grad (grad_fn is not None, e.g. w*3+1)
        rg, leaf = case != "tensor", case != "tensor_nonleaf"
        return Kind("tensor", rep=cm.tensor_rep(rg, leaf), tok=cm.fresh_tok(case), rg=rg, leaf=leaf)
    if case == "parameter":
        return cm.mk_kind(case, tok=cm.fresh_tok(case), rg=True, leaf=True)
    if case in ("module", "optimizer", "scheduler", "other"):
        return cm.mk_kind(case, tok=cm.fresh_tok(case))
    if case in KINDONLY_CASES:
        return cm.mk_kind(case)
    raise ValueError(case)


def mk_obj(cls, items):
    o = Obj(cls)
    object.__setattr__(o, "fields", SMap(items))
    return o


def mk_value(ctx, case, tag="v"):
    """Value of the given case; container / nested-object cases have simple fixed children (their own contracts vary them)."""
    if case == "list:int":
        return [ctx.fresh(tag + "_e0", "int"), ctx.fresh(tag + "_e1", "int")]
    if case == "list:str":
        return [StrSym(z3.String(ctx.fresh_name(tag + "_e0"))), ctx.fresh(tag + "_e1", "int")]
    if case == "list:empty":
        return []
    if case == "tuple:int":
        return (ctx.fresh(tag + "_e0", "int"),)
    if case == "tuple:str":
        return (StrSym(z3.String(ctx.fresh_name(tag + "_e0"))),)
    if case == "tuple:empty":
        return ()
    if case == "dict":
        return {"k": ctx.fresh(tag + "_e0", "int")}
    if case == "dict:empty":
        return {}
    if case == "set:int":
        return {ctx.fresh(tag + "_e0", "int")}
    if case == "set:str":
        return {StrSym(z3.String(ctx.fresh_name(tag + "_e0")))}
    if case == "set:empty":
        return set()
    if case == "obj":
        return mk_obj(Inner, [("c", ctx.fresh(tag + "_c", "int"))])
    if case == "obj:empty":
        return mk_obj(Leaf, [])
    if case == "obj:sym":
        # nested object whose two attribute names are arbitrary (symbolic)
        n1 = fresh_name(ctx, tag + "_f1", Inner)
        n2 = fresh_name(ctx, tag + "_f2", Inner, distinct_from=[n1])
        return mk_obj(Inner, [(n1, ctx.fresh(tag + "_c1", "int")), (n2, ctx.fresh(tag + "_c2", "int"))])
    if case == "obj:foreign":
        return mk_obj(ForeignAuto, [("c", ctx.fresh(tag + "_c", "int"))])
    if case == "obj:module":
        o = mk_obj(NNInner, [("c", ctx.fresh(tag + "_c", "int"))])
        return o
    return mk_leaf(ctx, case, tag)


CONTAINER_CASES = ["list:int", "list:str", "list:empty", "tuple:int", "tuple:str", "tuple:empty", "dict", "dict:empty",
                   "set:int", "set:str", "set:empty"]
OBJ_CASES = ["obj", "obj:empty", "obj:module", "obj:foreign"]
ATTR_CASES = LEAF_CASES + EXTRA_CASES + CONTAINER_CASES + OBJ_CASES + ["npcomplex"]


# ------------------------------------------------------------------------------------------------
# running real code inside `setup` (the pre-state of a reader is whatever the REAL writer produced)
# ------------------------------------------------------------------------------------------------


class Token:
    """Opaque value that the code under contract may only pass along (any inspection leaves the subset)."""

    def __init__(self, name):
        self.name = name

    def __repr__(self):
        return f"<{self.name}>"

    def __bool__(self):
        raise OutOfSubset(f"truth value of the opaque token {self.name}")


COMP = Token("compressors")


def run_real(ctx, qual, args, kwargs=None, label="writer", writer_has_own_contract=False):
    """Interpret the REAL function `qual` (source read at check time) inside a contract's setup.

    writer_has_own_contract: an exception of the writer is an obligation of the writer's own contract over the same case set
    (no-raise:...), so the reader's setup just ends the path instead of reporting it a second time."""
    reg = _REG["reg"]
    interp = Interp(ctx, reg)
    real = resolve(qual)
    try:
        return interp.call_closure(interp.closure_of(real), list(args), dict(kwargs or {}))
    except RaiseSig as r:
        if writer_has_own_contract:
            raise PathEnd(f"{label} raised {type(r.exc).__name__} (reported by the writer's contract)")
        ctx.prove(f"{label}:no-raise:{type(r.exc).__name__}", z3.BoolVal(False), kind="safety", assume_after=False,
                  meta={"exc": repr(r.exc), "line": getattr(interp, "cur_line", "?")})
        raise PathEnd(f"{label} raised {type(r.exc).__name__}")


def B(x):
    return x if V.is_z3(x) else z3.BoolVal(bool(x))


# ------------------------------------------------------------------------------------------------
# skip context
# ------------------------------------------------------------------------------------------------


def names_equiv(a, b, ctx):
    """Extensional equality of two name sets (python sets of names / SymSet), as a z3 Bool over a fresh generic name."""
    if a is b:
        return z3.BoolVal(True)
    x = z3.String(ctx.fresh_name("x_any"))
    return cm.set_mem(a, x) == cm.set_mem(b, x)


def types_equiv(a, b):
    if a is b:
        return True
    ea = isinstance(a, tuple) and len(a) == 0 or isinstance(a, ATypes) and a.empty
    eb = isinstance(b, tuple) and len(b) == 0 or isinstance(b, ATypes) and b.empty
    return bool(ea and eb)


def name_skipped(sk, n):
    return cm.set_mem(sk, sterm(n))


def type_skipped(types, v):
    if isinstance(types, ATypes):
        return types.match(v)
    if isinstance(types, tuple) and not types:
        return z3.BoolVal(False)
    raise OutOfSubset("concrete non-empty skip_types in a contract")


# ------------------------------------------------------------------------------------------------
# the property's equivalence  loaded ~ original
# ------------------------------------------------------------------------------------------------


def sym_pytype(x):
    return "bool" if x.is_bool else "int" if x.is_int else "float" if x.is_real else "str" if z3.is_string(x.t) else "?"


def is_loaded(x):
    return isinstance(x, Kind) and x.kind == "loaded"


def equiv(l, o, exp, pre=""):
    """[(label, z3 Bool)]: the loaded value `l` is structurally equal to the original `o` in the property's sense.

    exp: expected skip context of nested AutoSerialize objects (NS(save_names, save_types, load_names, load_types, ctx))."""
    out = []

    def add(lab, t):
        out.append((pre + lab, B(t)))

    if is_loaded(l):
        # result of a recursive decoder used through its contract: it is ~ the value its group encodes
        enc = l.payload["enc"]
        if enc.kind == "obj":
            add("nested-object:save-time-skip-names-are-the-parent's", names_equiv(enc.names, exp.save_names, exp.ctx))
            add("nested-object:save-time-skip-types-are-the-parent's", types_equiv(enc.types, exp.save_types))
            if l.payload.get("in_container"):
                pass  # objects inside containers are outside C14's claim for load-time skipping
            else:
                add("nested-object:load-time-skip-names-are-the-parent's", names_equiv(l.payload["load_names"], exp.load_names, exp.ctx))
                add("nested-object:load-time-skip-types-are-the-parent's", types_equiv(l.payload["load_types"], exp.load_types))
        else:
            add("nested-container:skip-names-are-the-parent's", names_equiv(enc.names, exp.save_names, exp.ctx))
            add("nested-container:skip-types-are-the-parent's", types_equiv(enc.types, exp.save_types))
        if l.payload.get("as_set"):
            add("container-kind", isinstance(o, (set, frozenset)))
            return out + equiv_as_set(enc.value, o, exp, pre)
        if enc.value is o:
            add("decodes-this-value", True)
            return out
        return out + equiv(enc.value, o, exp, pre)
    if l is o:
        add("same", True)
        if isinstance(o, Obj) and MODE["skip"]:
            # the very same object state came back (pickled whole): under C14 none of its attributes may be one that is skipped
            for n, v in o.fields.items():
                add(f"attr[{show(n)}]:not-skipped-inside-an-object-that-came-back-whole",
                    z3.Not(z3.Or(name_skipped(exp.save_names, n), type_skipped(exp.save_types, v), name_skipped(exp.load_names, n))))
        return out
    if o is None:
        add("none", l is None)
        return out
    if isinstance(o, Sym):
        ok = isinstance(l, Sym) and sym_pytype(l) == sym_pytype(o)
        add("python-type", ok)
        if ok:
            add("value", l.t == o.t)
        return out
    if isinstance(o, Kind):
        k = o.kind
        if k in ("npint", "npfloat", "npbool", "npcomplex"):
            # NumPy scalars are compared by numeric value
            if isinstance(l, Kind) and l.kind == "ndarray" and l.payload["shape"] == ():
                # came back as a 0-d array holding the scalar's value
                add("numeric-value", cm.data_norm(l.payload["data"]) == ("np0", id(o)))
                return out
            if isinstance(l, Kind) and l.kind == "pycomplex":
                # came back as the python complex number value.item()
                add("numeric-value", k == "npcomplex" and l.payload.get("tok") == ("item-of", id(o)))
                return out
            ok = (isinstance(l, Sym) and not z3.is_string(l.t) or isinstance(l, Kind) and l.kind == k) and k != "npcomplex"
            add("numeric", ok)
            if ok:
                lv = l if isinstance(l, Sym) else l.payload["v"]
                a, b = V.coerce2(lv, o.payload["v"])
                add("numeric-value", a == b)
            return out
        if k == "path":
            ok = isinstance(l, Kind) and l.kind == "path"
            add("is-a-path", ok)
            if ok:
                add("path-value", sterm(l.payload["p"]) == sterm(o.payload["p"]))
            return out
        if k == "ndarray":
            ok = isinstance(l, Kind) and l.kind == "ndarray"
            add("is-ndarray", ok)
            if ok:
                lp, op = l.payload, o.payload
                add("dtype", cm.dtype_same(lp["dtype"], op["dtype"]))
                same_shape = cm.shape_eq_term(lp["shape"], op["shape"])
                add("shape", same_shape)
                same_data = cm.data_norm(lp["data"]) == cm.data_norm(op["data"])
                add("contents", z3.Or(B(same_data), cm.shape_numel_zero_term(op["shape"])))
            return out
        if k in ("tensor", "parameter", "module", "optimizer", "scheduler", "other"):
            # torch.save/torch.load (dill) give back an object with the same state: dtype, requires_grad, values, class (A6)
            same = isinstance(l, Kind) and l.kind == k and l.payload.get("tok") == o.payload.get("tok")
            add("same-pickled-object", same)
            if same and k in ("tensor", "parameter"):
                # the property: "tensor dtype and requires_grad are preserved" (leaf-ness / grad_fn is not claimed)
                add("requires_grad", l.payload.get("rg") == o.payload.get("rg"))
            return out
        if k in ("pylogger", "tlogger") or k.startswith("rng:"):
            add("same-kind-of-object", same_kind_of_object(l, o))
            return out
        add("unsupported-kind:" + k, False)
        return out
    if isinstance(o, Obj):
        ok = isinstance(l, Obj) and l.cls is o.cls
        add("class", ok)
        if ok:
            out += equiv_fields(l, o, exp, pre)
        return out
    if isinstance(o, (list, tuple)):
        add("container-kind", type(l) is type(o))
        if not isinstance(l, (list, tuple)):
            return out
        add("length", len(l) == len(o))
        if len(l) == len(o):
            if len(o) > 0 and all(cm.is_numeric_value(y) for y in o):
                # the property: all-numeric sequences are compared by NUMERIC VALUE (the python kind of an element may change: 1 -> 1.0)
                for i, (x, y) in enumerate(zip(l, o)):
                    okx = cm.is_numeric_value(x)
                    add(f"[{i}]:numeric", okx)
                    if okx:
                        a, b = V.coerce2(cm.numeric_of(x), cm.numeric_of(y))
                        add(f"[{i}]:numeric-value", a == b)
                return out
            for i, (x, y) in enumerate(zip(l, o)):
                out += equiv(x, y, exp, f"{pre}[{i}]:")
        return out
    if isinstance(o, dict):
        add("container-kind", type(l) is dict)
        if not isinstance(l, dict):
            return out
        lk, ok_ = list(l.keys()), list(o.keys())
        for kk in ok_:
            hit = [j for j in lk if key_same(j, kk)]
            add(f"key[{show(kk)}]-present", bool(hit))
            if hit:
                out += equiv(l[hit[0]], o[kk], exp, f"{pre}[{show(kk)}]:")
        for j in lk:
            add(f"no-extra-key[{show(j)}]", any(key_same(j, kk) for kk in ok_))
        return out
    if isinstance(o, (set, frozenset)):
        add("container-kind", type(l) is type(o))
        if isinstance(l, (set, frozenset, list, tuple)):
            out += equiv_as_set(list(l), o, exp, pre)
        return out
    add("unsupported-original:" + type(o).__name__, False)
    return out


def key_same(a, b):
    if isinstance(a, str) and isinstance(b, str):
        return a == b
    if is_name(a) and is_name(b):
        return sterm(a).eq(sterm(b))
    return False


def equiv_as_set(items, o, exp, pre):
    """`items` (a sequence) has the same elements as the set `o` (element order of a set is unspecified)."""
    out = [(pre + "set:size", B(len(items) == len(o)))]
    rest = list(o)
    for i, x in enumerate(items):
        hit = -1
        for j, y in enumerate(rest):
            es = equiv(x, y, exp)
            if all(z3.is_true(z3.simplify(t)) for _, t in es):
                hit = j
                break
        out.append((f"{pre}set:elem[{i}]-is-an-original-element", B(hit >= 0)))
        if hit >= 0:
            del rest[hit]
    return out


def same_kind_of_object(l, o):
    rep = o.payload["rep"]
    if isinstance(l, Kind):
        if l.kind == o.kind:
            return True
        if o.kind == "pylogger":
            return l.kind == "pylogger"
        return False
    # a real object built natively by the decoder (numpy Generator)
    try:
        if o.kind.startswith("rng:"):
            return type(l) is type(rep) and type(l.bit_generator) is type(rep.bit_generator)
    except Exception:
        return False
    return type(l) is type(rep)


def equiv_fields(l, o, exp, pre=""):
    """Attribute-name set and per-attribute values of a decoded object against the original, under the skip context."""
    out = []
    ctx = exp.ctx
    lkeys = list(l.fields.keys())
    for n, v in o.fields.items():
        skipped = z3.Or(name_skipped(exp.save_names, n), type_skipped(exp.save_types, v), name_skipped(exp.load_names, n))
        hit = [j for j in lkeys if key_same(j, n)]
        tag = f"{pre}attr[{show(n)}]"
        if hit:
            out.append((f"{tag}:present-only-if-not-skipped", z3.Not(skipped)))
            out += equiv(l.fields.entries[l.fields.keys().index(hit[0])][1], v, exp, f"{tag}:")
        else:
            out.append((f"{tag}:absent-only-if-skipped", skipped))
    for j in lkeys:
        if MODE["skip"] and isinstance(j, str) and j in ("_autoserialize_skip_names", "_autoserialize_skip_types"):
            continue  # C14 compares with loading WITHOUT skipping, which has the same two attributes (they are C01's finding)
        out.append((f"{pre}no-extra-attribute[{show(j)}]", B(any(key_same(j, n) for n in o.fields.keys()))))
    return out


def no_skip(ctx):
    return NS(save_names=frozenset(), save_types=(), load_names=frozenset(), load_types=(), ctx=ctx)


# ------------------------------------------------------------------------------------------------
# _write_ndarray / _write_bytes / _array_to_np / _read_array_np   (array pair)
# ------------------------------------------------------------------------------------------------


def wnd_setup(ctx):
    case = pick(ctx, "ndim", ARRAY_CASES)
    arr = mk_leaf(ctx, case, "arr")
    name = fresh_name(ctx, "name")
    G = AGroup()
    return NS(group=G, name=name, array=arr, compressors=COMP, case=case)


def wnd_ensures(s):
    if s.mode != "verify":
        return []
    G, name = s.group, s.name
    out = [(f"[{s.case}]exactly-one-array-created-under-name", B([k for k in G.log] == [("array", name)] or
                                                                 (len(G.log) == 1 and G.log[0][0] == "array" and key_same(G.log[0][1], name)))),
           (f"[{s.case}]no-group-attribute-written", B(len(G.attrs) == 0)),
           (f"[{s.case}]dtype-stored", B(len(G.arrays) == 1 and cm.dtype_same(G.arrays.values()[0].dtype, s.array.payload["dtype"]))),
           (f"[{s.case}]compressors-passed-to-create_array", B(len(G.arrays) == 1 and G.arrays.values()[0].compressors is s.compressors))]
    if len(G.arrays) == 1:
        # the protocol of the reader/writer pair: the shape the reader rebuilds is the entry's own shape, or '_original_shape' when that is present
        st = G.arrays.values()[0]
        want = tuple(s.array.payload["shape"])
        osh = st.attrs.m.get("_original_shape") if "_original_shape" in st.attrs.m.keys() else None
        if osh is not None:
            ok = cm.shape_eq_term(tuple(osh), want) if isinstance(osh, (list, tuple)) else z3.BoolVal(False)
        else:
            ok = cm.shape_eq_term(tuple(st.shape), want)
        out.append((f"[{s.case}]stored-shape(or-_original_shape-when-present)-is-the-array's-shape:ndim-and-every-axis", ok))
        out.append((f"[{s.case}]a-non-empty-array's-contents-are-stored",
                    z3.Or(cm.shape_numel_zero_term(want), B(st.data is not None and cm.data_norm(st.data) == cm.data_norm(s.array.payload["data"])))))
    return out


def wnd_modifies(ctx, s):
    # effect at a call site: the real writer's effect is abstracted to "an array entry holding `array`" (ghost src);
    # what the entry decodes to is the reader's contract (verified on the real writer's output).
    G = s.group
    arr = s.array
    if not (isinstance(arr, Kind) and arr.kind == "ndarray"):
        raise OutOfSubset("_write_ndarray of a non-ndarray through its contract")
    if s.name in G.arrays or s.name in G.groups:
        raise RaiseSig(ValueError("An array exists in store at that path"))
    a = AArray(arr.payload["shape"], arr.payload["dtype"], s.compressors)
    a.src = arr
    G.arrays[s.name] = a
    G.log.append(("array", s.name))


C_WND = Contract(f"{AS}._write_ndarray", setup=wnd_setup, ensures=wnd_ensures, modifies=wnd_modifies,
                 requires=lambda s: [("array-is-ndarray", B(isinstance(s.array, Kind) and s.array.kind == "ndarray"))])


def wb_setup(ctx):
    case = pick(ctx, "bytes", ["nonempty", "any-length"])
    n = ctx.fresh("nbytes", "int")
    ctx.assume(n.t >= (1 if case == "nonempty" else 0))
    data = ABytes(cm.fresh_tok("bytes"), n)
    return NS(group=AGroup(), name=fresh_name(ctx, "name"), data=data, compressors=COMP, case=case)


def wb_ensures(s):
    if s.mode != "verify":
        return []
    G = s.group
    return [(f"[{s.case}]exactly-one-array-created-under-name", B(len(G.log) == 1 and G.log[0][0] == "array" and key_same(G.log[0][1], s.name))),
            (f"[{s.case}]uint8", B(len(G.arrays) == 1 and cm.dtype_same(G.arrays.values()[0].dtype, "uint8")))]


def wb_modifies(ctx, s):
    G = s.group
    if not isinstance(s.data, ABytes):
        raise OutOfSubset("_write_bytes of non-abstract bytes through its contract")
    if s.name in G.arrays or s.name in G.groups:
        raise RaiseSig(ValueError("An array exists in store at that path"))
    a = AArray((s.data.length,), "uint8", s.compressors)
    a.src = s.data
    G.arrays[s.name] = a
    G.log.append(("array", s.name))


C_WBYTES = Contract(f"{AS}._write_bytes", setup=wb_setup, ensures=wb_ensures, modifies=wb_modifies)


def a2np_setup(ctx):
    """Pre-state: the array entry that the REAL `_write_ndarray` / `_write_bytes` creates for an arbitrary array / byte string."""
    what = pick(ctx, "stored", ARRAY_CASES + ["bytes"])
    G = AGroup()
    if what == "bytes":
        n = ctx.fresh("nbytes", "int")
        ctx.assume(n.t >= 0)
        src = ABytes(cm.fresh_tok("bytes"), n)
        run_real(ctx, f"{AS}._write_bytes", [G, "x", src, None], label=f"[{what}]_write_bytes")
        orig = cm.mk_ndarray("uint8", (n,), ("bytes", src.tok))
    else:
        orig = mk_leaf(ctx, what, "arr")
        run_real(ctx, f"{AS}._write_ndarray", [G, "x", orig, None], label=f"[{what}]_write_ndarray")
    if "x" not in G.arrays:
        ctx.prove(f"[{what}]writer-created-the-array", z3.BoolVal(False), assume_after=False)
        raise PathEnd("no array")
    G.arrays["x"].prov = src if what == "bytes" else orig  # ghost provenance: what the real writer was given
    return NS(arr=G.arrays["x"], parent=G, key="x", orig=orig, case=what)


def a2np_ensures(s):
    if s.mode != "verify":
        return []
    return equiv(s.result, s.orig, no_skip(s.ctx), f"[{s.case}]")


def a2np_result(ctx, s):
    return s.arr.src_view()


C_A2NP = Contract(f"{AS}._array_to_np", setup=a2np_setup, ensures=a2np_ensures, result=a2np_result,
                  requires=lambda s: [("array-was-written-by-_write_ndarray/_write_bytes", B(s.mode == "verify" or (isinstance(s.arr, AArray) and (s.arr.src is not None or s.arr.prov is not None))))])


def read_result(ctx, s):
    a = s.parent.arrays.get(s.key)
    if a is None:
        raise RaiseSig(KeyError(show(s.key)))
    return a.src_view()


def read_requires(s):
    if s.mode == "verify":
        return []
    a = s.parent.arrays.get(s.key) if isinstance(s.parent, AGroup) else None
    return [("array-exists-and-was-written-by-_write_ndarray/_write_bytes", B(a is None or a.src is not None or a.prov is not None))]


C_READ = Contract(f"{AS}._read_array_np", setup=a2np_setup, ensures=a2np_ensures, result=read_result, requires=read_requires)


# ------------------------------------------------------------------------------------------------
# _recursive_save / _serialize_container (writers) : class identity, tags, frame, argument propagation
# ------------------------------------------------------------------------------------------------


def skip_ctx(ctx, tag=""):
    """Skip sets handed to the writers: empty for C01, symbolic for C14."""
    if MODE["skip"]:
        return cm.fresh_symset(ctx, "S_save" + tag), ATypes(ctx, "T_save" + tag)
    return frozenset(), ()


def meta_of(cls):
    return {"version": 1, "class_module": cls.__module__, "class_name": cls.__qualname__}


def rsave_setup(ctx, part=(0, 1)):
    case = pick(ctx, "attr_kind", sub([c for c in attr_cases() if not c.startswith("root:")], part))
    a = fresh_name(ctx, "a", Box, distinct_from=["zz_other"])
    v = mk_value(ctx, case)
    w = ctx.fresh("w", "int")
    obj = mk_obj(Box, [(a, v), ("zz_other", w)] if second_attribute(case) else [(a, v)])
    names, types = skip_ctx(ctx)
    return NS(self=obj, obj=obj, group=AGroup(), skip_names=names, skip_types=types, compressors=COMP, case=case, a=a, v=v)


def entry_count(G, n):
    """How many of attrs / arrays / groups hold key n (syntactic match: n is one of the contract's own name terms)."""
    return sum(1 for m in (G.attrs.m, G.arrays, G.groups) if any(key_same(k, n) for k in m.keys()))


def rsave_ensures(s):
    if s.mode != "verify":
        return []
    G, obj = s.group, s.obj
    out = []
    c = f"[{s.case}]"
    if s.mode == "verify":
        out.append((c + "class-identity-and-version-recorded", B(G.attrs.m.get("_autoserialize") == meta_of(obj.cls))))
        for n, v in obj.fields.items():
            skipped = z3.Or(name_skipped(s.skip_names, n), type_skipped(s.skip_types, v))
            cnt = entry_count(G, n)
            out.append((f"{c}attr[{show(n)}]:written-iff-not-skipped", z3.If(skipped, B(cnt == 0), B(cnt == 1))))
        allowed = lambda k: k == "_autoserialize" or any(key_same(k, n) or (is_strsym(k) and sterm(k).eq(z3.Concat(sterm(n), SV(".is_path")))) or
                                                            (isinstance(k, str) and isinstance(n, str) and k == n + ".is_path") for n in obj.fields.keys())
        out.append((c + "frame:only-attribute-keys-written", B(all(allowed(k) for _, k in G.log))))
        for n, v in obj.fields.items():
            sub = next((g for k, g in G.groups.items() if key_same(k, n)), None)
            if sub is not None and sub.enc is not None:
                e = sub.enc
                out.append((f"{c}attr[{show(n)}]:recursive-writer-got-the-value", B(e.value is v or (isinstance(v, (set, frozenset)) and isinstance(e.value, list)))))
                out.append((f"{c}attr[{show(n)}]:recursive-writer-got-skip_names", B(e.names is s.skip_names)))
                out.append((f"{c}attr[{show(n)}]:recursive-writer-got-skip_types", B(e.types is s.skip_types)))
                out.append((f"{c}attr[{show(n)}]:recursive-writer-got-compressors", B(e.compressors is s.compressors)))
        for k, a in G.arrays.items():
            out.append((f"{c}array[{show(k)}]:compressors-reach-create_array", B(a.compressors is s.compressors)))
    return out


def rsave_modifies(ctx, s):
    G = s.group
    if not isinstance(G, AGroup):
        raise OutOfSubset("_recursive_save into a non-abstract group")
    if ctx.ghost.pop("inline_next_recursive_save", False):
        # this one call is executed through its real body (more precise than the contract): used to build root groups
        run_real(ctx, f"{AS}._recursive_save", [s.self, s.obj, G, s.skip_names, s.skip_types, s.compressors], label="root:_recursive_save",
                 writer_has_own_contract=True)
        return
    if "_autoserialize" not in G.attrs:
        G.attrs["_autoserialize"] = meta_of(s.obj.cls if isinstance(s.obj, Obj) else type(s.obj))
    G.enc = NS(kind="obj", value=s.obj, names=s.skip_names, types=s.skip_types, compressors=s.compressors)


def rsave_requires(s):
    if s.mode == "verify" or s.ctx.ghost.get("inline_next_recursive_save"):
        return []
    G = s.group
    return [("target-group-is-fresh", B(isinstance(G, AGroup) and len(G.attrs) == 0 and len(G.arrays) == 0 and len(G.groups) == 0 and G.enc is None)),
            ("obj-is-an-AutoSerialize-object", B(isinstance(s.obj, Obj)))]


N_RSAVE = 2
C_RSAVES = [Contract(f"{AS}._recursive_save", setup=functools.partial(rsave_setup, part=(i, N_RSAVE)), requires=rsave_requires, ensures=rsave_ensures,
                     modifies=rsave_modifies, recursive_by_contract=True) for i in range(N_RSAVE)]
C_RSAVE = C_RSAVES[0]


# (complex numpy scalars and generators with a non-PCG64 bit generator are written by their own branches: also inside containers)
CHILD_CASES_W1 = SCALAR_CASES + ARRAY_CASES + TORCH_CASES + ["pylogger", "tlogger", "rng:PCG64"] + ["list:int", "list:str", "tuple:str", "dict", "set:int", "obj", "npcomplex", "rng:MT19937"]
# storage classes for wider containers: attr scalar / attr str / path flag / array / sub-group (container, object, tensor) / None
CHILD_CLASSES = ["int", "str", "none", "path", "npfloat", "ndarray1", "tensor", "list:str", "obj"]
CHILD_SMALL = ["int", "str", "ndarray1", "list:str"]


def container_cases():
    out = [("list", ()), ("tuple", ()), ("dict", ())]
    for ct in ("list", "tuple", "dict"):
        for k in CHILD_CASES_W1:
            out.append((ct, (k,)))
    for ct in ("list", "tuple", "dict"):
        for k1 in CHILD_CLASSES:
            for k2 in CHILD_CLASSES:
                if ct != "list" and (k1 not in CHILD_SMALL or k2 not in CHILD_SMALL) and k1 != k2:
                    continue
                out.append((ct, (k1, k2)))
    for ct in ("list", "tuple", "dict"):
        for k1 in CHILD_SMALL:
            for k2 in CHILD_SMALL:
                for k3 in CHILD_SMALL:
                    if ct != "list" and not (k1 == k2 or k2 == k3):
                        continue
                    out.append((ct, (k1, k2, k3)))
    # wide sequences: two-digit keys (str(i) for i >= 10), per-item path and ndarray fast path
    out.append(("list", ("str",) * 11))
    out.append(("tuple", ("none", "str", "int", "path") * 3))
    out.append(("list", ("int",) * 11))
    # all-numeric sequences of MIXED numeric kinds (ndarray fast path): every element keeps its numeric value whatever kind comes first
    for ct in ("list", "tuple"):
        for kinds in (("int", "float"), ("float", "int"), ("bool", "int", "int"), ("int", "float", "float"), ("bool", "float"), ("npfloat", "float"),
                      ("npint", "float"), ("npbool", "npint"), ("float", "npfloat", "bool")):
            out.append((ct, kinds))
    for ct in ("list", "tuple", "dict"):
        out.append((ct, ("npcomplex", "str")))
        out.append((ct, ("int", "npcomplex")))
        out.append((ct, ("tensor_nonleaf", "str")))
        out.append((ct, ("int", "tensor_grad", "tensor_nonleaf")))
    return out


SET_CASES = [("set", ()), ("set", ("int",)), ("set", ("str",)), ("set", ("int", "int")), ("set", ("int", "str")), ("set", ("path",)),
             ("set", ("tuple:str",)), ("set", ("npfloat", "none"))]
CONT_CASES = container_cases()
CONT_CASES_SKIP = [("list", ("obj",)), ("tuple", ("obj",)), ("dict", ("obj",)), ("list", ("int", "obj")), ("dict", ("list:str", "obj")),
                   ("list", ("list:str",)), ("dict", ("dict",)), ("tuple", ("ndarray1", "str")), ("list", ("int", "int"))]


def cont_cases(reader=False):
    """containers handed to _serialize_container; the reader is additionally verified on what the real writer makes of a SET
    (`_serialize_value`'s set branch + `_serialize_container` of the element list)"""
    if MODE["skip"]:
        return CONT_CASES_SKIP
    return CONT_CASES + (SET_CASES if reader else [])


def mk_container(ctx, ct, kinds):
    vals = [mk_value(ctx, k, f"c{i}") for i, k in enumerate(kinds)]
    if ct == "list":
        return vals
    if ct == "tuple":
        return tuple(vals)
    if ct == "set":
        return set(vals)
    keys = []
    for i in range(len(vals)):
        k = fresh_name(ctx, f"key{i}", distinct_from=keys)
        keys.append(k)
    return dict(zip(keys, vals))


def case_tag(ct, kinds):
    if len(kinds) > 4:
        return f"{ct}({len(kinds)}x:{','.join(sorted(set(kinds)))})"
    return f"{ct}({','.join(kinds)})"


def scont_setup(ctx, part=(0, 1)):
    ct, kinds = pick(ctx, "container_case", sub(cont_cases(), part))
    c = mk_container(ctx, ct, kinds)
    names, types = skip_ctx(ctx)
    return NS(self=mk_obj(Box, []), value=c, group=AGroup(), skip_names=names, skip_types=types, compressors=COMP, case=case_tag(ct, kinds))


def scont_ensures(s):
    if s.mode != "verify":
        return []
    G, c = s.group, s.value
    t = f"[{s.case}]"
    out = []
    if s.mode == "verify":
        out.append((t + "container-kind-recorded", B(G.attrs.m.get("_container_type") == type(c).__name__)))
        out.append((t + "no-torch-iterable-tag", B("_torch_iterable_module_type" not in G.attrs.m.keys())))
        for k, g in G.groups.items():
            if g.enc is not None:
                e = g.enc
                out.append((f"{t}child[{show(k)}]:recursive-writer-got-skip_names", B(e.names is s.skip_names)))
                out.append((f"{t}child[{show(k)}]:recursive-writer-got-skip_types", B(e.types is s.skip_types)))
                out.append((f"{t}child[{show(k)}]:recursive-writer-got-compressors", B(e.compressors is s.compressors)))
        for k, a in G.arrays.items():
            out.append((f"{t}array[{show(k)}]:compressors-reach-the-array-writer", B(a.compressors is s.compressors)))
    return out


def scont_modifies(ctx, s):
    G = s.group
    if not isinstance(G, AGroup):
        raise OutOfSubset("_serialize_container into a non-abstract group")
    if ctx.ghost.pop("inline_next_serialize_container", False):
        run_real(ctx, f"{AS}._serialize_container", [s.self, s.value, G, s.skip_names, s.skip_types, s.compressors], label="set:_serialize_container")
        return
    if isinstance(s.value, (list, tuple, dict)):
        G.attrs["_container_type"] = type(s.value).__name__
    G.enc = NS(kind="container", value=s.value, names=s.skip_names, types=s.skip_types, compressors=s.compressors)


def scont_requires(s):
    if s.mode == "verify" or s.ctx.ghost.get("inline_next_serialize_container"):
        return []
    G = s.group
    pre_tags = [k for k in G.attrs.m.keys() if k != "_container_type"]
    return [("target-group-holds-nothing-but-a-container-tag", B(isinstance(G, AGroup) and not pre_tags and len(G.arrays) == 0 and len(G.groups) == 0 and G.enc is None)),
            ("value-is-list/tuple/dict", B(isinstance(s.value, (list, tuple, dict))))]


N_CONT = 3
C_SCONTS = [Contract(f"{AS}._serialize_container", setup=functools.partial(scont_setup, part=(i, N_CONT)), requires=scont_requires, ensures=scont_ensures,
                     modifies=scont_modifies, recursive_by_contract=True, max_paths=6000) for i in range(N_CONT)]
C_SCONT = C_SCONTS[0]


# ------------------------------------------------------------------------------------------------
# _deserialize_container : round trip of containers (reader verified on the real writer's output)
# ------------------------------------------------------------------------------------------------


def dcont_setup(ctx, part=(0, 1)):
    ct, kinds = pick(ctx, "container_case", sub(cont_cases(reader=True), part))
    c = mk_container(ctx, ct, kinds)
    names, types = skip_ctx(ctx)
    G = AGroup()
    tag = case_tag(ct, kinds)
    if ct == "set":
        # a set reaches the container writer only through _serialize_value's set branch: run that (real) code
        ctx.ghost["inline_next_serialize_container"] = True
        P = AGroup()
        run_real(ctx, f"{AS}._serialize_value", [mk_obj(Box, []), c, P, "s", names, types, COMP], label=f"[{tag}]_serialize_value")
        G = P.groups.get("s")
        if G is None:
            ctx.prove(f"[{tag}]set-written-into-a-sub-group", z3.BoolVal(False), assume_after=False)
            raise PathEnd("no sub-group")
    else:
        run_real(ctx, f"{AS}._serialize_container", [mk_obj(Box, []), c, G, names, types, COMP], label=f"[{tag}]_serialize_container", writer_has_own_contract=True)
    return NS(cls=Box, group=G, orig=c, case=tag, exp=NS(save_names=names, save_types=types, load_names=frozenset(), load_types=(), ctx=ctx))


def dcont_ensures(s):
    if s.mode != "verify":
        return []
    return equiv(s.result, s.orig, s.exp, f"[{s.case}]")


def dcont_requires(s):
    if s.mode == "verify":
        return []
    G = s.group
    e = G.enc if isinstance(G, AGroup) else None
    ok = e is not None and e.kind == "container"
    tag = G.attrs.m.get("_container_type") if ok else None
    tag_ok = ok and (tag == type(e.value).__name__ or (tag == "set" and isinstance(e.value, list)))
    out = [("group-was-written-by-_serialize_container", B(ok)), ("container-tag-is-the-writer's-(or-'set'-on-the-element-list-of-a-set)", B(tag_ok))]
    sn = getattr(s, "skip_names", None)
    if sn is not None:
        # the reader's postcondition (every key / element comes back) is established for a call WITHOUT skip lists; 'remaining attributes load exactly as
        # without skipping' (C14): a container attribute that is not itself skipped must be decoded independently of the load-time skip names
        ok_names = names_equiv(sn, frozenset(), s.ctx) if isinstance(sn, (SymSet, set, frozenset, list, tuple)) else z3.BoolVal(False)
        out.append(("no-load-time-skip-names-reach-a-container:a-dict/list-attribute-that-is-not-skipped-keeps-all-its-keys/elements", ok_names))
    return out


def dcont_result(ctx, s):
    G = s.group
    as_set = G.attrs.m.get("_container_type") == "set" and isinstance(G.enc.value, list)
    return Kind("loaded", rep=None, enc=G.enc, load_names=frozenset(), load_types=(), in_container=True, as_set=as_set)


C_DCONTS = [Contract(f"{AS}._deserialize_container", setup=functools.partial(dcont_setup, part=(i, N_CONT)), requires=dcont_requires, ensures=dcont_ensures,
                     result=dcont_result, recursive_by_contract=True, max_paths=6000) for i in range(N_CONT)]
C_DCONT = C_DCONTS[0]


# ------------------------------------------------------------------------------------------------
# _recursive_load : round trip at attribute position, attribute-name set, class
# ------------------------------------------------------------------------------------------------


ROOT_CASES = ["root:int", "root:ndarray1", "root:obj"]


def attr_cases():
    if MODE["skip"]:
        return ["int", "obj", "root:int", "root:obj", "str", "path", "ndarray1", "tensor", "module", "list:str", "dict", "pylogger", "rng:PCG64", "obj:module", "obj:foreign"]
    return ATTR_CASES + ROOT_CASES


def second_attribute(case):
    """A second attribute (non-interference); in skip mode only for some cases - every further name multiplies the set-membership forks."""
    return not MODE["skip"] or case in ("int", "obj", "root:int")


def rload_setup(ctx, part=(0, 1)):
    """Pre-state: the group that the REAL writer produced for an arbitrary object -
    `_recursive_save` for a nested group, the whole `save` (directory store) for a root group."""
    case = pick(ctx, "attr_kind", sub(attr_cases(), part))
    root = case.startswith("root:")
    a = fresh_name(ctx, "a", Box, distinct_from=["zz_other"])
    v = mk_value(ctx, case[5:] if root else case)
    w = ctx.fresh("w", "int")
    obj = mk_obj(Box, [(a, v), ("zz_other", w)] if second_attribute(case) else [(a, v)])
    if root:
        # save() normalises `skip` itself; its own contract covers that, here it gets the names as a list
        fs = cm.GhostFS(lazy=False)
        ctx.ghost["fs"] = fs
        if MODE["skip"]:
            n1 = StrSym(z3.String(ctx.fresh_name("save_n1")))
            skip, names, types = [n1], [n1], ()
        else:
            skip, names, types = (), frozenset(), ()
        ctx.ghost["inline_next_recursive_save"] = True  # the root's _recursive_save call runs the real body, not the contract
        run_real(ctx, f"{AS}.save", [obj, "/ghost/target", "w", "dir", skip, None], label=f"[{case}]save", writer_has_own_contract=True)
        n = fs.node("/ghost/target")
        if n is None or not isinstance(n.tree, AGroup):
            ctx.prove(f"[{case}]save-created-the-root-group", z3.BoolVal(False), assume_after=False)
            raise PathEnd("no root group")
        G = n.tree
    else:
        names, types = skip_ctx(ctx)
        G = AGroup()
        run_real(ctx, f"{AS}._recursive_save", [obj, obj, G, names, types, COMP], label=f"[{case}]_recursive_save", writer_has_own_contract=True)
    if MODE["skip"]:
        lnames = cm.fresh_symset(ctx, "S_load", universe=lambda: [a, "zz_other"] if second_attribute(case) else [a])
        if root:
            # load() hands the union of the user's names and the persisted ones to the root call (its own contract)
            lnames = lnames | set(names)
    else:
        lnames = frozenset()
    # call-site clause of the recursion: the callee of THIS call must be handed this call's own load-time skip lists (see rload_requires)
    ctx.ghost["rload_caller"] = NS(names=lnames, types=())
    return NS(cls=Box, group=G, skip_names=lnames, skip_types=(), orig=obj, case=case,
              exp=NS(save_names=names, save_types=types, load_names=lnames, load_types=(), ctx=ctx))


def rload_ensures(s):
    if s.mode != "verify":
        return []
    r = s.result
    c = f"[{s.case}]"
    ok = isinstance(r, Obj) and r.cls is s.orig.cls
    out = [(c + "same-class", B(ok))]
    if ok:
        out += equiv_fields(r, s.orig, s.exp, c)
    return out


def rload_requires(s):
    if s.mode == "verify":
        return []
    G = s.group
    e = G.enc if isinstance(G, AGroup) else None
    ok = e is not None and e.kind == "obj"
    cls_ok = ok and isinstance(e.value, Obj) and e.value.cls is s.cls
    keys = [k for k in G.attrs.m.keys()] if isinstance(G, AGroup) else []
    extra = [k for k in keys if not (isinstance(k, str) and k in ("_autoserialize", "_autoserialize_skip_names", "_autoserialize_skip_types"))]
    out = [("group-was-written-by-_recursive_save", B(ok)), ("class-resolved-from-the-stored-identity-is-the-object's-class", B(cls_ok)),
           ("nothing-else-was-written-into-the-group-(except-save's-skip-lists-in-a-root)", B(not extra and len(G.arrays) == 0 and len(G.groups) == 0))]
    caller = s.ctx.ghost.get("rload_caller")
    if caller is not None:
        # the recursive call inside _recursive_load (attribute-nested object): 'skipped at every level' needs the callee to get the caller's OWN sets
        sn, stp = s.skip_names, s.skip_types
        names_ok = names_equiv(sn, caller.names, s.ctx) if isinstance(sn, (SymSet, set, frozenset, list)) else z3.BoolVal(False)
        out.append(("callee-receives-the-caller's-own-load-time-skip-names(not-a-narrowed/widened-set)", names_ok))
        out.append(("callee-receives-the-caller's-own-load-time-skip-types", B(types_equiv(stp, caller.types))))
    return out


def rload_result(ctx, s):
    return Kind("loaded", rep=None, enc=s.group.enc, load_names=s.skip_names, load_types=s.skip_types)


N_RLOAD = 6
C_RLOADS = [Contract(f"{AS}._recursive_load", setup=functools.partial(rload_setup, part=(i, N_RLOAD)), requires=rload_requires, ensures=rload_ensures,
                     result=rload_result, recursive_by_contract=True) for i in range(N_RLOAD)]
C_RLOAD = C_RLOADS[0]


# ------------------------------------------------------------------------------------------------
# _serialize_value : dispatch of nested AutoSerialize objects (attribute names of the nested object are arbitrary)
# ------------------------------------------------------------------------------------------------


SVAL_CASES = ["obj:sym", "obj", "obj:empty", "obj:module", "obj:foreign"]


def sval_cases():
    # C14 (skip mode): nested objects with concrete attribute names; the arbitrary-name case is C01's (dispatch by duck typing)
    return ["obj:module", "obj", "obj:empty", "obj:foreign"] if MODE["skip"] else SVAL_CASES


def sval_setup(ctx, part=(0, 1)):
    case = pick(ctx, "value_kind", sub(sval_cases(), part))
    v = mk_value(ctx, case)
    names, types = skip_ctx(ctx)
    name = fresh_name(ctx, "name", Box)
    return NS(self=mk_obj(Box, []), value=v, group=AGroup(), name=name, skip_names=names, skip_types=types, compressors=COMP, case=case)


def sval_ensures(s):
    if s.mode != "verify":
        return []
    G = s.group
    c = f"[{s.case}]"
    sub = next((g for k, g in G.groups.items() if key_same(k, s.name)), None)
    out = [(c + "frame:one-sub-group-under-name-and-nothing-else", B(sub is not None and len(G.groups) == 1 and len(G.arrays) == 0 and len(G.attrs) == 0))]
    whole = [arr for tag, arr in (("_torch_whole_module", "module"), ("_torch_scheduler", "scheduler"), ("_torch_optimizer", "optimizer"))
             if sub is not None and sub.attrs.m.get(tag) is True]
    if whole and not MODE["skip"]:
        # C01: an object that the torch branches pickle whole still round-trips (torch.save/torch.load, A6); C14 does not accept this
        # (the skip lists cannot reach into a pickle)
        out.append((c + "object-pickled-whole-under-a-tag-the-loader-unpickles", B(whole[0] in sub.arrays.keys())))
        return out
    e = sub.enc if sub is not None else None
    out.append((c + "nested-AutoSerialize-object-is-written-by-_recursive_save", B(e is not None and e.kind == "obj" and e.value is s.value)))
    if e is not None:
        out.append((c + "recursive-writer-got-skip_names", B(e.names is s.skip_names)))
        out.append((c + "recursive-writer-got-skip_types", B(e.types is s.skip_types)))
        out.append((c + "recursive-writer-got-compressors", B(e.compressors is s.compressors)))
    return out


C_SVALS = [Contract(f"{AS}._serialize_value", setup=functools.partial(sval_setup, part=(i, 2)), ensures=sval_ensures) for i in range(2)]
C_SVAL = C_SVALS[0]

# ------------------------------------------------------------------------------------------------
# _is_autoserialize_instance : recognised iff an instance OR a class with an EQUAL marker (callers interpret the real body)
# ------------------------------------------------------------------------------------------------

ISAUTO_CASES = ["obj", "obj:empty", "obj:module", "obj:foreign", "none", "int", "str", "path", "npfloat", "ndarray1", "tensor", "module", "list:str", "dict", "set:int",
                "pylogger", "rng:PCG64", "other"]


def isauto_setup(ctx):
    case = pick(ctx, "kind", ISAUTO_CASES)
    return NS(value=mk_value(ctx, case), case=case)


C_ISAUTO = Contract(f"{AS}._is_autoserialize_instance", setup=isauto_setup,
                    ensures=lambda s: [] if s.mode != "verify" else
                    [(f"[{s.case}]recognised-iff-AutoSerialize-instance-or-class-with-an-equal-marker", B(bool(s.result) == s.case.startswith("obj")))])


# ------------------------------------------------------------------------------------------------
# _is_numeric_scalar
# ------------------------------------------------------------------------------------------------

NUMERIC_KINDS = {"bool", "int", "float", "npint", "npfloat", "npbool"}


def isnum_setup(ctx):
    case = pick(ctx, "kind", LEAF_CASES + ["list:int", "tuple:int", "dict", "set:int", "npcomplex"])
    return NS(value=mk_value(ctx, case), case=case)


C_ISNUM = Contract(f"{AS}._is_numeric_scalar", setup=isnum_setup,
                   result=lambda ctx, s: cm.is_numeric_value(s.value),
                   ensures=lambda s: [] if s.mode != "verify" else
                   [(f"[{s.case}]numeric-scalar-kinds-are-int/float/bool-and-numpy-integer/floating/bool", B(bool(s.result) == (s.case in NUMERIC_KINDS)))])



# ------------------------------------------------------------------------------------------------
# save / load : store, path type, mode, compression, skip normalisation and persistence (ghost file system)
# ------------------------------------------------------------------------------------------------


def skip_forms():
    """Shapes of the `skip` argument (elements: symbolic names n1, n2 and the concrete type numpy.ndarray)."""
    if MODE["skip"]:
        return ["()", "name", "type", "[n1]", "[n1,T]", "[n1,n2]", "(n1,n1)"]
    return ["()"]


def mk_skip(ctx, form, tag):
    import numpy as np

    n1 = StrSym(z3.String(ctx.fresh_name(tag + "_n1")))
    n2 = StrSym(z3.String(ctx.fresh_name(tag + "_n2")))
    T = np.ndarray
    val = {"()": (), "name": n1, "type": T, "[n1]": [n1], "[n1,T]": [n1, T], "[n1,n2]": [n1, n2], "(n1,n1)": (n1, n1)}[form]
    names = {"()": [], "name": [n1], "type": [], "[n1]": [n1], "[n1,T]": [n1], "[n1,n2]": [n1, n2], "(n1,n1)": [n1]}[form]
    types = (T,) if form in ("type", "[n1,T]") else ()
    return val, names, types


def save_setup(ctx, part=(0, 1)):
    fs = cm.GhostFS(lazy=True)
    ctx.ghost["fs"] = fs
    obj = mk_obj(Box, [("x", ctx.fresh("x", "int"))])
    p = StrSym(z3.String(ctx.fresh_name("path")))
    ctx.assume(z3.Length(p.t) >= 1)
    # C14 varies the skip argument (path type / mode / compression are C01's dimensions and are fixed there to one value)
    pathform = pick(ctx, "pathform", ["str", "Path"] if not MODE["skip"] else ["str"])
    mode = pick(ctx, "mode", ["w", "o"] if not MODE["skip"] else ["w"])
    store = pick(ctx, "store", sub(["auto", "zip", "dir", "bogus"] if not MODE["skip"] else ["zip", "dir"], part))
    form = pick(ctx, "skipform", skip_forms())
    skip, names, types = mk_skip(ctx, form, "save")
    cform = pick(ctx, "compression", ["none", "int"] if not MODE["skip"] else ["none"])
    c = None if cform == "none" else ctx.fresh("compression_level", "int")
    path = p if pathform == "str" else cm.mk_kind("path", p=p)
    return NS(self=obj, path=path, param_values={"mode": mode}, store=store, skip=skip, compression_level=c, p=p, names=names, types=types,
              case=f"{pathform},{mode},{store},skip={form},compression={cform}")


def save_terms(s):
    """The property-level description of what save(path, mode, store) must address (from the docstring of save)."""
    p = s.p.t
    zipext = z3.SuffixOf(SV(".zip"), p)
    is_zip = z3.BoolVal(True) if s.store == "zip" else zipext if s.store == "auto" else z3.BoolVal(False)
    is_dir = z3.BoolVal(True) if s.store == "dir" else z3.Not(zipext) if s.store == "auto" else z3.BoolVal(False)
    bogus = s.store not in ("auto", "zip", "dir")
    c = s.compression_level
    bad_c = z3.BoolVal(False) if c is None else z3.Or(c.t < 0, c.t > 9)
    fs = s.ctx.ghost["fs"]
    exists = fs.decisions[0][1] if fs.decisions else z3.BoolVal(False)
    blocked = z3.And(exists, z3.BoolVal(s.param_values["mode"] != "o"))
    sp = s.ctx.ghost.get("splitext") or []
    ext_nonempty = z3.Length(sp[0][2].t) > 0 if sp else z3.BoolVal(False)
    return NS(zipext=zipext, is_zip=is_zip, is_dir=is_dir, bogus=bogus, bad_c=bad_c, exists=exists, blocked=blocked, ext_nonempty=ext_nonempty)


def save_raises_value(s):
    t = save_terms(s)
    return z3.Or(t.bad_c, z3.And(z3.Not(t.bad_c), z3.Not(t.blocked), z3.Or(z3.BoolVal(t.bogus), z3.And(t.is_dir, t.ext_nonempty))))


def save_raises_exists(s):
    t = save_terms(s)
    return z3.And(z3.Not(t.bad_c), t.blocked)


def save_ensures(s):
    ctx = s.ctx
    fs = ctx.ghost["fs"]
    t = save_terms(s)
    c = f"[{s.case}]"
    out = []
    live = fs.live()
    tmp_left = [k for k, n in live if isinstance(k, str) and k.startswith("/ghost-tmp/")]
    out.append((c + "no-temporary-directory-left", B(not tmp_left)))
    targets = [(k, n) for k, n in live if not (isinstance(k, str) and k.startswith("/ghost-tmp/")) and not n.initial]
    out.append((c + "exactly-one-path-written", B(len(targets) == 1)))
    if len(targets) != 1:
        return out
    k, n = targets[0]
    p = s.p.t
    want_path = z3.If(z3.And(t.is_zip, z3.Not(t.zipext)), z3.Concat(p, SV(".zip")), p)
    out.append((c + "written-path-is-the-target(+.zip-for-the-zip-store)", sterm(k) == want_path))
    out.append((c + "zip-store-writes-a-zip-file,dir-store-a-directory", z3.If(t.is_zip, B(n.kind == "zip"), B(n.kind == "dir"))))
    out.append((c + "zip-entries-archived-relative-to-the-zipped-directory", B(n.ok)))
    R = n.tree
    ok = isinstance(R, AGroup) and R.enc is not None and R.enc.kind == "obj"
    out.append((c + "root-group-written-by-_recursive_save", B(ok)))
    if not ok:
        return out
    e = R.enc
    out.append((c + "object-saved-is-self", B(e.value is s.self)))
    out.append((c + "skip-names-are-the-str-elements-of-skip", names_equiv(e.names, s.names, ctx)))
    out.append((c + "skip-types-are-the-type-elements-of-skip", B(tuple(e.types) == tuple(s.types))))
    lvl = s.compression_level
    if lvl is None:
        out.append((c + "no-compression-when-level-is-None", B(e.compressors is None)))
    else:
        cfg = e.compressors
        shape_ok = isinstance(cfg, list) and len(cfg) == 1 and isinstance(cfg[0], dict) and isinstance(cfg[0].get("configuration"), dict)
        out.append((c + "compressor-config-is-one-blosc-codec", B(shape_ok and cfg[0].get("name") == "blosc")))
        if shape_ok:
            out.append((c + "compression-level-reaches-the-codec", lift(cfg[0]["configuration"].get("clevel")) == lvl.t))
    meta_n = R.attrs.m.get("_autoserialize_skip_names")
    out.append((c + "skip-names-persisted-in-root-attrs", B(isinstance(meta_n, list)) if not isinstance(meta_n, list) else names_equiv(meta_n, s.names, ctx)))
    meta_t = R.attrs.m.get("_autoserialize_skip_types")
    out.append((c + "skip-types-persisted-as-qualified-names", B(meta_t == [f"{x.__module__}.{x.__qualname__}" for x in s.types])))
    out.append((c + "root-attrs-are-the-encoding-plus-the-two-skip-lists",
                B(sorted(k for k in R.attrs.m.keys() if isinstance(k, str)) == ["_autoserialize", "_autoserialize_skip_names", "_autoserialize_skip_types"]
                  and len(R.attrs.m) == 3)))
    return out


C_SAVES = [Contract(f"{AS}.save", setup=functools.partial(save_setup, part=(i, 2)), ensures=save_ensures,
                    raises={ValueError: save_raises_value, FileExistsError: save_raises_exists}, max_paths=6000) for i in range(2)]
C_SAVE = C_SAVES[0]


def load_setup(ctx):
    fs = cm.GhostFS(lazy=False)
    ctx.ghost["fs"] = fs
    obj = mk_obj(Box, [("x", ctx.fresh("x", "int"))])
    store = pick(ctx, "store", ["zip", "dir"])
    pathform = pick(ctx, "pathform", ["str", "Path"] if not MODE["skip"] else ["str"])
    sform = pick(ctx, "save_skipform", skip_forms())
    lform = pick(ctx, "load_skipform", skip_forms())
    sskip, snames, stypes = mk_skip(ctx, sform, "save")
    lskip, lnames, ltypes = mk_skip(ctx, lform, "load")
    p = "/ghost/target.zip" if store == "zip" else "/ghost/target"
    path = p if pathform == "str" else cm.mk_kind("path", p=StrSym(SV(p)))
    # history: the path is either fresh, or it already holds ANOTHER object (other attribute names, other persisted skip names)
    # that was saved and loaded earlier in this process and is now overwritten with mode='o'
    hist = pick(ctx, "history", ["fresh", "overwritten-after-an-earlier-save-and-load"])
    case = f"{store},{pathform},save-skip={sform},load-skip={lform}" + ("" if hist == "fresh" else ",overwrite-history")
    if hist == "fresh":
        run_real(ctx, f"{AS}.save", [obj, path, "w", store, sskip, 4], label=f"[{case}]save")
    else:
        old = mk_obj(Box, [("x", ctx.fresh("x_old", "int")), ("only_in_the_old_file", ctx.fresh("y_old", "int"))])
        old_skip = [StrSym(z3.String(ctx.fresh_name("old_skip_name")))] if MODE["skip"] else ()
        run_real(ctx, f"{AS}.save", [old, path, "w", store, old_skip, None], label=f"[{case}]earlier-save")
        run_real(ctx, f"{SER}:load", [path], label=f"[{case}]earlier-load")
        run_real(ctx, f"{AS}.save", [obj, path, "o", store, sskip, 4], label=f"[{case}]overwriting-save")
    return NS(path=path, skip=lskip, obj=obj, snames=snames, stypes=stypes, lnames=lnames, ltypes=ltypes, case=case)


def load_ensures(s):
    ctx = s.ctx
    r = s.result
    c = f"[{s.case}]"
    ok = is_loaded(r) and r.payload["enc"].kind == "obj"
    out = [(c + "result-is-the-decoding-of-the-root-group", B(ok))]
    if not ok:
        return out
    out.append((c + "decodes-the-saved-object", B(r.payload["enc"].value is s.obj)))
    out.append((c + "load-skip-names=user-names-union-persisted-names", names_equiv(r.payload["load_names"], list(s.lnames) + list(s.snames), ctx)))
    lt = r.payload["load_types"]
    out.append((c + "load-skip-types=user-types-union-persisted-types", B(isinstance(lt, tuple) and set(lt) == set(s.ltypes) | set(s.stypes))))
    live = [k for k, n in ctx.ghost["fs"].live() if not (isinstance(k, str) and k.startswith("/ghost-tmp/"))]
    out.append((c + "frame:only-the-saved-path-exists-besides-temporaries", B(len(live) == 1)))
    return out


C_LOAD = Contract(f"{SER}:load", setup=load_setup, ensures=load_ensures)


# ------------------------------------------------------------------------------------------------
# small helpers of the serializer (quantem code): verified on their own; callers keep interpreting the real bodies
# ------------------------------------------------------------------------------------------------

# ---- _serialize_value at leaf / container kinds: the storage class and tag under which each kind is written (dispatch order)

DISPATCH_CASES = LEAF_CASES + EXTRA_CASES + CONTAINER_CASES + ["npcomplex"]
# kind -> (storage, detail): what the load-side chains recognise for that kind
_TORCH_TAGS = {"tensor": ("_torch_tensor", "tensor"), "tensor_grad": ("_torch_tensor", "tensor"), "tensor_nonleaf": ("_torch_tensor", "tensor"),
               "parameter": ("_torch_tensor", "tensor"), "module": ("_torch_whole_module", "module"), "optimizer": ("_torch_optimizer", "optimizer"),
               "scheduler": ("_torch_scheduler", "scheduler")}
_ALL_TAGS = ["_torch_tensor", "_torch_optimizer", "_torch_scheduler", "_torch_logger", "_python_logger", "_torch_whole_module", "_autoserialize", "_container_type",
             "_numpy_rng", "_torch_rng_skipped"]


def dispatch_setup(ctx, part=(0, 1)):
    case = pick(ctx, "value_kind", sub(DISPATCH_CASES, part))
    v = mk_value(ctx, case)
    names, types = skip_ctx(ctx)
    name = fresh_name(ctx, "name", Box)
    return NS(self=mk_obj(Box, []), value=v, group=AGroup(), name=name, skip_names=names, skip_types=types, compressors=COMP, case=case)


def dispatch_ensures(s):
    if s.mode != "verify":
        return []
    G, name, v, case = s.group, s.name, s.value, s.case
    c = f"[{case}]"
    flag = lambda k: (is_strsym(k) and sterm(k).eq(z3.Concat(sterm(name), SV(".is_path")))) or (isinstance(k, str) and isinstance(name, str) and k == name + ".is_path")
    out = [(c + "exactly-one-entry-under-name(attribute/array/sub-group)", B(entry_count(G, name) == 1)),
           (c + "frame:nothing-written-but-name-and-its-path-flag", B(all(key_same(k, name) or flag(k) for _, k in G.log)))]
    at = next((x for k, x in G.attrs.m.items() if key_same(k, name)), None)
    has_at = any(key_same(k, name) for k in G.attrs.m.keys())
    arr = next((a for k, a in G.arrays.items() if key_same(k, name)), None)
    grp = next((g for k, g in G.groups.items() if key_same(k, name)), None)
    flags = [x for k, x in G.attrs.m.items() if flag(k)]
    tags = [t for t in _ALL_TAGS if grp is not None and t in grp.attrs.m.keys()]
    if case in ("none", "bool", "int", "float", "str", "npint", "npfloat", "npbool"):
        out.append((c + "scalar-stored-as-a-JSON-attribute", B(has_at and arr is None and grp is None and not flags)))
        if has_at:
            if case == "none":
                out.append((c + "attribute-value", B(at is None)))
            else:
                want = v.payload["v"] if isinstance(v, Kind) else v
                ok = isinstance(at, Sym) and sym_pytype(at) == sym_pytype(want)
                out.append((c + "attribute-python-type", B(ok)))
                if ok:
                    out.append((c + "attribute-value", at.t == want.t))
    elif case == "path":
        out.append((c + "path-stored-as-str-attribute-plus-is_path-flag", B(has_at and is_strsym(at) and flags == [True] and arr is None and grp is None)))
        if has_at and is_strsym(at):
            out.append((c + "attribute-value-is-str(path)", sterm(at) == sterm(v.payload["p"])))
    elif case.startswith("ndarray") or case == "npcomplex":
        out.append((c + "stored-as-a-native-array-through-_write_ndarray", B(arr is not None and arr.src is not None and not has_at and grp is None)))
        if arr is not None and arr.src is not None:
            if case == "npcomplex":
                out.append((c + "array-is-the-0-d-array-of-the-scalar", B(arr.src.payload["shape"] == () and cm.data_norm(arr.src.payload["data"]) == ("np0", id(v)))))
            else:
                out.append((c + "array-written-is-the-value", B(arr.src is v)))
            out.append((c + "compressors-reach-the-array-writer", B(arr.compressors is s.compressors)))
    elif case in _TORCH_TAGS:
        tag, key = _TORCH_TAGS[case]
        out.append((c + f"pickled-whole-into-a-sub-group-tagged-{tag}", B(grp is not None and tags == [tag] and grp.attrs.m.get(tag) is True and not has_at and arr is None)))
        if grp is not None:
            a = grp.arrays.get(key)
            out.append((c + f"one-byte-array-named-{key}", B(a is not None and len(grp.arrays) == 1 and len(grp.groups) == 0 and isinstance(a.src, ABytes))))
            if a is not None and isinstance(a.src, ABytes):
                out.append((c + "bytes-are-torch.save-of-the-value", B(isinstance(a.src.tok, tuple) and len(a.src.tok) == 2 and a.src.tok[0] == "torch" and a.src.tok[1] is v)))
                out.append((c + "pickle-bytes-stored-uncompressed", B(a.compressors is None)))
            if tag == "_torch_tensor":
                out.append((c + "requires_grad-recorded", B(grp.attrs.m.get("_tensor_requires_grad") is (case != "tensor"))))
    elif case in ("pylogger", "tlogger"):
        tag = "_python_logger" if case == "pylogger" else "_torch_logger"
        out.append((c + f"metadata-only-sub-group-tagged-{tag}", B(grp is not None and tags == [tag] and len(grp.arrays) == 0 and len(grp.groups) == 0 and not has_at and arr is None)))
        if grp is not None:
            out.append((c + "class_name-recorded", B(grp.attrs.m.get("class_name") == type(v.payload["rep"]).__name__)))
    elif case.startswith("rng:"):
        out.append((c + "sub-group-tagged-_numpy_rng", B(grp is not None and tags == ["_numpy_rng"] and len(grp.arrays) == 0 and not has_at and arr is None)))
        if grp is not None:
            out.append((c + "bit-generator-type-recorded", B(grp.attrs.m.get("_bit_generator_type") == case[4:])))
    elif case in CONTAINER_CASES:
        e = grp.enc if grp is not None else None
        out.append((c + "container-written-by-_serialize_container-into-a-sub-group", B(e is not None and e.kind == "container" and not has_at and arr is None)))
        if e is not None:
            is_set = isinstance(v, (set, frozenset))
            out.append((c + "container-writer-got-the-value(the-element-list-of-a-set)", B(e.value is v if not is_set else (isinstance(e.value, list) and len(e.value) == len(v) and all(any(x is y for y in v) for x in e.value)))))
            out.append((c + "container-tag", B(grp.attrs.m.get("_container_type") == type(v).__name__)))
            out.append((c + "container-writer-got-skip_names", B(e.names is s.skip_names)))
            out.append((c + "container-writer-got-skip_types", B(e.types is s.skip_types)))
            out.append((c + "container-writer-got-compressors", B(e.compressors is s.compressors)))
    elif case == "other":
        out.append((c + "fallback:gzip(dill)-bytes-as-an-array", B(arr is not None and isinstance(arr.src, ABytes) and not has_at and grp is None)))
    else:
        out.append((c + "case-has-a-dispatch-clause", B(False)))
    return out


N_DISPATCH = 2
C_DISPATCH = [Contract(f"{AS}._serialize_value", setup=functools.partial(dispatch_setup, part=(i, N_DISPATCH)), ensures=dispatch_ensures) for i in range(N_DISPATCH)]

# ---- _convert_string_to_path_if_needed

CONV_CASES = ["str+flag", "str", "str+flag-of-another-key", "str+flag=False", "int+flag", "none+flag", "float", "bool", "list+flag", "dict"]


def conv_setup(ctx):
    case = pick(ctx, "case", CONV_CASES)
    key = fresh_name(ctx, "key", distinct_from=["zz_other"])
    G = AGroup()
    kind = case.split("+")[0]
    val = {"str": lambda: StrSym(z3.String(ctx.fresh_name("val"))), "int": lambda: ctx.fresh("val_i", "int"), "none": lambda: None,
           "float": lambda: ctx.fresh("val_f", "real"), "bool": lambda: ctx.fresh("val_b", "bool"),
           "list": lambda: [StrSym(z3.String(ctx.fresh_name("val_e")))], "dict": lambda: {"k": 1}}[kind]()
    G.attrs[key] = val
    G.attrs["zz_other"] = "p"
    if case.endswith("+flag"):
        G.attrs[key + ".is_path"] = True
    if case.endswith("+flag=False"):
        G.attrs[key + ".is_path"] = False
    if case.endswith("flag-of-another-key"):
        G.attrs["zz_other.is_path"] = True
    del G.log[:]
    return NS(val=val, group=G, key=key, case=case, n_attrs=len(G.attrs))


def conv_ensures(s):
    if s.mode != "verify":
        return []
    c = f"[{s.case}]"
    r = s.result
    out = [(c + "frame:group-not-written", B(not s.group.log and len(s.group.attrs) == s.n_attrs and len(s.group.arrays) == 0 and len(s.group.groups) == 0))]
    if s.case == "str+flag":
        ok = isinstance(r, Kind) and r.kind == "path"
        out.append((c + "flagged-string-comes-back-as-a-Path", B(ok)))
        if ok:
            out.append((c + "path-text-is-the-stored-string", sterm(r.payload["p"]) == sterm(s.val)))
    else:
        out.append((c + "anything-else-is-returned-unchanged", B(r is s.val)))
    return out


C_CONV = Contract(f"{AS}._convert_string_to_path_if_needed", setup=conv_setup, ensures=conv_ensures)

# ---- _get_group / _get_array

GET_CASES = ["group", "array", "absent"]


def get_setup(ctx):
    case = pick(ctx, "case", GET_CASES)
    key = fresh_name(ctx, "key", distinct_from=["zz_other"])
    P = AGroup()
    P.require_group("zz_other")
    node = None
    if case == "group":
        node = P.require_group(key)
    elif case == "array":
        node = P.create_array(name=key, shape=(2,), dtype="uint8", compressors=None)
    del P.log[:]
    return NS(parent=P, key=key, case=case, node=node)


def get_ensures(s):
    if s.mode != "verify":
        return []
    c = f"[{s.case}]"
    return [(c + "result-is-the-node-stored-under-key", B(s.result is s.node and s.node is not None)),
            (c + "frame:parent-not-written", B(not s.parent.log and len(s.parent.groups) + len(s.parent.arrays) == (1 if s.case == "absent" else 2)))]


C_GETGROUP = Contract(f"{AS}._get_group", setup=get_setup, ensures=get_ensures, raises={KeyError: lambda s: z3.BoolVal(s.case == "absent")})
C_GETARRAY = Contract(f"{AS}._get_array", setup=get_setup, ensures=get_ensures, raises={KeyError: lambda s: z3.BoolVal(s.case == "absent")})

# ---- _fix_torch_module_sets

FIX_TREE_CASES = ["real-module-tree:child-with-non-persistent-buffer", "real-module-tree:root-set-came-back-as-a-list"]
FIX_CASES = FIX_TREE_CASES + ["module", "tensor", "parameter", "none", "int", "str", "ndarray1", "obj", "obj:module", "obj:module+list-valued-set-attribute", "obj:module+set-valued-set-attribute", "list:str", "dict"]


def _module_tree(case):
    """a REAL torch module tree (concrete representative): root with a non-persistent buffer, child with one persistent and one non-persistent buffer"""
    root, child = _torch.nn.Module(), _torch.nn.Module()
    root.register_buffer("rb", _torch.zeros(1), persistent=False)
    root.register_buffer("rp", _torch.zeros(1))
    child.register_buffer("cb", _torch.ones(1), persistent=False)
    child.register_buffer("cp", _torch.ones(1))
    root.add_module("child", child)
    if "came-back-as-a-list" in case:
        root._non_persistent_buffers_set = ["rb"]
    return root


def _tree_state(root):
    return ({n: set(m._non_persistent_buffers_set) for n, m in root.named_modules()}, list(root.state_dict().keys()),
            {n: sorted(m._buffers) for n, m in root.named_modules()})


def fix_setup(ctx):
    case = pick(ctx, "case", FIX_CASES)
    if case in FIX_TREE_CASES:
        root = _module_tree(case)
        return NS(mod=root, case=case, coll=None, elems=None, c=None, tree=_tree_state(root))
    if case.startswith("obj:module+"):
        elems = ["b1", "b2"]
        coll = list(elems) if "list-valued" in case else set(elems)
        m = mk_obj(NNInner, [("c", ctx.fresh("c", "int")), ("_non_persistent_buffers_set", coll)])
        return NS(mod=m, case=case, coll=coll, elems=elems, c=m.fields["c"])
    return NS(mod=mk_value(ctx, case), case=case, coll=None, elems=None, c=None)


def fix_ensures(s):
    if s.mode != "verify":
        return []
    c = f"[{s.case}]"
    out = [(c + "returns-its-argument", B(s.result is s.mod))]
    if s.case in FIX_TREE_CASES:
        np_sets, sd_keys, bufs = s.tree
        now = _tree_state(s.mod)
        out.append((c + "non-persistent-buffer-set-of-every-submodule-preserved", B(now[0] == np_sets)))
        out.append((c + "every-_non_persistent_buffers_set-is-a-set", B(all(isinstance(m._non_persistent_buffers_set, set) for m in s.mod.modules()))))
        out.append((c + "state_dict-key-set-preserved", B(now[1] == sd_keys)))
        out.append((c + "frame:registered-buffers-of-every-submodule-unchanged", B(now[2] == bufs)))
        return out
    if isinstance(s.mod, Obj):
        keys = [k for k in s.mod.fields.keys()]
        if s.coll is not None:
            now = s.mod.fields["_non_persistent_buffers_set"]
            out.append((c + "_non_persistent_buffers_set-is-a-set-with-the-same-elements", B(isinstance(now, set) and now == set(s.elems))))
            if isinstance(s.coll, set):
                out.append((c + "an-attribute-that-already-is-a-set-is-left-alone", B(now is s.coll)))
            out.append((c + "frame:other-attributes-untouched", B(keys == ["c", "_non_persistent_buffers_set"] and s.mod.fields["c"] is s.c)))
        else:
            out.append((c + "frame:no-attribute-added-or-removed", B(len(keys) == (0 if s.case == "obj:empty" else 1))))
    return out


C_FIXSETS = Contract(f"{AS}._fix_torch_module_sets", setup=fix_setup, ensures=fix_ensures)

# ---- _restore_numpy_rng

RNG_CASES = ["PCG64", "MT19937", "Philox", "SFC64", "<missing>", "Bogus"]


def rng_setup(ctx):
    case = pick(ctx, "case", RNG_CASES)
    G = AGroup()
    G.attrs["_numpy_rng"] = True
    if case != "<missing>":
        G.attrs["_bit_generator_type"] = case
    del G.log[:]
    return NS(subgrp=G, case=case)


def rng_ensures(s):
    if s.mode != "verify":
        return []
    import numpy as np

    c = f"[{s.case}]"
    want = s.case if s.case in ("PCG64", "MT19937", "Philox", "SFC64") else "PCG64"
    r = s.result
    return [(c + "result-is-a-numpy-Generator", B(isinstance(r, np.random.Generator))),
            (c + "bit-generator-is-of-the-recorded-type(PCG64-when-unknown/missing)", B(isinstance(r, np.random.Generator) and type(r.bit_generator).__name__ == want)),
            (c + "frame:group-not-written", B(not s.subgrp.log))]


C_RNG = Contract(f"{AS}._restore_numpy_rng", setup=rng_setup, ensures=rng_ensures)

C_HELPERS = C_DISPATCH + [C_CONV, C_GETGROUP, C_GETARRAY, C_FIXSETS, C_RNG]

# heavy ones first (the pool hands tasks out in order)
CONTRACTS = C_SVALS + C_RLOADS + C_DCONTS + C_SCONTS + C_RSAVES + C_SAVES + [C_LOAD, C_WND, C_WBYTES, C_A2NP, C_READ, C_ISNUM, C_ISAUTO] + C_HELPERS
INLINE_AT_CALL_SITES = C_SVALS + [C_ISAUTO] + C_HELPERS  # verified on its own, but its callers keep interpreting the real body (more precise than a contract)
LEMMAS = []
BOUNDED = []
TRUSTED = []
ASSUMPTIONS = []
EXPLANATION = ""


# ------------------------------------------------------------------------------------------------
# run-time oracle: the same statement on the REAL save / load with concrete values (replay + bounded stand-in)
# ------------------------------------------------------------------------------------------------

_RT_TMP = []


def _tmpdir():
    import atexit
    import shutil
    import tempfile

    if not _RT_TMP:
        d = tempfile.mkdtemp(prefix="C01_rt_")
        _RT_TMP.append(d)
        _RT_TMP.append(0)
        atexit.register(lambda: shutil.rmtree(d, ignore_errors=True))
    _RT_TMP[1] += 1
    p = os.path.join(_RT_TMP[0], f"r{os.getpid()}_{_RT_TMP[1]}")
    os.makedirs(p)
    return p


_TORCH_FIX = {}


def _torch_fixture():
    import torch

    if not _TORCH_FIX:
        torch.manual_seed(0)
        lin = torch.nn.Linear(2, 3)
        opt = torch.optim.SGD(lin.parameters(), lr=0.1, momentum=0.5)
        _TORCH_FIX.update(module=lin, optimizer=opt, scheduler=torch.optim.lr_scheduler.StepLR(opt, 2))
    return _TORCH_FIX


NP_DTYPES = ["bool", "int8", "int16", "int32", "int64", "uint8", "uint16", "uint32", "uint64", "float16", "float32", "float64",
             "complex64", "complex128"]


def concrete(desc, dims=None):
    """Real python value for a case / grammar term.  Grammar: leaf | list(t,..) | tuple(t,..) | set(t,..) | dict(k=t,..) | obj(k=t,..) |
    ndarray:<dtype>:<d0>x<d1>.. | wide-list:<leaf>:<n> ..."""
    import logging
    import pathlib

    import numpy as np
    import torch

    d = desc.strip()
    head, sep, rest = d.partition("(")
    if sep and d.endswith(")") and head in ("list", "tuple", "set", "dict", "obj", "inner"):
        parts = _split_args(rest[:-1])
        if head in ("dict", "obj", "inner"):
            kv = {}
            for p in parts:
                k, _, t = p.partition("=")
                kv[k] = concrete(t)
            return kv if head == "dict" else (Box if head == "obj" else Inner)(**kv)
        vals = [concrete(p) for p in parts]
        return vals if head == "list" else tuple(vals) if head == "tuple" else set(vals)
    if d.startswith("ndarray:"):
        _, dt, shp = d.split(":")
        shape = tuple(int(x) for x in shp.split("x")) if shp else ()
        n = int(np.prod(shape)) if shape else 1
        base = (np.arange(n) * 3 + 1).reshape(shape) if shape else np.array(7)
        if dt.startswith("complex"):
            return np.asarray(base * (1 + 2j)).astype(dt).reshape(shape)
        if dt.startswith("U") or dt.startswith("S"):
            return np.asarray(base).astype(dt).reshape(shape)
        if dt == "bool":
            return np.asarray(base % 2 == 1).reshape(shape)
        return np.asarray(base).astype(dt).reshape(shape)
    if d.startswith("wide:"):
        _, ct, leaf, n = d.split(":")
        vals = [concrete(leaf + f"#{i}") for i in range(int(n))]
        return vals if ct == "list" else tuple(vals) if ct == "tuple" else {f"k{i}": v for i, v in enumerate(vals)}
    leaf, _, idx = d.partition("#")
    i = int(idx) if idx else 0
    if leaf == "none":
        return None
    if leaf == "bool":
        return i % 2 == 0
    if leaf == "int":
        return 41 + i
    if leaf == "bigint":
        return 2 ** 62 + i
    if leaf == "negint":
        return -5 - i
    if leaf == "float":
        return 2.5 + i
    if leaf == "float01":
        return 0.1 + i   # not representable in float32 / float16
    if leaf == "str":
        return f"s{i}"
    if leaf == "emptystr":
        return ""
    if leaf == "unistr":
        return "é ü/∂"
    if leaf == "path":
        return pathlib.Path(f"/tmp/some dir/f{i}.txt")
    if leaf == "relpath":
        return pathlib.Path("a") / f"b{i}"
    if leaf == "tildepath":
        return pathlib.Path("~/scans") / f"run{i}.h5"   # leading '~' component: must come back textually equal (not expanded)
    if leaf == "tildeonly":
        return pathlib.Path("~")
    if leaf == "tildeuser":
        return pathlib.Path("~no_such_user_c01") / f"x{i}"
    if leaf == "midtilde":
        return pathlib.Path("a/~b") / f"~c{i}"
    if leaf == "dotdotpath":
        return pathlib.Path("../up/./x") / f"y{i}"
    if leaf == "npint":
        return np.int64(9 + i)
    if leaf == "npint8":
        return np.int8(-3)
    if leaf == "npuint16":
        return np.uint16(65000)
    if leaf == "npfloat":
        return np.float32(1.5 + i)
    if leaf == "npfloat64":
        return np.float64(-0.125)
    if leaf == "npfloat16":
        return np.float16(0.5)
    if leaf == "npbool":
        return np.bool_(i % 2 == 0)
    if leaf == "npcomplex":
        return np.complex64(1 + 2j)
    if leaf.startswith("ndarray") and leaf[7:].isdigit():
        nd = int(leaf[7:])
        dd = dims or {}
        default = {0: (), 1: (3,), 2: (2, 3), 3: (2, 1, 2)}[nd]
        shape = tuple(int(dd.get(j, default[j])) for j in range(nd))
        n = int(np.prod(shape)) if shape else 1
        return (np.arange(n, dtype=np.float32) * 1.5 + 1 + i).reshape(shape)
    fx = _torch_fixture()
    if leaf == "tensor":
        return torch.arange(6, dtype=torch.float64).reshape(2, 3) + i
    if leaf == "tensor_nonleaf":
        # result of a differentiable op: requires_grad=True, grad_fn is not None (not a leaf)
        w = torch.ones(3, dtype=torch.float32, requires_grad=True)
        return w * 3 + 1 + i
    if leaf == "tensor_grad":
        return torch.ones(3, dtype=torch.float32, requires_grad=True)
    if leaf == "tensor_int":
        return torch.arange(4, dtype=torch.int16)
    if leaf == "tensor0":
        return torch.tensor(2.5)
    if leaf == "tensor_empty":
        return torch.zeros((0, 2))
    if leaf == "parameter":
        return torch.nn.Parameter(torch.ones(2) * (i + 1))
    if leaf == "module_tree":
        return _module_tree("real-module-tree:child-with-non-persistent-buffer")
    if leaf in ("module", "optimizer", "scheduler"):
        return fx[leaf]
    if leaf == "other":
        return b"raw-bytes"
    if leaf == "pycomplex":
        return 3 + 4j
    if leaf == "pylogger":
        return logging.getLogger(f"c01.fixture{i}")
    if leaf == "tlogger":
        from torch.utils.tensorboard import SummaryWriter

        w = SummaryWriter(log_dir=os.path.join(_tmpdir(), "tb"))
        w.close()
        return w
    if leaf.startswith("rng:"):
        return np.random.Generator(getattr(np.random, leaf[4:])(i))
    if leaf in ("list:int", "list:str", "list:empty", "tuple:int", "tuple:str", "tuple:empty", "dict:empty", "set:int", "set:str", "set:empty", "obj:empty"):
        return {"list:int": [3, 4], "list:str": ["x", 5], "list:empty": [], "tuple:int": (3,), "tuple:str": ("x",), "tuple:empty": (), "dict:empty": {},
                "set:int": {3}, "set:str": {"x"}, "set:empty": set(), "obj:empty": Leaf()}[leaf]
    if leaf == "dict":
        return {"k": 3}
    if leaf == "obj":
        return Inner(c=5)
    if leaf == "obj:foreign":
        return ForeignAuto(c=5, raw=np.ones(2), d=Leaf(a=1))
    if leaf == "obj:module":
        return NNInner(c=5)
    raise ValueError(f"unknown grammar term {desc!r}")


def _split_args(s):
    out, depth, cur_ = [], 0, ""
    for ch in s:
        if ch == "(":
            depth += 1
        elif ch == ")":
            depth -= 1
        if ch == "," and depth == 0:
            out.append(cur_)
            cur_ = ""
        else:
            cur_ += ch
    if cur_.strip():
        out.append(cur_)
    return out


def _is_num(v):
    import numpy as np

    return isinstance(v, (int, float, bool, np.integer, np.floating, np.bool_)) and not isinstance(v, (str,))


def equiv_rt(l, o, path, out):
    """Problems (klass, where, message) of the loaded value `l` against the original `o`, in the property's sense."""
    import logging
    import pathlib

    import numpy as np
    import torch

    def bad(klass, msg):
        out.append((klass, path, msg))

    if o is None:
        if l is not None:
            bad("none", f"None came back as {type(l).__name__}")
        return
    if isinstance(o, (np.integer, np.floating, np.bool_, np.complexfloating)):
        # NumPy scalars are compared by numeric value (python number, numpy scalar or 0-d array)
        lv = l.item() if isinstance(l, np.ndarray) and l.ndim == 0 else l
        if not (_is_num(lv) or isinstance(lv, (complex, np.complexfloating))) or not (lv == o or (lv != lv and o != o)):
            bad("numpy-scalar numeric value", f"{o!r} came back as {l!r}")
        return
    if isinstance(o, (bool, int, float, str)):
        if type(l) is not type(o) or not (l == o or (l != l and o != o)):
            bad("python scalar", f"{o!r} ({type(o).__name__}) came back as {l!r} ({type(l).__name__})")
        return
    if isinstance(o, pathlib.PurePath):
        if not isinstance(l, pathlib.PurePath) or l != o:
            bad("path", f"{o!r} came back as {l!r}")
        return
    if isinstance(o, torch.Tensor):
        if not isinstance(l, torch.Tensor) or type(l) is not type(o):
            bad("tensor", f"{type(o).__name__} came back as {type(l).__name__}")
        elif l.dtype != o.dtype or l.requires_grad != o.requires_grad or tuple(l.shape) != tuple(o.shape) or not torch.equal(l.detach(), o.detach()):
            bad("tensor", f"dtype/requires_grad/shape/values differ: {o.dtype},{o.requires_grad},{tuple(o.shape)} -> {l.dtype},{l.requires_grad},{tuple(l.shape)}")
        return
    if isinstance(o, np.ndarray):
        if not isinstance(l, np.ndarray):
            bad("ndarray", f"ndarray came back as {type(l).__name__}")
        elif l.dtype != o.dtype:
            bad("ndarray dtype", f"dtype {o.dtype} -> {l.dtype}")
        elif l.shape != o.shape:
            bad("ndarray shape", f"shape {o.shape} -> {l.shape}")
        elif o.size and not np.array_equal(l, o, equal_nan=o.dtype.kind in "fc"):
            bad("0-d ndarray contents" if o.ndim == 0 else "ndarray contents", f"contents differ: {o.tolist()!r} -> {l.tolist()!r}"[:200])
        return
    if isinstance(o, torch.nn.Module) and not isinstance(o, AutoSerialize):
        if type(l) is not type(o):
            bad("module", f"{type(o).__name__} came back as {type(l).__name__}")
        else:
            so, sl = o.state_dict(), l.state_dict()
            if list(so) != list(sl) or any(not torch.equal(so[k], sl[k]) for k in so):
                bad("module", "state_dict differs")
            elif {n: set(m._non_persistent_buffers_set) for n, m in o.named_modules()} != {n: set(m._non_persistent_buffers_set) for n, m in l.named_modules()}:
                bad("module", "non-persistent buffer sets of the submodules differ")
        return
    if isinstance(o, torch.optim.Optimizer) or (hasattr(o, "step") and hasattr(o, "get_last_lr")):
        if type(l) is not type(o) or repr(l.state_dict()) != repr(o.state_dict()):
            bad("optimizer/scheduler", f"{type(o).__name__} came back as {type(l).__name__} or with another state")
        return
    if isinstance(o, np.random.Generator):
        if not isinstance(l, np.random.Generator) or type(l.bit_generator) is not type(o.bit_generator):
            bad("rng kind", f"{o!r} came back as {l!r}")
        return
    if isinstance(o, logging.Logger):
        if not isinstance(l, logging.Logger):
            bad("logger kind", f"Logger came back as {type(l).__name__}")
        return
    if type(o).__name__ == "SummaryWriter":
        if type(l) is not type(o):
            bad("logger kind", f"SummaryWriter came back as {type(l).__name__}")
        return
    if is_auto(o):
        if type(l) is not type(o):
            bad("class", f"{type(o).__name__} came back as {type(l).__name__}")
            return
        vo, vl = vars(o), vars(l)
        for k in vo:
            if k not in vl:
                bad("attribute missing", f"attribute {k!r} missing after load")
            else:
                equiv_rt(vl[k], vo[k], f"{path}.{k}", out)
        for k in vl:
            if k not in vo:
                klass = "extra attribute _autoserialize_skip_*" if k in ("_autoserialize_skip_names", "_autoserialize_skip_types") else "extra attribute"
                out.append((klass, f"{path}.{k}", f"loaded object has an attribute {k!r} the original does not have"))
        return
    if isinstance(o, (list, tuple)):
        if type(l) is not type(o):
            bad("container kind", f"{type(o).__name__} came back as {type(l).__name__}")
            if not isinstance(l, (list, tuple)):
                return
        if len(l) != len(o):
            bad("container length", f"length {len(o)} -> {len(l)}")
            return
        if len(o) > 0 and all(_is_num(v) for v in o):
            if not all(_is_num(x) and (x == y) for x, y in zip(l, o)):
                bad("all-numeric sequence values", f"{o!r} -> {l!r}"[:200])
            return
        for i, (x, y) in enumerate(zip(l, o)):
            equiv_rt(x, y, f"{path}[{i}]", out)
        return
    if isinstance(o, dict):
        if type(l) is not dict:
            bad("container kind", f"dict came back as {type(l).__name__}")
            return
        for k in o:
            if k not in l:
                bad("dict key missing", f"key {k!r} missing after load")
            else:
                equiv_rt(l[k], o[k], f"{path}[{k!r}]", out)
        for k in l:
            if k not in o:
                bad("dict extra key", f"extra key {k!r} after load")
        return
    if isinstance(o, (set, frozenset)):
        if type(l) is not type(o):
            bad("set -> " + type(l).__name__, f"{type(o).__name__} came back as {type(l).__name__}")
        try:
            if set(l) != set(o):
                bad("set elements", f"{o!r} -> {l!r}"[:200])
        except TypeError:
            bad("set elements", f"{o!r} -> {l!r}"[:200])
        return
    if type(l) is not type(o) or l != o:
        bad("other (dill) value", f"{o!r} came back as {l!r}"[:200])


def real_roundtrip(obj, store="zip", compression=4, pathtype="str", mode="w", skip_save=(), skip_load=(), resave=False):
    """save -> load on the real code; returns (loaded | None, problems-from-exceptions)."""
    import contextlib
    import io as _io
    import pathlib
    import warnings

    from quantem.core.io.serialize import load

    d = _tmpdir()
    p = os.path.join(d, "x.zip" if store == "zip" else "x")
    target = pathlib.Path(p) if pathtype == "Path" else p
    with warnings.catch_warnings(), contextlib.redirect_stdout(_io.StringIO()):
        warnings.simplefilter("ignore")
        try:
            if mode == "o":
                Leaf().save(target, mode="w", store=store)
            obj.save(target, mode=mode, store=store, skip=skip_save, compression_level=compression)
        except Exception as e:
            return None, [("save raises " + type(e).__name__, "", f"save raised {type(e).__name__}: {str(e)[:150]}")]
        try:
            r = load(target, skip=skip_load)
        except Exception as e:
            return None, [("load raises " + type(e).__name__, "", f"load raised {type(e).__name__}: {str(e)[:150]}")]
        if resave:
            try:
                p2 = os.path.join(d, "y.zip" if store == "zip" else "y")
                r.save(p2, store=store, compression_level=compression)
                r2 = load(p2)
            except Exception as e:
                return r, [("fixed point: re-save/re-load raises", "", f"{type(e).__name__}: {str(e)[:150]}")]
            return (r, r2), []
    return r, []


def rt_history(inp):
    """Overwrite history on the real code, one process, one path:  save(old) -> load -> save(new, mode='o') -> load  (and the same with
    delete + re-save); every load must return the graph that was saved last.  Problems as (klass, where, message)."""
    import contextlib
    import io as _io
    import pathlib
    import shutil
    import warnings

    from quantem.core.io import serialize as ser

    store = inp.get("store", "zip")
    d = _tmpdir()
    p = os.path.join(d, "h.zip" if store == "zip" else "h")
    target = pathlib.Path(p) if inp.get("pathtype") == "Path" else p
    old = Box(**{f"v{i}": concrete(dsc) for i, dsc in enumerate(inp.get("old_values", ["int#3", "ndarray1", "inner(c=int#7,only_old=str)", "list(str,int)"]))}, only_in_the_old_file=1)
    new = Box(**{f"v{i}": concrete(dsc) for i, dsc in enumerate(inp["values"])})
    comp = inp.get("compression", 4)
    problems = []
    with warnings.catch_warnings(), contextlib.redirect_stdout(_io.StringIO()):
        warnings.simplefilter("ignore")
        try:
            old.save(target, mode="w", store=store, compression_level=comp, skip=list(inp.get("old_skip", [])))
            r0 = ser.load(target)
            equiv_rt(strip_root_meta(r0), filter_expected(old, set(inp.get("old_skip", []))), "first-load", problems)
            if inp.get("print_file"):
                ser.print_file(target)
            if inp.get("delete"):
                shutil.rmtree(p) if os.path.isdir(p) else os.remove(p)
                new.save(target, mode="w", store=store, compression_level=comp)
            else:
                new.save(target, mode="o", store=store, compression_level=comp)
            r1 = ser.load(target)
            late = []
            equiv_rt(strip_root_meta(r1), new, "load-after-overwrite", late)
            problems += [("stale load after the file was overwritten: " + k, w, m) for k, w, m in late]
        except Exception as e:
            problems.append(("overwrite history raises " + type(e).__name__, "", f"{type(e).__name__}: {str(e)[:150]}"))
    only = inp.get("only_class")
    if only:
        problems = [q for q in problems if q[0] == only]
    return problems


def refine_klass(klass, where, obj, descs):
    """Attach the position (inside a container or not) to exception classes, from the description of the offending value."""
    return klass


def rt_values(inp):
    """Round trip of Box(v0=.., v1=.., ...) built from grammar terms; one failure class can be selected with inp['only_class']."""
    if inp.get("resave") == "history":
        return rt_history(inp)
    descs = inp["values"]
    kw = dict(store=inp.get("store", "zip"), compression=inp.get("compression", 4), pathtype=inp.get("pathtype", "str"), mode=inp.get("mode", "w"))
    problems = []
    obj = Box(**{f"v{i}": concrete(dsc, inp.get("dims")) for i, dsc in enumerate(descs)})
    r, exc = real_roundtrip(obj, resave=inp.get("resave", False), **kw)
    if exc and len(descs) > 1:
        # attribute the exception to the value(s) that cause it
        for i, dsc in enumerate(descs):
            r1, e1 = real_roundtrip(Box(v=concrete(dsc, inp.get("dims"))), **kw)
            for k, w, m in e1:
                problems.append((k + " [" + kind_class(dsc) + "]", f".v{i}", f"{dsc}: {m}"))
        if len(problems) > max(6, len(descs) // 2):
            # (nearly) every value fails: it is not about the value kind
            k0 = problems[0][0].split(" [")[0]
            problems = [(k0 + " [any value]", problems[0][1], problems[0][2])] + [p for p in problems if not p[0].startswith(k0)]
        if not problems:
            problems += exc
    elif exc:
        problems += [(k + " [" + kind_class(descs[0]) + "]", w, f"{descs[0]}: {m}") for k, w, m in exc]
    else:
        if inp.get("resave"):
            r, r2 = r
            equiv_rt(r2, r, "reloaded", problems)
            problems = [("fixed point: " + k, w, m) for k, w, m in problems if not k.startswith("extra attribute _autoserialize_skip")]
            p1 = []
            equiv_rt(r, obj, "", p1)
            problems += p1
        else:
            equiv_rt(r, obj, "", problems)
    only = inp.get("only_class")
    if only:
        problems = [p for p in problems if p[0] == only]
    return problems


def kind_class(desc):
    """coarse class of a grammar term, used to name failure classes"""
    d = desc.strip()
    head = d.partition("(")[0]
    if head in ("list", "tuple", "dict", "set") and "(" in d:
        inner = d[len(head) + 1:-1]
        for k in ("rng:", "set(", "set:", "npcomplex", "ndarray0", "ndarray::", "other", "pycomplex", "optimizer", "scheduler"):
            if k in inner:
                return f"{k.rstrip('(:')} inside a container"
        return head
    if d.startswith("rng:"):
        return d
    return d.partition("#")[0].partition(":")[0]


def rt_case(inp):
    """Replay of one symbolic case on the real code: the case's value at attribute position / inside a container."""
    pos = inp.get("position", "attr")
    kinds = inp["kinds"]
    if pos in ("attr", "root"):
        descs = [kinds[0]]
    elif pos == "dict":
        descs = ["dict(" + ",".join(f"key{i}={k}" for i, k in enumerate(kinds)) + ")"]
    else:
        descs = [f"{pos}(" + ",".join(kinds) + ")"]
    probs = rt_values(dict(values=descs + ["int"], dims=inp.get("dims"), store=inp.get("store", "zip")))
    if any("path" in k for k in kinds):
        # the symbolic path value is an arbitrary string: also replay with the other members of the path value domain
        for alt in ("tildepath", "tildeuser", "tildeonly", "dotdotpath"):
            probs += rt_values(dict(values=[dsc.replace("path", alt) for dsc in descs], store=inp.get("store", "zip")))
    probs = [p for p in probs if not p[0].startswith("extra attribute _autoserialize_skip")] if pos != "root" else probs
    return dict(violated=bool(probs), observed="; ".join(f"{k} at {w}: {m}" for k, w, m in probs[:3]) or "ok",
                expected="load(save(x)) has the same class, attribute names and structurally equal values")


def rt_array(inp):
    """Replay for the array reader/writer pair on a real zarr group."""
    import tempfile

    import numpy as np
    import zarr
    from zarr.storage import LocalStore

    arr = concrete(inp["kinds"][0], inp.get("dims")) if inp["kinds"][0] != "bytes" else None
    d = _tmpdir()
    g = zarr.group(store=LocalStore(d), overwrite=True)
    problems = []
    try:
        if arr is None:
            data = b"\x01\x02\x03" * int(inp.get("nbytes", 1) > 0)
            AutoSerialize._write_bytes(g, "x", data)
            back = AutoSerialize._read_array_np(zarr.group(store=LocalStore(d)), "x")
            if back.tobytes() != data:
                problems.append(("bytes", "", f"{data!r} -> {back.tobytes()!r}"))
        else:
            AutoSerialize._write_ndarray(g, "x", arr)
            back = AutoSerialize._read_array_np(zarr.group(store=LocalStore(d)), "x")
            equiv_rt(back, arr, "", problems)
    except Exception as e:
        problems.append(("raises", "", f"{type(e).__name__}: {e}"))
    return dict(violated=bool(problems), observed="; ".join(f"{k}: {m}" for k, w, m in problems) or "ok",
                expected="_read_array_np(_write_ndarray(a)) has a's dtype, shape and contents")


def _dims(ev, tag, nd):
    out = {}
    for j in range(nd):
        v = ev(f"{tag}_d{j}")
        if isinstance(v, int) and 0 <= v <= 6:
            out[j] = v
    return out


def conc_attr(ev, part=(0, 1), writer=False):
    i = ev("attr_kind")
    if i is None:
        return None
    case = sub([c for c in attr_cases() if not (writer and c.startswith("root:"))], part)[i]
    pos = "attr"
    if case.startswith("root:"):
        pos, case = "root", case[5:]
    nd = int(case[7:]) if case.startswith("ndarray") else 0
    return dict(position=pos, kinds=[case], dims=_dims(ev, "v", nd))


def conc_cont(ev, part=(0, 1), reader=False):
    i = ev("container_case")
    if i is None:
        return None
    ct, kinds = sub(cont_cases(reader), part)[i]
    return dict(position=ct, kinds=list(kinds))


def conc_array(ev):
    i = ev("stored")
    cases = ARRAY_CASES + ["bytes"]
    if i is None:
        i = ev("ndim")
        if i is None:
            return None
    case = cases[i]
    if case == "bytes":
        return dict(kinds=["bytes"], nbytes=ev("nbytes", 1))
    return dict(kinds=[case], dims=_dims(ev, "arr", int(case[7:])))


def fam_attr():
    for c in ATTR_CASES:
        yield dict(position="attr", kinds=[c])


def fam_cont():
    for ct, kinds in CONT_CASES[:120]:
        yield dict(position=ct, kinds=list(kinds))


def fam_array():
    for c in ARRAY_CASES:
        yield dict(kinds=[c])
        if c != "ndarray0":
            yield dict(kinds=[c], dims={0: 0})
    yield dict(kinds=["bytes"], nbytes=0)
    yield dict(kinds=["bytes"], nbytes=3)


for _c in (C_WND, C_WBYTES, C_A2NP, C_READ):
    _c.concretize, _c.rt, _c.rt_family = conc_array, rt_array, None
for _i, _c in enumerate(C_RSAVES):
    _c.concretize, _c.rt, _c.rt_family = functools.partial(conc_attr, part=(_i, N_RSAVE), writer=True), rt_case, None
for _i, _c in enumerate(C_RLOADS):
    _c.concretize, _c.rt, _c.rt_family = functools.partial(conc_attr, part=(_i, N_RLOAD)), rt_case, None
for _i in range(N_CONT):
    C_SCONTS[_i].concretize, C_SCONTS[_i].rt = functools.partial(conc_cont, part=(_i, N_CONT)), rt_case
    C_DCONTS[_i].concretize, C_DCONTS[_i].rt = functools.partial(conc_cont, part=(_i, N_CONT), reader=True), rt_case


def conc_sval(ev, part=(0, 1)):
    i = ev("value_kind")
    if i is None:
        return None
    case = sub(sval_cases(), part)[i]
    if case == "obj:sym":
        n1, n2 = ev("v_f1"), ev("v_f2")
        if not (isinstance(n1, str) and isinstance(n2, str) and n1.isidentifier() and n2.isidentifier()):
            return None
        return dict(position="attr", kinds=[f"inner({n1}=int,{n2}=int)"])
    return dict(position="attr", kinds=[case])


for _i, _c in enumerate(C_SVALS):
    _c.concretize, _c.rt, _c.rt_family = functools.partial(conc_sval, part=(_i, 2)), rt_case, None


# ------------------------------------------------------------------------------------------------
# skip-list oracle on the real code (C14 replay + bounded stand-in)
# ------------------------------------------------------------------------------------------------


def filter_expected(obj, names, types=()):
    """What C14 says load must return: `obj` without the attributes named in `names` / instances of `types`,
    at every level of attribute-nested AutoSerialize objects (a fresh object graph; other values are shared)."""
    out = type(obj).__new__(type(obj))
    if isinstance(obj, _torch.nn.Module):
        _torch.nn.Module.__init__(out)
    for k, v in vars(obj).items():
        if isinstance(obj, _torch.nn.Module) and k in vars(out) and k not in ("training",):
            continue
        if k in names or (types and isinstance(v, tuple(types))):
            continue
        out.__dict__[k] = filter_expected(v, names, types) if is_auto(v) else v
    return out


def strip_root_meta(o):
    for k in ("_autoserialize_skip_names", "_autoserialize_skip_types"):
        o.__dict__.pop(k, None)
    return o


def skip_fixture(kind="plain"):
    import numpy as np

    leaf = Leaf(a=3, e=(1, "t"), raw=np.ones(1))
    mid_cls = NNInner if kind == "module" else ForeignAuto if kind == "foreign" else Inner
    # dict-valued attributes whose KEYS are spelled like skippable attribute names / whose values are instances of skippable types:
    # containers are not attributes - skipping must not reach into them
    mid = mid_cls(a=2, b="x", raw=[1, 2], d=leaf, settings={"a": 5, "e": "kept", "zz_absent": [1, "y"]})
    return Box(a=1, b=np.arange(3.0), raw=np.zeros(2), c=mid, t=_torch.ones(2), s="keep", lst=[1, "x"],
               settings={"a": 7, "raw": np.ones(2), "d": "kept", "bias": 0.5}, pair=("x", np.zeros(1)),
               # instances of skippable types through SUBCLASSING only: bool < int, nn.Parameter < Tensor, np.float64 < float
               flag=True, par=_torch.nn.Parameter(_torch.ones(2)), f64=np.float64(0.5))


SKIP_UNIVERSE = ["a", "b", "raw", "c", "d", "e", "zz_absent"]
SKIP_TYPES = {"ndarray": lambda: __import__("numpy").ndarray, "Tensor": lambda: _torch.Tensor, "int": lambda: int, "str": lambda: str, "float": lambda: float,
              "Inner": lambda: Inner, "list": lambda: list}


def rt_skip(inp):
    """C14 on the real code: inp = dict(fixture, save=[names], load=[names], save_types=[type names], store)."""
    fx = skip_fixture(inp.get("fixture", "plain"))
    s_save, s_load = list(inp.get("save", [])), list(inp.get("load", []))
    types = [SKIP_TYPES[t]() for t in inp.get("save_types", [])]
    store = inp.get("store", "zip")
    problems = []
    r, exc = real_roundtrip(fx, store=store, skip_save=s_save + types, skip_load=s_load)
    if exc:
        problems += exc
    else:
        want = filter_expected(fx, set(s_save) | set(s_load), types)
        equiv_rt(strip_root_meta(r), want, "", problems)
        if inp.get("compare_times") and not types:
            # load-time skipping == save-time skipping == persisted lists honoured by a later load without skip
            allnames = s_save + s_load
            r1, e1 = real_roundtrip(fx, store=store, skip_save=allnames, skip_load=[])
            r2, e2 = real_roundtrip(fx, store=store, skip_save=[], skip_load=allnames)
            if e1 or e2:
                problems += e1 + e2
            else:
                p2 = []
                equiv_rt(strip_root_meta(r2), strip_root_meta(r1), "load-time-vs-save-time", p2)
                problems += [("load-time != save-time: " + k, w, m) for k, w, m in p2]
    if inp.get("fixture") == "module":
        problems = [("nested AutoSerialize object that is a torch.nn.Module: skip lists do not reach it" if w.startswith(".c") else k, w, m) for k, w, m in problems]
    only = inp.get("only_class")
    if only:
        problems = [p for p in problems if p[0] == only]
    return dict(violated=bool(problems), observed="; ".join(f"{k} at {w}: {m}" for k, w, m in problems[:3]) or "ok",
                expected="skipped names absent at every level, survivors equal to the unskipped load, load-time == save-time", problems=problems)


def fam_skip(tier="quick", seed=0):
    import itertools

    kmax = 2 if tier == "quick" else 4
    subsets = [list(c) for k in range(kmax + 1) for c in itertools.combinations(SKIP_UNIVERSE, k)]
    for i, S in enumerate(subsets):
        store = "zip" if i % 2 == 0 else "dir"
        yield dict(save=S, load=[], store=store, compare_times=(len(S) <= 2))
        yield dict(save=[], load=S, store="dir" if store == "zip" else "zip")
        if len(S) >= 2:
            yield dict(save=S[: len(S) // 2], load=S[len(S) // 2:], store=store)
            yield dict(save=S, load=S, store=store)
    for tn in (["ndarray"], ["Tensor"], ["int"], ["str", "ndarray"], ["Inner"], ["list"], ["float"]):
        for store in ("zip", "dir"):
            yield dict(save=[], load=[], save_types=tn, store=store)
        yield dict(save=["a"], load=["e"], save_types=tn, store="zip")
    # nested object recognised through an equal (not identical) class marker only
    for S in (["raw"], ["a", "e"], ["d"]):
        yield dict(fixture="foreign", save=S, load=[], store="zip", compare_times=True)
        yield dict(fixture="foreign", save=[], load=S, store="dir")
    yield dict(fixture="foreign", save=[], load=[], save_types=["ndarray"], store="zip")
    yield dict(fixture="module", save=["raw"], load=[], store="zip")
    yield dict(fixture="module", save=[], load=["raw"], store="dir")


def _skip_task(inp):
    return rt_skip(inp)


def run_skip_bounded(tier, seed):
    tasks = list(fam_skip(tier, seed))
    results = _pool_map(_skip_task, tasks)
    fails, seen = [], set()
    for inp, res in zip(tasks, results):
        for k, w, m in res["problems"]:
            if k in seen:
                continue
            seen.add(k)
            fails.append(dict(case=dict(inp, only_class=k), klass=k, observed=f"{k} at {w}: {m}", expected=res["expected"]))
    return dict(evaluations=len(tasks), distinct=len(set(repr(sorted(t.items())) for t in tasks)), failures=fails)


def rt_skip_case(inp):
    """Replay of a symbolic skip-mode case: the small name subsets over the fixture that exercises the case's kind."""
    fixture = "module" if any("module" in k for k in inp.get("kinds", [])) else "foreign" if any("foreign" in k for k in inp.get("kinds", [])) else "plain"
    worst = None
    for S in (["a"], ["raw"], ["c"], ["d"], ["a", "raw"], ["e", "b"], ["zz_absent"], []):
        for mode in ("save", "load"):
            res = rt_skip(dict(fixture=fixture, save=S if mode == "save" else [], load=S if mode == "load" else [], store="zip"))
            if res["violated"]:
                return dict(violated=True, observed=f"skip={S} at {mode} time: " + res["observed"], expected=res["expected"])
            worst = res
    return dict(violated=False, observed="ok", expected=worst["expected"])


def rt_any(inp):
    return rt_skip_case(inp) if MODE["skip"] else rt_case(inp)


for _c in C_RSAVES + C_RLOADS + C_SCONTS + C_DCONTS + C_SVALS:
    _c.rt = rt_any


# ------------------------------------------------------------------------------------------------
# bounded stand-in for C01: equiv(load(save(x)), x) over an enumerated value grammar
# ------------------------------------------------------------------------------------------------

G_LEAVES = ["none", "bool", "int", "negint", "bigint", "float", "str", "emptystr", "unistr", "path", "relpath", "tildepath", "tildeonly", "tildeuser", "midtilde", "dotdotpath", "npint", "npint8", "npuint16", "npfloat",
            "npfloat64", "npfloat16", "npbool", "ndarray0", "ndarray1", "ndarray2", "ndarray3", "tensor", "tensor_grad", "tensor_nonleaf", "tensor_int", "tensor0",
            "tensor_empty", "parameter", "module", "module_tree", "pylogger", "tlogger", "rng:PCG64", "obj", "obj:empty", "obj:foreign", "inner(c=int,d=ndarray1)"]
G_EXTRA = ["optimizer", "scheduler", "other", "pycomplex"]
G_KNOWN_BAD_SAVE = ["npcomplex", "rng:MT19937", "rng:Philox", "rng:SFC64"]
G_PAIR = ["int", "str", "none", "path", "npfloat", "ndarray1", "tensor", "obj", "list(int,str)"]
G_SMALL = ["int", "str", "ndarray1"]
# dict keys / attribute names that start with '.' or contain '.', holding values stored as zarr arrays / sub-groups (hidden files in the store)
G_DOTNAMES = ["dict(.hid=ndarray1,.h2=list(int,str),.s=str)", "dict(v1.2=ndarray1,a.b.c=tensor,x.=int)", "dict(.x.y=obj,.t=tensor,.d=dict(.k=ndarray1))",
              "obj(.hid=ndarray1,.cfg=dict(.k=ndarray1,v1.2=tuple(int,str)),v1.2=list(int,str))", "obj(.inner=inner(c=ndarray1),.lst=list(ndarray1,str))",
              "list(dict(.hid=ndarray1))"]
G_HASHABLE = ["int", "str", "none", "path", "npfloat", "tuple(int,str)", "bool"]


def grammar(tier="quick"):
    out = list(G_LEAVES) + list(G_EXTRA)
    # arrays: every dtype x (0-d, empty shapes, non-empty)
    for dt in NP_DTYPES + ["U3"]:
        for shp in ("", "0", "2x0", "0x3x1", "2x3"):
            out.append(f"ndarray:{dt}:{shp}")
    # depth 1
    for T in ("list", "tuple"):
        out.append(f"{T}()")
        out += [f"{T}({k})" for k in G_LEAVES if "(" not in k]
        pair = G_PAIR if (tier != "quick" or T == "list") else G_PAIR[:5]
        out += [f"{T}({a},{b})" for a in pair for b in pair]
        out += [f"{T}({a},{b},{c})" for a in G_SMALL for b in G_SMALL for c in G_SMALL if tier != "quick" or T == "list" or a == b or b == c]
    out.append("dict()")
    out += [f"dict(k={k})" for k in G_LEAVES if "(" not in k]
    pair = G_PAIR if tier != "quick" else G_PAIR[:5]
    out += [f"dict(p={a},q={b})" for a in pair for b in pair]
    out += [f"dict(p={a},q={b},r={c})" for a in G_SMALL for b in G_SMALL for c in G_SMALL if tier != "quick" or a == b or b == c]
    out.append("set()")
    out += [f"set({k})" for k in G_HASHABLE]
    out += [f"set({a},{b})" for a in G_HASHABLE for b in G_HASHABLE if a < b]
    out += ["set(int,str,none)", "set(int#1,int#2,int#3)"]
    # depth 2
    for T1 in ("list", "tuple", "dict"):
        for inner in ("list(int,int)", "list(int,str)", "tuple(str)", "tuple()", "list()", "dict(a=int)", "dict()", "set(int)", "set()", "dict(a=ndarray1,b=list(int))",
                      "obj(x=int)", "inner(c=list(int,str))", "list(ndarray0)", "list(path,str)", "tuple(none,none)", "list(tensor)", "list(rng:PCG64)",
                      "list(pylogger)", "list(module)", "dict(a=path)",
                      "list(tensor_nonleaf)", "tuple(tensor_nonleaf,int)", "dict(a=tensor_nonleaf,b=tensor_grad)"):
            out.append(f"{T1}({inner})" if T1 != "dict" else f"dict(k={inner})")
            out.append(f"{T1}({inner},int)" if T1 != "dict" else f"dict(k={inner},j=str)")
    out += ["obj(x=list(int,str),y=inner(c=ndarray0))", "obj(p=inner(c=dict(a=tuple(int,str))))", "obj(x=set(int))", "inner(c=obj(x=obj(y=int)))",
            "list(obj(x=list(obj(y=int))))", "obj(x=tuple(list(),dict(),set()))", "list(list(),list())", "list(tuple(int,int),tuple(int,int))",
            "list(bool,bool)", "list(int,bool,float)", "tuple(npint,npfloat)", "list(npbool,npbool)", "list(int,none)", "list(bigint,int)",
            "obj(x=list(tensor_nonleaf),y=tensor_nonleaf)", "inner(c=dict(a=tuple(tensor_nonleaf,str)))", "list(obj(x=tuple(tensor_nonleaf)))"]
    out += G_DOTNAMES
    # all-numeric sequences of mixed numeric kinds (the narrower kind first / last), also nested and inside sets' tuples
    for T in ("list", "tuple"):
        out += [f"{T}(int,float)", f"{T}(float,int)", f"{T}(bool,int#1,int#2)", f"{T}(int,float,float#1)", f"{T}(bool,float)", f"{T}(npfloat,float#7)",
                f"{T}(npfloat16,float)", f"{T}(npfloat,float01)", f"{T}(int,float01,float01#1)", f"{T}(npint8,bigint)", f"{T}(npint,float)", f"{T}(npbool,npint)", f"{T}(float,npfloat,bool)", f"dict(k={T}(int,float))",
                f"list({T}(bool,int#1),{T}(int,float))"]
    out += ["set(tuple(int,float),tuple(bool,int#3))", "list(tildepath,str)", "dict(p=tildepath,q=tuple(tildeuser))", "obj(p=tildepath,q=inner(c=tildeonly))", "set(tildepath,path)"]
    # wide containers (>= 11 elements: two-digit keys)
    out += ["wide:list:int:11", "wide:list:str:12", "wide:tuple:float:11", "wide:tuple:str:13", "wide:dict:int:12", "wide:dict:ndarray1:11", "wide:list:ndarray1:11",
            "wide:list:none:11", "wide:list:path:11", "wide:tuple:tensor:11"]
    return out


CONFIGS_ALL = [dict(store=s, compression=c, pathtype=p, mode=m) for s in ("zip", "dir") for c in (None, 0, 4, 9) for p in ("str", "Path") for m in ("w", "o")]
CONFIGS_QUICK = [dict(store="zip", compression=4, pathtype="str", mode="w"), dict(store="dir", compression=None, pathtype="Path", mode="o"),
                 dict(store="zip", compression=0, pathtype="Path", mode="o"), dict(store="dir", compression=9, pathtype="str", mode="w")]
BATCH = 40


def _pool_map(fn, tasks):
    """bounded stand-ins run their real save/load round trips in a few forked children (plain os.fork: the check's own
    worker processes are daemonic and may not own a multiprocessing pool)"""
    import pickle

    root = _tmpdir()  # this process owns (and finally removes) the scratch root
    nproc = int(os.environ.get("VERIF_BOUNDED_JOBS", "0") or 0) or min(8, max(1, (os.cpu_count() or 2) // 2))
    nproc = min(nproc, len(tasks))
    if nproc <= 1 or len(tasks) < 4:
        return [fn(t) for t in tasks]
    pids = []
    for w in range(nproc):
        out = os.path.join(root, f"part{w}.pkl")
        pid = os.fork()
        if pid == 0:
            code = 0
            try:
                res = [(i, fn(tasks[i])) for i in range(w, len(tasks), nproc)]
                with open(out, "wb") as f:
                    pickle.dump(res, f)
            except BaseException as e:  # the parent re-runs the missing tasks itself
                code = 1
            finally:
                os._exit(code)
        pids.append((pid, out))
    results = {}
    for pid, out in pids:
        os.waitpid(pid, 0)
        if os.path.exists(out):
            try:
                with open(out, "rb") as f:
                    results.update(dict(pickle.load(f)))
            except Exception:
                pass
            os.unlink(out)
    return [results[i] if i in results else fn(tasks[i]) for i in range(len(tasks))]


def _grammar_task(t):
    descs, cfg, resave = t
    return rt_values(dict(values=list(descs), resave=resave, **cfg))


def run_grammar_bounded(tier, seed):
    vals = grammar(tier)
    batches = [vals[i:i + BATCH] for i in range(0, len(vals), BATCH)]
    tasks = []
    cfgs = CONFIGS_QUICK if tier == "quick" else CONFIGS_ALL
    for bi, b in enumerate(batches):
        for ci, cfg in enumerate(cfgs):
            if tier == "quick" and ci != bi % len(cfgs) and bi > 0:
                continue  # quick: every batch under one of the four configurations (rotating), the first batch under all four
            tasks.append((tuple(b), cfg, False))
    # every configuration (both stores x None/0/4/9 x str/Path x w/o) on a mixed batch
    mixed = ("int", "path", "npfloat", "ndarray2", "ndarray:int16:2x0", "tensor_grad", "list(int,str)", "tuple(int,int)", "dict(p=ndarray1,q=list(int))", "obj")
    sweep = CONFIGS_ALL if tier != "quick" else [dict(store=st, compression=c, pathtype=("str", "Path")[(i + j) % 2], mode=("w", "o")[(i + j // 2) % 2])
                                                  for i, st in enumerate(("zip", "dir")) for j, c in enumerate((None, 0, 4, 9))]
    for cfg in sweep:
        tasks.append((mixed, cfg, False))
    # names starting with / containing '.', under both stores
    for cfg in CONFIGS_QUICK:
        tasks.append((tuple(G_DOTNAMES), cfg, False))
    # fixed point: save(load(save(x))) reloads to the same graph
    for b in batches[:: (4 if tier == "quick" else 1)]:
        tasks.append((tuple(d for d in b if d not in G_KNOWN_BAD_SAVE), dict(store="zip", compression=4, pathtype="str", mode="w"), True))
    # overwrite histories in ONE process on ONE path: save(old) -> load -> [print_file] -> save(new, 'o') / delete + save(new) -> load
    hist_new = ("int#5", "ndarray2", "inner(c=int#1,d=str)", "list(int,str,none)", "str")
    for st in ("zip", "dir"):
        for extra in (dict(), dict(delete=True), dict(print_file=True), dict(old_skip=["v0"])):
            if tier == "quick" and st == "dir" and extra.get("print_file"):
                continue
            tasks.append((hist_new, dict(store=st, compression=4, pathtype="Path" if extra.get("delete") else "str", **extra), "history"))
    # kinds whose save is known to raise: one value per round trip
    for d in G_KNOWN_BAD_SAVE + ["list(rng:MT19937)", "dict(k=npcomplex)"]:
        tasks.append(((d,), dict(store="zip", compression=4, pathtype="str", mode="w"), False))
    results = _pool_map(_grammar_task, tasks)
    per_class = {}
    for (descs, cfg, resave), probs in zip(tasks, results):
        for k, w, m in probs:
            idx = None
            if ".v" in w.split("[")[0]:
                num = ""
                for ch in w.split(".v", 1)[1]:
                    if not ch.isdigit():
                        break
                    num += ch
                idx = int(num) if num else None
            culprit = [descs[idx]] if idx is not None and idx < len(descs) else list(descs)[:3]
            per_class.setdefault(k, []).append(dict(case=dict(values=culprit, resave=resave, only_class=k, **cfg), klass=k, observed=f"{k} at {w}: {m}",
                                                    expected="load(save(x)) has the same class, attribute names and structurally equal values"))
    return dict(evaluations=len(tasks), distinct=len(set((t[0], repr(t[1]), t[2]) for t in tasks)), values=len(vals),
                failures=[fs[0] for fs in per_class.values()], classes={k: len(v) for k, v in per_class.items()})


def rt_values_replay(inp):
    probs = rt_values(inp)
    return dict(violated=bool(probs), observed="; ".join(f"{k} at {w}: {m}" for k, w, m in probs[:3]) or "ok",
                expected="load(save(x)) has the same class, attribute names and structurally equal values")


B_GRAMMAR = Bounded("round trip over the value grammar (real save/load)", run_grammar_bounded,
                    "all kinds at depth 0; containers of width <=3 at depth <=2 over 9 child classes; containers of 11-13 elements; every numpy dtype x 0-d/empty/non-empty shapes; "
                    "overwrite histories (save -> load -> overwrite/delete+save -> load, both stores); non-leaf requires_grad tensors at depth 0-2; dict keys / attribute names starting with or containing '.' under both stores; both stores x compression None/0/4/9 (x str/Path x w/o: full product in thorough, alternating in quick) on a mixed batch, 4 configurations rotating over the other batches; fixed point on every 4th batch (thorough: all)")
B_GRAMMAR.rt = rt_values_replay
B_SKIP = Bounded("skip lists over a 3-level fixture (real save/load)", run_skip_bounded,
                 "all subsets of <=2 (thorough: <=4) of 7 names (one absent) at save / load / split / both, both stores; 6 type lists; load-time vs save-time comparison")
B_SKIP.rt = lambda inp: {k: v for k, v in rt_skip(inp).items() if k != "problems"}

BOUNDED = [B_GRAMMAR]


# ------------------------------------------------------------------------------------------------
# property-level lemmas (from the contract statements alone)
# ------------------------------------------------------------------------------------------------


def lemma_fixed_point(ctx):
    """load(save(.)) = RT.  From the round-trip contract  D(v) => E(RT(v), v)  and  'a value ~ a supported value is supported'
    (the equivalence keeps kinds inside the supported domain: NumPy scalars -> Python numbers, numeric sequences -> numeric sequences):
    saving the loaded object again and reloading it is a fixed point up to ~."""
    Vs = z3.DeclareSort("Value")
    RT = z3.Function("RT", Vs, Vs)
    E = z3.Function("equiv", Vs, Vs, z3.BoolSort())
    D = z3.Function("supported", Vs, z3.BoolSort())
    v, x, y, z = z3.Consts("v x y z", Vs)
    hyp = [z3.ForAll([x], z3.Implies(D(x), E(RT(x), x))),
           z3.ForAll([x, y], z3.Implies(z3.And(E(x, y), D(y)), D(x))),
           z3.ForAll([x, y, z], z3.Implies(z3.And(E(x, y), E(y, z)), E(x, z))),
           D(v)]
    return [("reload-of-resaved-object~loaded-object", hyp, E(RT(RT(v)), RT(v))),
            ("and~original", hyp, E(RT(RT(v)), v))]


def lemma_store_independence(ctx):
    """save's postcondition describes the written tree by the same term for the zip and the dir store; load maps both to the
    decoding of that tree: result(zip) ~ x and result(dir) ~ x, hence equal up to ~ (symmetry + transitivity of ~)."""
    Vs = z3.DeclareSort("Value")
    E = z3.Function("equiv", Vs, Vs, z3.BoolSort())
    rz, rd, x0 = z3.Consts("r_zip r_dir x0", Vs)
    a, b, c = z3.Consts("a b c", Vs)
    hyp = [E(rz, x0), E(rd, x0), z3.ForAll([a, b], z3.Implies(E(a, b), E(b, a))), z3.ForAll([a, b, c], z3.Implies(z3.And(E(a, b), E(b, c)), E(a, c)))]
    return [("zip-result~dir-result", hyp, E(rz, rd))]


def lemma_skip_algebra(ctx):
    """present(n) <=> A(n) and not (Ss(n) or Ts(n)) and not Sl(n)  (postcondition of _recursive_load for every level).
    load-time == save-time == persisted lists, for every name."""
    St = z3.StringSort()
    A, S, Ts = (z3.Function(nm, St, z3.BoolSort()) for nm in ("is_attr", "S", "T_match"))
    n = z3.String("n")
    F = z3.BoolVal(False)

    def present(ss, ts, sl):
        return z3.And(A(n), z3.Not(z3.Or(ss, ts)), z3.Not(sl))

    at_save = present(S(n), F, F)             # save(skip=S); load()
    at_save_eff = present(S(n), F, S(n))      # ... where load merges the persisted list: S_load = {} | S_file
    at_load = present(F, F, S(n))             # save(); load(skip=S)
    both = present(S(n), F, S(n))
    return [("persisted-list-changes-nothing-more", [], at_save == at_save_eff),
            ("load-time==save-time", [], at_load == at_save),
            ("both==either", [], both == at_load),
            ("skipped-name-absent", [S(n)], z3.Not(at_save)),
            ("unskipped-attribute-present", [A(n), z3.Not(S(n))], at_load),
            ("type-skipping-removes-instances", [Ts(n)], z3.Not(present(F, Ts(n), F)))]


LEMMAS = [Lemma("fixed-point", lemma_fixed_point, uses=["_recursive_load", "_deserialize_container", "save", "load"]),
          Lemma("store-independence", lemma_store_independence, uses=["save", "load"])]
LEMMAS_SKIP = [Lemma("skip-set-algebra", lemma_skip_algebra, uses=["_recursive_save", "_recursive_load", "save", "load"])]

TRUSTED = [
    "A6 zarr model (pyvc/lib/c01_models.py): group = (attrs JSON map, arrays, sub-groups); attrs are a JSON round trip (tuple->list, str keys, non-JSON -> TypeError); "
    "arrays keep dtype/shape/data; compressors lossless (recorded, otherwise ignored); create_array on an existing key raises; 0-d arrays read with arr[()]",
    "A6 torch.save/torch.load, dill.dumps/loads, gzip.compress/decompress are inverse pairs on opaque byte tokens (tensor dtype, requires_grad, module/optimizer state ride on that); "
    "bytes of a user array are not a gzip stream of a dill pickle",
    "A6 numpy: asarray of numeric scalars holds the same numeric values (A1/A2), frombuffer/tobytes inverse, empty() has unspecified contents; pathlib.Path(str(p)) == p; "
    "ascontiguousarray / asfortranarray / atleast_1d return ndim >= 1 (a 0-d input comes back with shape (1,), same dtype and element); Path(non-str) raises TypeError; "
    "str(bool) is 'True'/'False', str(int) the decimal numeral; name sets: & | - are the boolean combinations of the membership predicates",
    "A6 ghost file system at whole-tree granularity: os.walk + ZipFile.write(arcname=relpath) archives the directory tree, extractall restores it, "
    "TemporaryDirectory is removed on exit, LocalStore/zarr.group bind a tree to a directory",
    "A7 kind facts: isinstance/hasattr of a kind are measured on one real representative (torch.ones(2), Linear(1,1), SGD, StepLR, SummaryWriter, logging.Logger, "
    "np.float32/int64/bool_/complex64, Path, Generator(PCG64/MT19937/Philox/SFC64), bytes); uniformity within a kind assumed",
    "iteration over an abstract name set (the delattr loop of _recursive_load) = every known name decided to be a member + one generic further member; iterations independent",
    "array pair: callers use _write_ndarray/_write_bytes and _read_array_np/_array_to_np through their contracts (the 0-d clause of that contract is a known finding)",
    "pyvc engine (AST interpreter, path enumeration), z3 string theory for names, cvc5",
]
ASSUMPTIONS = [
    "A1 floats are reals (JSON float round trip, float32->float64 promotion in all-numeric sequences exact); A2 integers in all-numeric sequences within int64 (the property's own restriction)",
    "attribute names / str dict keys: non-empty, no '/', not one of the reserved metadata names (_autoserialize, _container_type, _sequence_encoding, _torch_iterable_module_type, "
    "_autoserialize_skip_names/_types), not ending in '.is_path' / '.torch_save' (flag names - a dict key 'x.is_path' IS silently dropped by the real loader), "
    "not dunder names and not names of class-level attributes (load(skip=['save']) raises AttributeError in the real code); names of one object pairwise distinct",
    "classes are importable module-level classes (class identity is stored as module + qualname; a nested class cannot be re-imported), plain (non-attrs) classes",
    "container width unrolled <= 3 (deductive part; plus 11/12-element sequences) - NOT replaced by a loop contract at an arbitrary element: the abstract zarr group is a finite key->entry "
    "association list with syntactic key matching and container values are python lists of kind-abstract elements, so a symbolic-length heterogeneous container has no representation yet; "
    "depth by induction through the recursive contracts; ndarray ndim <= 3 with symbolic dimensions",
    "kinds outside the property's list (optimizer, scheduler, dill fallback) are verified at attribute position only; inside containers the real loader returns the raw byte array for dill values",
    "load-time skipping by TYPE is not specified by the property; the contracts take the load-time type tuple to be the persisted one",
    "objects inside containers are outside C14's claim (load-time names are not forwarded to them by the real code)",
]
EXPLANATION = ("VCs generated at check time from the real source of AutoSerialize.save/_recursive_save/_serialize_value/_serialize_container/_write_ndarray/_write_bytes/"
               "_array_to_np/_read_array_np/_convert_string_to_path_if_needed/_is_numeric_scalar/_is_autoserialize_instance/_get_group/_get_array/_fix_torch_module_sets/"
               "_restore_numpy_rng/_recursive_load/_deserialize_container and module-level load, "
               "executed symbolically over an abstract zarr group with kind-abstract values and symbolic names; every reader is verified on the state the real writer produced; "
               "meta-level clauses are decided by path enumeration (backend 'simplify'), name/shape/set clauses by z3")


# ------------------------------------------------------------------------------------------------
# run-time oracles for save / load (replay of counter-models of their contracts)
# ------------------------------------------------------------------------------------------------


def _skip_concrete(form):
    import numpy as np

    n1, n2, T = "a", "raw", np.ndarray
    return {"()": (), "name": n1, "type": T, "[n1]": [n1], "[n1,T]": [n1, T], "[n1,n2]": [n1, n2], "(n1,n1)": (n1, n1)}[form], \
           {"()": [], "name": [n1], "type": [], "[n1]": [n1], "[n1,T]": [n1], "[n1,n2]": [n1, n2], "(n1,n1)": [n1]}[form], \
           ([T] if form in ("type", "[n1,T]") else [])


def rt_save(inp):
    """save() on the real code against its documented behaviour: inp = dict(pathform, mode, store, compression, name, exists, isdir, skipform)."""
    import contextlib
    import io as _io
    import pathlib
    import warnings

    from quantem.core.io.serialize import load

    d = _tmpdir()
    name = inp.get("name") or "target"
    if not all(ch.isalnum() or ch in "._-" for ch in name) or name in (".", ".."):
        name = "target.zip" if name.endswith(".zip") else "target.dat" if "." in name.strip(".") else "target"
    p = os.path.join(d, name)
    store, mode, c = inp.get("store", "auto"), inp.get("mode", "w"), inp.get("compression")
    is_zip = store == "zip" or (store == "auto" and p.endswith(".zip"))
    is_dir = store == "dir" or (store == "auto" and not p.endswith(".zip"))
    final = p + ".zip" if is_zip and not p.endswith(".zip") else p
    if inp.get("exists"):
        if inp.get("isdir"):
            os.makedirs(final)
        else:
            open(final, "w").write("old")
    skip, names, types = _skip_concrete(inp.get("skipform", "()"))
    expect = None
    if c is not None and not (0 <= c <= 9):
        expect = ValueError
    elif inp.get("exists") and mode != "o":
        expect = FileExistsError
    elif store not in ("auto", "zip", "dir") or (is_dir and os.path.splitext(p)[1]):
        expect = ValueError
    fx = skip_fixture()
    target = pathlib.Path(p) if inp.get("pathform") == "Path" else p
    problems = []
    with warnings.catch_warnings(), contextlib.redirect_stdout(_io.StringIO()):
        warnings.simplefilter("ignore")
        try:
            fx.save(target, mode=mode, store=store, skip=skip, compression_level=c)
            raised = None
        except Exception as e:
            raised = e
        if expect is not None:
            if raised is None or not isinstance(raised, expect):
                problems.append(f"expected {expect.__name__}, got {type(raised).__name__ if raised else 'normal return'}")
        elif raised is not None:
            problems.append(f"save raised {type(raised).__name__}: {raised}")
        else:
            if is_zip and not os.path.isfile(final) or is_dir and not os.path.isdir(final):
                problems.append(f"nothing written at {os.path.basename(final)} ({'zip file' if is_zip else 'directory'} expected)")
            else:
                try:
                    r = load(final)
                    probs = []
                    equiv_rt(strip_root_meta(r), filter_expected(fx, set(names), types), "", probs)
                    problems += [f"{k} at {w}: {m}" for k, w, m in probs if not k.startswith("set ->") and "0-d" not in k]
                except Exception as e:
                    problems.append(f"load of the written file raised {type(e).__name__}: {e}")
            left = [x for x in os.listdir(d) if x != os.path.basename(final)]
            if left:
                problems.append(f"other paths written next to the target: {left}")
    return dict(violated=bool(problems), observed="; ".join(problems[:3]) or "ok",
                expected="ValueError for bad compression/store/dir-with-extension, FileExistsError for existing target unless mode='o', else exactly the target written and loadable")


def conc_save(ev, part=(0, 1)):
    def pk(name, opts):
        i = ev(name)
        return opts[i] if isinstance(i, int) and 0 <= i < len(opts) else opts[0]

    skipm = MODE["skip"]
    store = pk("store", sub(["auto", "zip", "dir", "bogus"] if not skipm else ["zip", "dir"], part))
    c = None if pk("compression", ["none", "int"] if not skipm else ["none"]) == "none" else ev("compression_level", 4)
    return dict(pathform=pk("pathform", ["str", "Path"] if not skipm else ["str"]), mode=pk("mode", ["w", "o"] if not skipm else ["w"]), store=store,
                compression=c, name=ev("path", "target"), exists=bool(ev("fs_exists", False)), isdir=bool(ev("fs_isdir", False)), skipform=pk("skipform", skip_forms()))


def rt_load(inp):
    sskip, snames, stypes = _skip_concrete(inp.get("save_skipform", "()"))
    lskip, lnames, ltypes = _skip_concrete(inp.get("load_skipform", "()"))
    fx = skip_fixture()
    problems = []
    r, exc = real_roundtrip(fx, store=inp.get("store", "zip"), pathtype=inp.get("pathform", "str"), skip_save=sskip, skip_load=[x for x in (lskip if isinstance(lskip, (list, tuple)) else [lskip]) if isinstance(x, str)])
    if exc:
        problems += [m for k, w, m in exc]
    else:
        probs = []
        equiv_rt(strip_root_meta(r), filter_expected(fx, set(snames) | set(lnames), stypes), "", probs)
        problems += [f"{k} at {w}: {m}" for k, w, m in probs]
    # load() after an earlier save + load of ANOTHER object at the same path (the contract's overwrite-history pre-state)
    for extra in (dict(), dict(print_file=True)):
        problems += [f"{k} at {w}: {m}" for k, w, m in rt_history(dict(values=["int#5", "ndarray2", "inner(c=int#1,d=str)"], store=inp.get("store", "zip"),
                                                                    pathtype=inp.get("pathform", "str"), **extra))]
    return dict(violated=bool(problems), observed="; ".join(problems[:3]) or "ok",
                expected="load decodes the object saved LAST at the path, under user skip names + persisted skip names")


def conc_load(ev):
    def pk(name, opts):
        i = ev(name)
        return opts[i] if isinstance(i, int) and 0 <= i < len(opts) else opts[0]

    return dict(store=pk("store", ["zip", "dir"]), pathform=pk("pathform", ["str", "Path"] if not MODE["skip"] else ["str"]),
                save_skipform=pk("save_skipform", skip_forms()), load_skipform=pk("load_skipform", skip_forms()))


INLINED = [f"{AS}.{q}" for q in ("_serialize_value", "_get_group", "_get_array", "_is_autoserialize_instance", "_fix_torch_module_sets",
                                  "_convert_string_to_path_if_needed", "_restore_numpy_rng")]
for _c in CONTRACTS:
    _c.inline = set(INLINED)  # listed in evidence: these bodies are interpreted at their call sites
    _c.canary_path_limit = 16  # vacuity canary: the first 16 paths (of up to several hundred) are re-run with falsified postconditions

for _i, _c in enumerate(C_SAVES):
    _c.concretize, _c.rt = functools.partial(conc_save, part=(_i, 2)), rt_save
C_LOAD.concretize, C_LOAD.rt = conc_load, rt_load



def rt_isauto(inp):
    case = inp["kinds"][0]
    try:
        v = concrete(case)
        got = bool(AutoSerialize._is_autoserialize_instance(v))
    except Exception as e:
        return dict(violated=True, observed=f"raised {type(e).__name__}: {e}", expected="a bool")
    want = is_auto(v)
    return dict(violated=got != want, observed=f"_is_autoserialize_instance({type(v).__name__}) = {got}", expected=f"{want} (instance, or class with an equal marker)")


def conc_isauto(ev):
    i = ev("kind")
    return dict(kinds=[ISAUTO_CASES[i]]) if isinstance(i, int) and 0 <= i < len(ISAUTO_CASES) else None


C_ISAUTO.concretize, C_ISAUTO.rt = conc_isauto, rt_isauto
C_ISAUTO.canary_path_limit = 16
C_ISAUTO.inline = set(INLINED)


# ------------------------------------------------------------------------------------------------
# run-time oracles of the helper contracts (real zarr group in a scratch directory)
# ------------------------------------------------------------------------------------------------


def _real_group():
    import zarr
    from zarr.storage import LocalStore

    return zarr.group(store=LocalStore(_tmpdir()), overwrite=True)


def conc_dispatch(ev, part=(0, 1)):
    i = ev("value_kind")
    cases = sub(DISPATCH_CASES, part)
    return dict(position="attr", kinds=[cases[i]]) if isinstance(i, int) and 0 <= i < len(cases) else None


for _i, _c in enumerate(C_DISPATCH):
    _c.concretize, _c.rt, _c.rt_family = functools.partial(conc_dispatch, part=(_i, N_DISPATCH)), rt_case, None


def _pick_conc(name, cases):
    def conc(ev):
        i = ev(name)
        return dict(case=cases[i]) if isinstance(i, int) and 0 <= i < len(cases) else None
    return conc


def rt_conv(inp):
    import pathlib

    case = inp["case"]
    kind = case.split("+")[0]
    val = {"str": "~/a b/c.txt", "int": 3, "none": None, "float": 0.5, "bool": True, "list": ["x"], "dict": {"k": 1}}[kind]
    g = _real_group()
    g.attrs["key"] = val
    g.attrs["zz_other"] = "p"
    if case.endswith("+flag"):
        g.attrs["key.is_path"] = True
    if case.endswith("+flag=False"):
        g.attrs["key.is_path"] = False
    if case.endswith("flag-of-another-key"):
        g.attrs["zz_other.is_path"] = True
    before = dict(g.attrs)
    try:
        r = AutoSerialize._convert_string_to_path_if_needed(val, g, "key")
    except Exception as e:
        return dict(violated=True, observed=f"raised {type(e).__name__}: {e}", expected="no exception")
    want = pathlib.Path(val) if case == "str+flag" else val
    bad = type(r) is not type(want) or r != want or dict(g.attrs) != before
    return dict(violated=bad, observed=f"{val!r} -> {r!r}; attrs {'changed' if dict(g.attrs) != before else 'unchanged'}", expected=f"{want!r}, group not written")


def rt_get(inp, which="_get_group"):
    case = inp["case"]
    g = _real_group()
    g.require_group("zz_other")
    if case == "group":
        g.require_group("key")
    elif case == "array":
        g.create_array(name="key", shape=(2,), dtype="uint8")
    try:
        r = getattr(AutoSerialize, which)(g, "key")
        obs = f"returned {type(r).__name__} at {getattr(r, 'path', '?')!r}"
        bad = case == "absent" or getattr(r, "path", None) != "key"
    except KeyError:
        obs, bad = "KeyError", case != "absent"
    except Exception as e:
        obs, bad = f"raised {type(e).__name__}", True
    return dict(violated=bad, observed=obs, expected="the node stored under key; KeyError iff absent")


def rt_fix(inp):
    case = inp["case"]
    if case in FIX_TREE_CASES:
        m = _module_tree(case)
        before = _tree_state(m)
        try:
            r = AutoSerialize._fix_torch_module_sets(m)
        except Exception as e:
            return dict(violated=True, observed=f"raised {type(e).__name__}: {e}", expected="returns its argument")
        now = _tree_state(m)
        bad = r is not m or now != before or not all(isinstance(x._non_persistent_buffers_set, set) for x in m.modules())
        return dict(violated=bad, observed=f"non-persistent sets {now[0]}, state_dict keys {now[1]}", expected=f"non-persistent sets {before[0]}, state_dict keys {before[1]}")
    if case.startswith("obj:module+"):
        m = NNInner(c=1)
        coll = ["b1", "b2"] if "list-valued" in case else {"b1", "b2"}
        m.__dict__["_non_persistent_buffers_set"] = coll
    else:
        m = concrete(case)
    before = dict(vars(m)) if hasattr(m, "__dict__") else None
    try:
        r = AutoSerialize._fix_torch_module_sets(m)
    except Exception as e:
        return dict(violated=True, observed=f"raised {type(e).__name__}: {e}", expected="returns its argument")
    probs = []
    if r is not m:
        probs.append("result is not the argument")
    if case.startswith("obj:module+"):
        now = m.__dict__.get("_non_persistent_buffers_set")
        if not isinstance(now, set) or now != {"b1", "b2"}:
            probs.append(f"_non_persistent_buffers_set = {now!r}")
        if isinstance(coll, set) and now is not coll:
            probs.append("a set-valued attribute was replaced")
        if {k: v for k, v in vars(m).items() if k != "_non_persistent_buffers_set"} != {k: v for k, v in before.items() if k != "_non_persistent_buffers_set"}:
            probs.append("other attributes changed")
    elif before is not None and set(vars(m)) != set(before):
        probs.append("attribute set changed")
    return dict(violated=bool(probs), observed="; ".join(probs) or "ok", expected="returns its argument; only a non-set _non_persistent_buffers_set of a module becomes a set of the same elements")


def rt_rng(inp):
    import numpy as np

    case = inp["case"]
    g = _real_group()
    g.attrs["_numpy_rng"] = True
    if case != "<missing>":
        g.attrs["_bit_generator_type"] = case
    want = case if case in ("PCG64", "MT19937", "Philox", "SFC64") else "PCG64"
    try:
        r = AutoSerialize._restore_numpy_rng(g)
    except Exception as e:
        return dict(violated=True, observed=f"raised {type(e).__name__}: {e}", expected=f"Generator({want})")
    got = type(getattr(r, "bit_generator", None)).__name__
    return dict(violated=not isinstance(r, np.random.Generator) or got != want, observed=f"{type(r).__name__}({got})", expected=f"Generator({want})")


C_CONV.concretize, C_CONV.rt = _pick_conc("case", CONV_CASES), rt_conv
C_GETGROUP.concretize, C_GETGROUP.rt = _pick_conc("case", GET_CASES), functools.partial(rt_get, which="_get_group")
C_GETARRAY.concretize, C_GETARRAY.rt = _pick_conc("case", GET_CASES), functools.partial(rt_get, which="_get_array")
C_FIXSETS.concretize, C_FIXSETS.rt = _pick_conc("case", FIX_CASES), rt_fix
C_RNG.concretize, C_RNG.rt = _pick_conc("case", RNG_CASES), rt_rng
for _c in C_HELPERS:
    _c.canary_path_limit = 16
    _c.inline = set(INLINED)
