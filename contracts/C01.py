"""C01 - serializer round trip: load(save(x)) is structurally equal to x (AutoSerialize / zarr).

The real functions of quantem/core/io/serialize.py are executed symbolically (their `ast`, read at check time) over an
abstract zarr group (pyvc/lib/c01_models.py) with kind-abstract values, symbolic payloads and symbolic names.
No encoder specification is written: every decoder is verified on the group that the REAL encoder produced
(the contract's `setup` runs the real writer), and the postcondition is the property's equivalence.
Recursive calls (nested objects, nested containers) and the array reader/writer pair are used through their contracts
(induction on depth); container width is unrolled (<= 3).
"""
from __future__ import annotations

import os
import sys

import z3

from pyvc import values as V
from pyvc.values import Sym, Obj, Kind, S, lift, OutOfSubset
from pyvc.interp import NS, Interp, RaiseSig, PathEnd
from pyvc.registry import Contract, resolve
from pyvc.runner import Lemma, Bounded
from pyvc.lib import c01_models as cm
from pyvc.lib.c01_models import StrSym, SMap, AGroup, AArray, ABytes, SymSet, ATypes, DType, keq, sterm, is_name, is_strsym, show
from .common import registry

from quantem.core.io.serialize import AutoSerialize

LEVEL = "other"
SER = "quantem.core.io.serialize"
AS = f"{SER}:AutoSerialize"


# ------------------------------------------------------------------------------------------------
# fixture classes (real AutoSerialize subclasses; importable as contracts.C01.<name>)
# ------------------------------------------------------------------------------------------------


class Box(AutoSerialize):
    def __init__(self, **kw):
        self.__dict__.update(kw)


class Inner(AutoSerialize):
    def __init__(self, **kw):
        self.__dict__.update(kw)


class Leaf(AutoSerialize):
    def __init__(self, **kw):
        self.__dict__.update(kw)


import torch as _torch


class NNInner(AutoSerialize, _torch.nn.Module):
    """An AutoSerialize class that is also a torch module (like quantem's ObjectPixelated, ProbePixelated, ...)."""

    def __init__(self, **kw):
        _torch.nn.Module.__init__(self)
        self.__dict__.update(kw)


_REG = {}
MODE = {"skip": False}  # C14 re-uses this module with symbolic skip sets


def make_registry(skip_mode=False):
    MODE["skip"] = skip_mode
    reg = registry()
    cm.install(reg)
    for c in CONTRACTS:
        if c not in INLINE_AT_CALL_SITES:
            reg.add_contract(c)
    for q in ("_serialize_value", "_get_group", "_get_array", "_is_autoserialize_instance", "_fix_torch_module_sets",
              "_convert_string_to_path_if_needed", "_is_numeric_scalar"):
        reg.inline.add(f"{AS}.{q}")
    _REG["reg"] = reg
    return reg


# ------------------------------------------------------------------------------------------------
# symbolic inputs
# ------------------------------------------------------------------------------------------------

RESERVED = ["_autoserialize", "_container_type", "_sequence_encoding", "_torch_iterable_module_type",
            "_autoserialize_skip_names", "_autoserialize_skip_types"]
RESERVED_SUFFIXES = [".is_path", ".torch_save"]
SV = z3.StringVal


def name_facts(t, cls=None):
    """What the property assumes about an attribute name / dict key (plus: not a dunder, not a class-level attribute)."""
    fs = [z3.Length(t) >= 1, z3.Not(z3.Contains(t, SV("/"))), z3.Not(z3.PrefixOf(SV("__"), t))]
    fs += [t != SV(r) for r in RESERVED]
    fs += [z3.Not(z3.SuffixOf(SV(sfx), t)) for sfx in RESERVED_SUFFIXES]
    if cls is not None:
        fs += [t != SV(c) for c in dir(cls) if not c.startswith("__")]
    return fs


def fresh_name(ctx, base, cls=None, distinct_from=()):
    n = StrSym(z3.String(ctx.fresh_name(base)))
    for f in name_facts(n.t, cls):
        ctx.assume(f)
    for d in distinct_from:  # attribute names of one object / keys of one dict are pairwise distinct
        ctx.assume(n.t != sterm(d))
    cm.note_name(ctx, n, lambda c, _cls=cls: name_excluded(c, _cls), RESERVED_SUFFIXES, distinct_from)
    return n


def name_excluded(c, cls=None):
    """python-level mirror of name_facts: the concrete string c violates them (so a fresh name cannot equal c)."""
    return (len(c) == 0 or "/" in c or c.startswith("__") or c in RESERVED or any(c.endswith(x) for x in RESERVED_SUFFIXES)
            or (cls is not None and not c.startswith("__") and c in dir(cls)))


def pick(ctx, name, options):
    """Enumerate `options` (one path each, binary search => O(log n) decisions); the choice is an Int so counter-models name the case."""
    v = ctx.fresh(name, "int")
    lo, hi = 0, len(options)
    ctx.assume(z3.And(v.t >= lo, v.t < hi))
    while hi - lo > 1:
        mid = (lo + hi) // 2
        if ctx.branch(v.t < mid):
            hi = mid
        else:
            lo = mid
    return options[lo]


def fresh_dim(ctx, name):
    d = ctx.fresh(name, "int")
    ctx.assume(d.t >= 0)
    return d


SCALAR_CASES = ["none", "bool", "int", "float", "str", "path", "npint", "npfloat", "npbool"]
ARRAY_CASES = ["ndarray0", "ndarray1", "ndarray2", "ndarray3"]
TORCH_CASES = ["tensor", "parameter", "module"]
EXTRA_CASES = ["optimizer", "scheduler", "other"]  # outside the property's list of kinds: checked at attribute position only
KINDONLY_CASES = ["pylogger", "tlogger", "rng:PCG64", "rng:MT19937", "rng:Philox", "rng:SFC64"]
LEAF_CASES = SCALAR_CASES + ARRAY_CASES + TORCH_CASES + KINDONLY_CASES


def mk_leaf(ctx, case, tag="v"):
    if case == "none":
        return None
    if case == "bool":
        return ctx.fresh(tag + "_b", "bool")
    if case == "int":
        return ctx.fresh(tag + "_i", "int")
    if case == "float":
        return ctx.fresh(tag + "_f", "real")
    if case == "str":
        return StrSym(z3.String(ctx.fresh_name(tag + "_s")))
    if case == "path":
        return cm.mk_kind("path", p=StrSym(z3.String(ctx.fresh_name(tag + "_p"))))
    if case == "npint":
        return cm.mk_kind("npint", v=ctx.fresh(tag + "_ni", "int"))
    if case == "npfloat":
        return cm.mk_kind("npfloat", v=ctx.fresh(tag + "_nf", "real"))
    if case == "npbool":
        return cm.mk_kind("npbool", v=ctx.fresh(tag + "_nb", "bool"))
    if case == "npcomplex":
        return cm.mk_kind("npcomplex", v=None)
    if case.startswith("ndarray"):
        nd = int(case[7:])
        shape = tuple(fresh_dim(ctx, f"{tag}_d{j}") for j in range(nd))
        return cm.mk_ndarray(DType(), shape, cm.fresh_tok("data"))
    if case in ("tensor", "parameter", "module", "optimizer", "scheduler", "other"):
        return cm.mk_kind(case, tok=cm.fresh_tok(case))
    if case in KINDONLY_CASES:
        return cm.mk_kind(case)
    raise ValueError(case)


def mk_obj(cls, items):
    o = Obj(cls)
    object.__setattr__(o, "fields", SMap(items))
    return o


def mk_value(ctx, case, tag="v"):
    """Value of the given case; container / nested-object cases have simple fixed children (their own contracts vary them)."""
    if case == "list:int":
        return [ctx.fresh(tag + "_e0", "int"), ctx.fresh(tag + "_e1", "int")]
    if case == "list:str":
        return [StrSym(z3.String(ctx.fresh_name(tag + "_e0"))), ctx.fresh(tag + "_e1", "int")]
    if case == "list:empty":
        return []
    if case == "tuple:int":
        return (ctx.fresh(tag + "_e0", "int"),)
    if case == "tuple:str":
        return (StrSym(z3.String(ctx.fresh_name(tag + "_e0"))),)
    if case == "tuple:empty":
        return ()
    if case == "dict":
        return {"k": ctx.fresh(tag + "_e0", "int")}
    if case == "dict:empty":
        return {}
    if case == "set:int":
        return {ctx.fresh(tag + "_e0", "int")}
    if case == "set:str":
        return {StrSym(z3.String(ctx.fresh_name(tag + "_e0")))}
    if case == "set:empty":
        return set()
    if case == "obj":
        return mk_obj(Inner, [("c", ctx.fresh(tag + "_c", "int"))])
    if case == "obj:empty":
        return mk_obj(Leaf, [])
    if case == "obj:sym":
        # nested object whose two attribute names are arbitrary (symbolic)
        n1 = fresh_name(ctx, tag + "_f1", Inner)
        n2 = fresh_name(ctx, tag + "_f2", Inner, distinct_from=[n1])
        return mk_obj(Inner, [(n1, ctx.fresh(tag + "_c1", "int")), (n2, ctx.fresh(tag + "_c2", "int"))])
    if case == "obj:module":
        o = mk_obj(NNInner, [("c", ctx.fresh(tag + "_c", "int"))])
        return o
    return mk_leaf(ctx, case, tag)


CONTAINER_CASES = ["list:int", "list:str", "list:empty", "tuple:int", "tuple:str", "tuple:empty", "dict", "dict:empty",
                   "set:int", "set:str", "set:empty"]
OBJ_CASES = ["obj", "obj:empty", "obj:module"]
ATTR_CASES = LEAF_CASES + EXTRA_CASES + CONTAINER_CASES + OBJ_CASES + ["npcomplex"]


# ------------------------------------------------------------------------------------------------
# running real code inside `setup` (the pre-state of a reader is whatever the REAL writer produced)
# ------------------------------------------------------------------------------------------------


class Token:
    """Opaque value that the code under contract may only pass along (any inspection leaves the subset)."""

    def __init__(self, name):
        self.name = name

    def __repr__(self):
        return f"<{self.name}>"

    def __bool__(self):
        raise OutOfSubset(f"truth value of the opaque token {self.name}")


COMP = Token("compressors")


def run_real(ctx, qual, args, kwargs=None, label="writer", writer_has_own_contract=False):
    """Interpret the REAL function `qual` (source read at check time) inside a contract's setup.

    writer_has_own_contract: an exception of the writer is an obligation of the writer's own contract over the same case set
    (no-raise:...), so the reader's setup just ends the path instead of reporting it a second time."""
    reg = _REG["reg"]
    interp = Interp(ctx, reg)
    real = resolve(qual)
    try:
        return interp.call_closure(interp.closure_of(real), list(args), dict(kwargs or {}))
    except RaiseSig as r:
        if writer_has_own_contract:
            raise PathEnd(f"{label} raised {type(r.exc).__name__} (reported by the writer's contract)")
        ctx.prove(f"{label}:no-raise:{type(r.exc).__name__}", z3.BoolVal(False), kind="safety", assume_after=False,
                  meta={"exc": repr(r.exc), "line": getattr(interp, "cur_line", "?")})
        raise PathEnd(f"{label} raised {type(r.exc).__name__}")


def B(x):
    return x if V.is_z3(x) else z3.BoolVal(bool(x))


# ------------------------------------------------------------------------------------------------
# skip context
# ------------------------------------------------------------------------------------------------


def names_equiv(a, b, ctx):
    """Extensional equality of two name sets (python sets of names / SymSet), as a z3 Bool over a fresh generic name."""
    if a is b:
        return z3.BoolVal(True)
    x = z3.String(ctx.fresh_name("x_any"))
    return cm.set_mem(a, x) == cm.set_mem(b, x)


def types_equiv(a, b):
    if a is b:
        return True
    ea = isinstance(a, tuple) and len(a) == 0 or isinstance(a, ATypes) and a.empty
    eb = isinstance(b, tuple) and len(b) == 0 or isinstance(b, ATypes) and b.empty
    return bool(ea and eb)


def name_skipped(sk, n):
    return cm.set_mem(sk, sterm(n))


def type_skipped(types, v):
    if isinstance(types, ATypes):
        return types.match(v)
    if isinstance(types, tuple) and not types:
        return z3.BoolVal(False)
    raise OutOfSubset("concrete non-empty skip_types in a contract")


# ------------------------------------------------------------------------------------------------
# the property's equivalence  loaded ~ original
# ------------------------------------------------------------------------------------------------


def sym_pytype(x):
    return "bool" if x.is_bool else "int" if x.is_int else "float" if x.is_real else "str" if z3.is_string(x.t) else "?"


def is_loaded(x):
    return isinstance(x, Kind) and x.kind == "loaded"


def equiv(l, o, exp, pre=""):
    """[(label, z3 Bool)]: the loaded value `l` is structurally equal to the original `o` in the property's sense.

    exp: expected skip context of nested AutoSerialize objects (NS(save_names, save_types, load_names, load_types, ctx))."""
    out = []

    def add(lab, t):
        out.append((pre + lab, B(t)))

    if is_loaded(l):
        # result of a recursive decoder used through its contract: it is ~ the value its group encodes
        enc = l.payload["enc"]
        if enc.kind == "obj":
            add("nested-object:save-time-skip-names-are-the-parent's", names_equiv(enc.names, exp.save_names, exp.ctx))
            add("nested-object:save-time-skip-types-are-the-parent's", types_equiv(enc.types, exp.save_types))
            if l.payload.get("in_container"):
                pass  # objects inside containers are outside C14's claim for load-time skipping
            else:
                add("nested-object:load-time-skip-names-are-the-parent's", names_equiv(l.payload["load_names"], exp.load_names, exp.ctx))
                add("nested-object:load-time-skip-types-are-the-parent's", types_equiv(l.payload["load_types"], exp.load_types))
        else:
            add("nested-container:skip-names-are-the-parent's", names_equiv(enc.names, exp.save_names, exp.ctx))
            add("nested-container:skip-types-are-the-parent's", types_equiv(enc.types, exp.save_types))
        if l.payload.get("as_set"):
            return out + equiv_as_set(enc.value, o, exp, pre)
        return out + equiv(enc.value, o, exp, pre)
    if l is o:
        add("same", True)
        if isinstance(o, Obj) and MODE["skip"]:
            # the very same object state came back (pickled whole): under C14 none of its attributes may be one that is skipped
            for n, v in o.fields.items():
                add(f"attr[{show(n)}]:not-skipped-inside-an-object-that-came-back-whole",
                    z3.Not(z3.Or(name_skipped(exp.save_names, n), type_skipped(exp.save_types, v), name_skipped(exp.load_names, n))))
        return out
    if o is None:
        add("none", l is None)
        return out
    if isinstance(o, Sym):
        ok = isinstance(l, Sym) and sym_pytype(l) == sym_pytype(o)
        add("python-type", ok)
        if ok:
            add("value", l.t == o.t)
        return out
    if isinstance(o, Kind):
        k = o.kind
        if k in ("npint", "npfloat", "npbool"):
            # NumPy scalars are compared by numeric value
            ok = isinstance(l, Sym) and not z3.is_string(l.t) or isinstance(l, Kind) and l.kind == k
            add("numeric", ok)
            if ok:
                lv = l if isinstance(l, Sym) else l.payload["v"]
                a, b = V.coerce2(lv, o.payload["v"])
                add("numeric-value", a == b)
            return out
        if k == "path":
            ok = isinstance(l, Kind) and l.kind == "path"
            add("is-a-path", ok)
            if ok:
                add("path-value", sterm(l.payload["p"]) == sterm(o.payload["p"]))
            return out
        if k == "ndarray":
            ok = isinstance(l, Kind) and l.kind == "ndarray"
            add("is-ndarray", ok)
            if ok:
                lp, op = l.payload, o.payload
                add("dtype", cm.dtype_same(lp["dtype"], op["dtype"]))
                same_shape = cm.shape_eq_term(lp["shape"], op["shape"])
                add("shape", same_shape)
                same_data = cm.data_norm(lp["data"]) == cm.data_norm(op["data"])
                add("contents", z3.Or(B(same_data), cm.shape_numel_zero_term(op["shape"])))
            return out
        if k in ("tensor", "parameter", "module", "optimizer", "scheduler", "other"):
            # torch.save/torch.load (dill) give back an object with the same state: dtype, requires_grad, values, class (A6)
            add("same-pickled-object", isinstance(l, Kind) and l.kind == k and l.payload.get("tok") == o.payload.get("tok"))
            return out
        if k in ("pylogger", "tlogger") or k.startswith("rng:"):
            add("same-kind-of-object", same_kind_of_object(l, o))
            return out
        add("unsupported-kind:" + k, False)
        return out
    if isinstance(o, Obj):
        ok = isinstance(l, Obj) and l.cls is o.cls
        add("class", ok)
        if ok:
            out += equiv_fields(l, o, exp, pre)
        return out
    if isinstance(o, (list, tuple)):
        add("container-kind", type(l) is type(o))
        if not isinstance(l, (list, tuple)):
            return out
        add("length", len(l) == len(o))
        if len(l) == len(o):
            for i, (x, y) in enumerate(zip(l, o)):
                out += equiv(x, y, exp, f"{pre}[{i}]:")
        return out
    if isinstance(o, dict):
        add("container-kind", type(l) is dict)
        if not isinstance(l, dict):
            return out
        lk, ok_ = list(l.keys()), list(o.keys())
        for kk in ok_:
            hit = [j for j in lk if key_same(j, kk)]
            add(f"key[{show(kk)}]-present", bool(hit))
            if hit:
                out += equiv(l[hit[0]], o[kk], exp, f"{pre}[{show(kk)}]:")
        for j in lk:
            add(f"no-extra-key[{show(j)}]", any(key_same(j, kk) for kk in ok_))
        return out
    if isinstance(o, (set, frozenset)):
        add("container-kind", type(l) is type(o))
        if isinstance(l, (set, frozenset, list, tuple)):
            out += equiv_as_set(list(l), o, exp, pre)
        return out
    add("unsupported-original:" + type(o).__name__, False)
    return out


def key_same(a, b):
    if isinstance(a, str) and isinstance(b, str):
        return a == b
    if is_name(a) and is_name(b):
        return sterm(a).eq(sterm(b))
    return False


def equiv_as_set(items, o, exp, pre):
    """`items` (a sequence) has the same elements as the set `o` (element order of a set is unspecified)."""
    out = [(pre + "set:size", B(len(items) == len(o)))]
    rest = list(o)
    for i, x in enumerate(items):
        hit = None
        for y in rest:
            es = equiv(x, y, exp)
            if all(z3.is_true(z3.simplify(t)) for _, t in es):
                hit = y
                break
        out.append((f"{pre}set:elem[{i}]-is-an-original-element", B(hit is not None)))
        if hit is not None:
            rest = [y for y in rest if y is not hit]
    return out


def same_kind_of_object(l, o):
    rep = o.payload["rep"]
    if isinstance(l, Kind):
        if l.kind == o.kind:
            return True
        if o.kind == "pylogger":
            return l.kind == "pylogger"
        return False
    # a real object built natively by the decoder (numpy Generator)
    try:
        if o.kind.startswith("rng:"):
            return type(l) is type(rep) and type(l.bit_generator) is type(rep.bit_generator)
    except Exception:
        return False
    return type(l) is type(rep)


def equiv_fields(l, o, exp, pre=""):
    """Attribute-name set and per-attribute values of a decoded object against the original, under the skip context."""
    out = []
    ctx = exp.ctx
    lkeys = list(l.fields.keys())
    for n, v in o.fields.items():
        skipped = z3.Or(name_skipped(exp.save_names, n), type_skipped(exp.save_types, v), name_skipped(exp.load_names, n))
        hit = [j for j in lkeys if key_same(j, n)]
        tag = f"{pre}attr[{show(n)}]"
        if hit:
            out.append((f"{tag}:present-only-if-not-skipped", z3.Not(skipped)))
            out += equiv(l.fields.entries[l.fields.keys().index(hit[0])][1], v, exp, f"{tag}:")
        else:
            out.append((f"{tag}:absent-only-if-skipped", skipped))
    for j in lkeys:
        if MODE["skip"] and isinstance(j, str) and j in ("_autoserialize_skip_names", "_autoserialize_skip_types"):
            continue  # C14 compares with loading WITHOUT skipping, which has the same two attributes (they are C01's finding)
        out.append((f"{pre}no-extra-attribute[{show(j)}]", B(any(key_same(j, n) for n in o.fields.keys()))))
    return out


def no_skip(ctx):
    return NS(save_names=frozenset(), save_types=(), load_names=frozenset(), load_types=(), ctx=ctx)


# ------------------------------------------------------------------------------------------------
# _write_ndarray / _write_bytes / _array_to_np / _read_array_np   (array pair)
# ------------------------------------------------------------------------------------------------


def wnd_setup(ctx):
    case = pick(ctx, "ndim", ARRAY_CASES)
    arr = mk_leaf(ctx, case, "arr")
    name = fresh_name(ctx, "name")
    G = AGroup()
    return NS(group=G, name=name, array=arr, compressors=COMP, case=case)


def wnd_ensures(s):
    if s.mode != "verify":
        return []
    G, name = s.group, s.name
    out = [(f"[{s.case}]exactly-one-array-created-under-name", B([k for k in G.log] == [("array", name)] or
                                                                 (len(G.log) == 1 and G.log[0][0] == "array" and key_same(G.log[0][1], name)))),
           (f"[{s.case}]no-group-attribute-written", B(len(G.attrs) == 0)),
           (f"[{s.case}]dtype-stored", B(len(G.arrays) == 1 and cm.dtype_same(G.arrays.values()[0].dtype, s.array.payload["dtype"]))),
           (f"[{s.case}]compressors-passed-to-create_array", B(len(G.arrays) == 1 and G.arrays.values()[0].compressors is s.compressors))]
    return out


def wnd_modifies(ctx, s):
    # effect at a call site: the real writer's effect is abstracted to "an array entry holding `array`" (ghost src);
    # what the entry decodes to is the reader's contract (verified on the real writer's output).
    G = s.group
    arr = s.array
    if not (isinstance(arr, Kind) and arr.kind == "ndarray"):
        raise OutOfSubset("_write_ndarray of a non-ndarray through its contract")
    if s.name in G.arrays or s.name in G.groups:
        raise RaiseSig(ValueError("An array exists in store at that path"))
    a = AArray(arr.payload["shape"], arr.payload["dtype"], s.compressors)
    a.src = arr
    G.arrays[s.name] = a
    G.log.append(("array", s.name))


C_WND = Contract(f"{AS}._write_ndarray", setup=wnd_setup, ensures=wnd_ensures, modifies=wnd_modifies,
                 requires=lambda s: [("array-is-ndarray", B(isinstance(s.array, Kind) and s.array.kind == "ndarray"))])


def wb_setup(ctx):
    case = pick(ctx, "bytes", ["nonempty", "any-length"])
    n = ctx.fresh("nbytes", "int")
    ctx.assume(n.t >= (1 if case == "nonempty" else 0))
    data = ABytes(cm.fresh_tok("bytes"), n)
    return NS(group=AGroup(), name=fresh_name(ctx, "name"), data=data, compressors=COMP, case=case)


def wb_ensures(s):
    if s.mode != "verify":
        return []
    G = s.group
    return [(f"[{s.case}]exactly-one-array-created-under-name", B(len(G.log) == 1 and G.log[0][0] == "array" and key_same(G.log[0][1], s.name))),
            (f"[{s.case}]uint8", B(len(G.arrays) == 1 and cm.dtype_same(G.arrays.values()[0].dtype, "uint8")))]


def wb_modifies(ctx, s):
    G = s.group
    if not isinstance(s.data, ABytes):
        raise OutOfSubset("_write_bytes of non-abstract bytes through its contract")
    if s.name in G.arrays or s.name in G.groups:
        raise RaiseSig(ValueError("An array exists in store at that path"))
    a = AArray((s.data.length,), "uint8", s.compressors)
    a.src = s.data
    G.arrays[s.name] = a
    G.log.append(("array", s.name))


C_WBYTES = Contract(f"{AS}._write_bytes", setup=wb_setup, ensures=wb_ensures, modifies=wb_modifies)


def a2np_setup(ctx):
    """Pre-state: the array entry that the REAL `_write_ndarray` / `_write_bytes` creates for an arbitrary array / byte string."""
    what = pick(ctx, "stored", ARRAY_CASES + ["bytes"])
    G = AGroup()
    if what == "bytes":
        n = ctx.fresh("nbytes", "int")
        ctx.assume(n.t >= 0)
        src = ABytes(cm.fresh_tok("bytes"), n)
        run_real(ctx, f"{AS}._write_bytes", [G, "x", src, None], label=f"[{what}]_write_bytes")
        orig = cm.mk_ndarray("uint8", (n,), ("bytes", src.tok))
    else:
        orig = mk_leaf(ctx, what, "arr")
        run_real(ctx, f"{AS}._write_ndarray", [G, "x", orig, None], label=f"[{what}]_write_ndarray")
    if "x" not in G.arrays:
        ctx.prove(f"[{what}]writer-created-the-array", z3.BoolVal(False), assume_after=False)
        raise PathEnd("no array")
    G.arrays["x"].prov = src if what == "bytes" else orig  # ghost provenance: what the real writer was given
    return NS(arr=G.arrays["x"], parent=G, key="x", orig=orig, case=what)


def a2np_ensures(s):
    if s.mode != "verify":
        return []
    return equiv(s.result, s.orig, no_skip(s.ctx), f"[{s.case}]")


def a2np_result(ctx, s):
    return s.arr.src_view()


C_A2NP = Contract(f"{AS}._array_to_np", setup=a2np_setup, ensures=a2np_ensures, result=a2np_result,
                  requires=lambda s: [("array-was-written-by-_write_ndarray/_write_bytes", B(s.mode == "verify" or (isinstance(s.arr, AArray) and (s.arr.src is not None or s.arr.prov is not None))))])


def read_result(ctx, s):
    a = s.parent.arrays.get(s.key)
    if a is None:
        raise RaiseSig(KeyError(show(s.key)))
    return a.src_view()


def read_requires(s):
    if s.mode == "verify":
        return []
    a = s.parent.arrays.get(s.key) if isinstance(s.parent, AGroup) else None
    return [("array-exists-and-was-written-by-_write_ndarray/_write_bytes", B(a is None or a.src is not None or a.prov is not None))]


C_READ = Contract(f"{AS}._read_array_np", setup=a2np_setup, ensures=a2np_ensures, result=read_result, requires=read_requires)


# ------------------------------------------------------------------------------------------------
# _recursive_save / _serialize_container (writers) : class identity, tags, frame, argument propagation
# ------------------------------------------------------------------------------------------------


def skip_ctx(ctx, tag=""):
    """Skip sets handed to the writers: empty for C01, symbolic for C14."""
    if MODE["skip"]:
        return cm.fresh_symset(ctx, "S_save" + tag), ATypes(ctx, "T_save" + tag)
    return frozenset(), ()


def meta_of(cls):
    return {"version": 1, "class_module": cls.__module__, "class_name": cls.__qualname__}


def rsave_setup(ctx):
    case = pick(ctx, "attr_kind", [c for c in attr_cases() if not c.startswith("root:")])
    a = fresh_name(ctx, "a", Box, distinct_from=["zz_other"])
    v = mk_value(ctx, case)
    w = ctx.fresh("w", "int")
    obj = mk_obj(Box, [(a, v), ("zz_other", w)])
    names, types = skip_ctx(ctx)
    return NS(self=obj, obj=obj, group=AGroup(), skip_names=names, skip_types=types, compressors=COMP, case=case, a=a, v=v)


def entry_count(G, n):
    """How many of attrs / arrays / groups hold key n (syntactic match: n is one of the contract's own name terms)."""
    return sum(1 for m in (G.attrs.m, G.arrays, G.groups) if any(key_same(k, n) for k in m.keys()))


def rsave_ensures(s):
    if s.mode != "verify":
        return []
    G, obj = s.group, s.obj
    out = []
    c = f"[{s.case}]"
    if s.mode == "verify":
        out.append((c + "class-identity-and-version-recorded", B(G.attrs.m.get("_autoserialize") == meta_of(obj.cls))))
        for n, v in obj.fields.items():
            skipped = z3.Or(name_skipped(s.skip_names, n), type_skipped(s.skip_types, v))
            cnt = entry_count(G, n)
            out.append((f"{c}attr[{show(n)}]:written-iff-not-skipped", z3.If(skipped, B(cnt == 0), B(cnt == 1))))
        allowed = lambda k: k == "_autoserialize" or any(key_same(k, n) or (is_strsym(k) and sterm(k).eq(z3.Concat(sterm(n), SV(".is_path")))) or
                                                            (isinstance(k, str) and isinstance(n, str) and k == n + ".is_path") for n in obj.fields.keys())
        out.append((c + "frame:only-attribute-keys-written", B(all(allowed(k) for _, k in G.log))))
        for n, v in obj.fields.items():
            sub = next((g for k, g in G.groups.items() if key_same(k, n)), None)
            if sub is not None and sub.enc is not None:
                e = sub.enc
                out.append((f"{c}attr[{show(n)}]:recursive-writer-got-the-value", B(e.value is v or (isinstance(v, (set, frozenset)) and isinstance(e.value, list)))))
                out.append((f"{c}attr[{show(n)}]:recursive-writer-got-skip_names", B(e.names is s.skip_names)))
                out.append((f"{c}attr[{show(n)}]:recursive-writer-got-skip_types", B(e.types is s.skip_types)))
                out.append((f"{c}attr[{show(n)}]:recursive-writer-got-compressors", B(e.compressors is s.compressors)))
        for k, a in G.arrays.items():
            out.append((f"{c}array[{show(k)}]:compressors-reach-create_array", B(a.compressors is s.compressors)))
    return out


def rsave_modifies(ctx, s):
    G = s.group
    if not isinstance(G, AGroup):
        raise OutOfSubset("_recursive_save into a non-abstract group")
    if ctx.ghost.pop("inline_next_recursive_save", False):
        # this one call is executed through its real body (more precise than the contract): used to build root groups
        run_real(ctx, f"{AS}._recursive_save", [s.self, s.obj, G, s.skip_names, s.skip_types, s.compressors], label="root:_recursive_save",
                 writer_has_own_contract=True)
        return
    if "_autoserialize" not in G.attrs:
        G.attrs["_autoserialize"] = meta_of(s.obj.cls if isinstance(s.obj, Obj) else type(s.obj))
    G.enc = NS(kind="obj", value=s.obj, names=s.skip_names, types=s.skip_types, compressors=s.compressors)


def rsave_requires(s):
    if s.mode == "verify" or s.ctx.ghost.get("inline_next_recursive_save"):
        return []
    G = s.group
    return [("target-group-is-fresh", B(isinstance(G, AGroup) and len(G.attrs) == 0 and len(G.arrays) == 0 and len(G.groups) == 0 and G.enc is None)),
            ("obj-is-an-AutoSerialize-object", B(isinstance(s.obj, Obj)))]


C_RSAVE = Contract(f"{AS}._recursive_save", setup=rsave_setup, requires=rsave_requires, ensures=rsave_ensures, modifies=rsave_modifies,
                   recursive_by_contract=True)


# (kinds whose SAVE already fails at attribute position - npcomplex, rng with non-PCG64 bit generators - are not repeated inside containers)
CHILD_CASES_W1 = SCALAR_CASES + ARRAY_CASES + TORCH_CASES + ["pylogger", "tlogger", "rng:PCG64"] + ["list:int", "list:str", "tuple:str", "dict", "set:int", "obj"]
# storage classes for wider containers: attr scalar / attr str / path flag / array / sub-group (container, object, tensor) / None
CHILD_CLASSES = ["int", "str", "none", "path", "npfloat", "ndarray1", "tensor", "list:str", "obj"]
CHILD_SMALL = ["int", "str", "ndarray1", "list:str"]


def container_cases():
    out = [("list", ()), ("tuple", ()), ("dict", ())]
    for ct in ("list", "tuple", "dict"):
        for k in CHILD_CASES_W1:
            out.append((ct, (k,)))
    for ct in ("list", "tuple", "dict"):
        for k1 in CHILD_CLASSES:
            for k2 in CHILD_CLASSES:
                if ct != "list" and (k1 not in CHILD_SMALL or k2 not in CHILD_SMALL) and k1 != k2:
                    continue
                out.append((ct, (k1, k2)))
    for ct in ("list", "tuple", "dict"):
        for k1 in CHILD_SMALL:
            for k2 in CHILD_SMALL:
                for k3 in CHILD_SMALL:
                    if ct != "list" and not (k1 == k2 or k2 == k3):
                        continue
                    out.append((ct, (k1, k2, k3)))
    return out


CONT_CASES = container_cases()
CONT_CASES_SKIP = [("list", ("obj",)), ("tuple", ("obj",)), ("dict", ("obj",)), ("list", ("int", "obj")), ("dict", ("list:str", "obj")),
                   ("list", ("list:str",)), ("dict", ("dict",)), ("tuple", ("ndarray1", "str")), ("list", ("int", "int"))]


def cont_cases():
    return CONT_CASES_SKIP if MODE["skip"] else CONT_CASES


def mk_container(ctx, ct, kinds):
    vals = [mk_value(ctx, k, f"c{i}") for i, k in enumerate(kinds)]
    if ct == "list":
        return vals
    if ct == "tuple":
        return tuple(vals)
    keys = []
    for i in range(len(vals)):
        k = fresh_name(ctx, f"key{i}", distinct_from=keys)
        keys.append(k)
    return dict(zip(keys, vals))


def case_tag(ct, kinds):
    return f"{ct}({','.join(kinds)})"


def scont_setup(ctx):
    ct, kinds = pick(ctx, "container_case", cont_cases())
    c = mk_container(ctx, ct, kinds)
    names, types = skip_ctx(ctx)
    return NS(self=mk_obj(Box, []), value=c, group=AGroup(), skip_names=names, skip_types=types, compressors=COMP, case=case_tag(ct, kinds))


def scont_ensures(s):
    if s.mode != "verify":
        return []
    G, c = s.group, s.value
    t = f"[{s.case}]"
    out = []
    if s.mode == "verify":
        out.append((t + "container-kind-recorded", B(G.attrs.m.get("_container_type") == type(c).__name__)))
        out.append((t + "no-torch-iterable-tag", B("_torch_iterable_module_type" not in G.attrs.m.keys())))
        for k, g in G.groups.items():
            if g.enc is not None:
                e = g.enc
                out.append((f"{t}child[{show(k)}]:recursive-writer-got-skip_names", B(e.names is s.skip_names)))
                out.append((f"{t}child[{show(k)}]:recursive-writer-got-skip_types", B(e.types is s.skip_types)))
                out.append((f"{t}child[{show(k)}]:recursive-writer-got-compressors", B(e.compressors is s.compressors)))
        for k, a in G.arrays.items():
            out.append((f"{t}array[{show(k)}]:compressors-reach-the-array-writer", B(a.compressors is s.compressors)))
    return out


def scont_modifies(ctx, s):
    G = s.group
    if not isinstance(G, AGroup):
        raise OutOfSubset("_serialize_container into a non-abstract group")
    if isinstance(s.value, (list, tuple, dict)):
        G.attrs["_container_type"] = type(s.value).__name__
    G.enc = NS(kind="container", value=s.value, names=s.skip_names, types=s.skip_types, compressors=s.compressors)


def scont_requires(s):
    if s.mode == "verify":
        return []
    G = s.group
    pre_tags = [k for k in G.attrs.m.keys() if k != "_container_type"]
    return [("target-group-holds-nothing-but-a-container-tag", B(isinstance(G, AGroup) and not pre_tags and len(G.arrays) == 0 and len(G.groups) == 0 and G.enc is None)),
            ("value-is-list/tuple/dict", B(isinstance(s.value, (list, tuple, dict))))]


C_SCONT = Contract(f"{AS}._serialize_container", setup=scont_setup, requires=scont_requires, ensures=scont_ensures, modifies=scont_modifies,
                   recursive_by_contract=True, max_paths=6000)


# ------------------------------------------------------------------------------------------------
# _deserialize_container : round trip of containers (reader verified on the real writer's output)
# ------------------------------------------------------------------------------------------------


def dcont_setup(ctx):
    ct, kinds = pick(ctx, "container_case", cont_cases())
    c = mk_container(ctx, ct, kinds)
    names, types = skip_ctx(ctx)
    G = AGroup()
    tag = case_tag(ct, kinds)
    run_real(ctx, f"{AS}._serialize_container", [mk_obj(Box, []), c, G, names, types, COMP], label=f"[{tag}]_serialize_container", writer_has_own_contract=True)
    return NS(cls=Box, group=G, orig=c, case=tag, exp=NS(save_names=names, save_types=types, load_names=frozenset(), load_types=(), ctx=ctx))


def dcont_ensures(s):
    if s.mode != "verify":
        return []
    return equiv(s.result, s.orig, s.exp, f"[{s.case}]")


def dcont_requires(s):
    if s.mode == "verify":
        return []
    G = s.group
    e = G.enc if isinstance(G, AGroup) else None
    ok = e is not None and e.kind == "container"
    tag_ok = ok and G.attrs.m.get("_container_type") == type(e.value).__name__
    return [("group-was-written-by-_serialize_container", B(ok)), ("container-tag-is-the-writer's", B(tag_ok))]


def dcont_result(ctx, s):
    return Kind("loaded", rep=None, enc=s.group.enc, load_names=frozenset(), load_types=(), in_container=True)


C_DCONT = Contract(f"{AS}._deserialize_container", setup=dcont_setup, requires=dcont_requires, ensures=dcont_ensures, result=dcont_result,
                   recursive_by_contract=True, max_paths=6000)


# ------------------------------------------------------------------------------------------------
# _recursive_load : round trip at attribute position, attribute-name set, class
# ------------------------------------------------------------------------------------------------


ROOT_CASES = ["root:int", "root:ndarray1", "root:obj"]


def attr_cases():
    if MODE["skip"]:
        return ["int", "str", "path", "ndarray1", "tensor", "module", "list:str", "dict", "obj", "pylogger", "rng:PCG64", "root:int", "root:obj"]
    return ATTR_CASES + ROOT_CASES


def rload_setup(ctx):
    """Pre-state: the group that the REAL writer produced for an arbitrary object -
    `_recursive_save` for a nested group, the whole `save` (directory store) for a root group."""
    case = pick(ctx, "attr_kind", attr_cases())
    root = case.startswith("root:")
    a = fresh_name(ctx, "a", Box, distinct_from=["zz_other"])
    v = mk_value(ctx, case[5:] if root else case)
    w = ctx.fresh("w", "int")
    obj = mk_obj(Box, [(a, v), ("zz_other", w)])
    if root:
        # save() normalises `skip` itself; its own contract covers that, here it gets the names as a list
        fs = cm.GhostFS(lazy=False)
        ctx.ghost["fs"] = fs
        if MODE["skip"]:
            n1 = StrSym(z3.String(ctx.fresh_name("save_n1")))
            skip, names, types = [n1], [n1], ()
        else:
            skip, names, types = (), frozenset(), ()
        ctx.ghost["inline_next_recursive_save"] = True  # the root's _recursive_save call runs the real body, not the contract
        run_real(ctx, f"{AS}.save", [obj, "/ghost/target", "w", "dir", skip, None], label=f"[{case}]save", writer_has_own_contract=True)
        n = fs.node("/ghost/target")
        if n is None or not isinstance(n.tree, AGroup):
            ctx.prove(f"[{case}]save-created-the-root-group", z3.BoolVal(False), assume_after=False)
            raise PathEnd("no root group")
        G = n.tree
    else:
        names, types = skip_ctx(ctx)
        G = AGroup()
        run_real(ctx, f"{AS}._recursive_save", [obj, obj, G, names, types, COMP], label=f"[{case}]_recursive_save", writer_has_own_contract=True)
    if MODE["skip"]:
        lnames = cm.fresh_symset(ctx, "S_load", universe=lambda: [a, "zz_other"])
        if root:
            # load() hands the union of the user's names and the persisted ones to the root call (its own contract)
            lnames = lnames | set(names)
    else:
        lnames = frozenset()
    return NS(cls=Box, group=G, skip_names=lnames, skip_types=(), orig=obj, case=case,
              exp=NS(save_names=names, save_types=types, load_names=lnames, load_types=(), ctx=ctx))


def rload_ensures(s):
    if s.mode != "verify":
        return []
    r = s.result
    c = f"[{s.case}]"
    ok = isinstance(r, Obj) and r.cls is s.orig.cls
    out = [(c + "same-class", B(ok))]
    if ok:
        out += equiv_fields(r, s.orig, s.exp, c)
    return out


def rload_requires(s):
    if s.mode == "verify":
        return []
    G = s.group
    e = G.enc if isinstance(G, AGroup) else None
    ok = e is not None and e.kind == "obj"
    cls_ok = ok and isinstance(e.value, Obj) and e.value.cls is s.cls
    keys = [k for k in G.attrs.m.keys()] if isinstance(G, AGroup) else []
    extra = [k for k in keys if not (isinstance(k, str) and k in ("_autoserialize", "_autoserialize_skip_names", "_autoserialize_skip_types"))]
    return [("group-was-written-by-_recursive_save", B(ok)), ("class-resolved-from-the-stored-identity-is-the-object's-class", B(cls_ok)),
            ("nothing-else-was-written-into-the-group-(except-save's-skip-lists-in-a-root)", B(not extra and len(G.arrays) == 0 and len(G.groups) == 0))]


def rload_result(ctx, s):
    return Kind("loaded", rep=None, enc=s.group.enc, load_names=s.skip_names, load_types=s.skip_types)


C_RLOAD = Contract(f"{AS}._recursive_load", setup=rload_setup, requires=rload_requires, ensures=rload_ensures, result=rload_result,
                   recursive_by_contract=True)


# ------------------------------------------------------------------------------------------------
# _serialize_value : dispatch of nested AutoSerialize objects (attribute names of the nested object are arbitrary)
# ------------------------------------------------------------------------------------------------


def sval_setup(ctx):
    case = pick(ctx, "value_kind", ["obj", "obj:empty", "obj:sym", "obj:module"])
    v = mk_value(ctx, case)
    names, types = skip_ctx(ctx)
    name = fresh_name(ctx, "name", Box)
    return NS(self=mk_obj(Box, []), value=v, group=AGroup(), name=name, skip_names=names, skip_types=types, compressors=COMP, case=case)


def sval_ensures(s):
    if s.mode != "verify":
        return []
    G = s.group
    c = f"[{s.case}]"
    sub = next((g for k, g in G.groups.items() if key_same(k, s.name)), None)
    out = [(c + "frame:one-sub-group-under-name-and-nothing-else", B(sub is not None and len(G.groups) == 1 and len(G.arrays) == 0 and len(G.attrs) == 0))]
    whole = sub is not None and sub.attrs.m.get("_torch_whole_module") is True and s.case == "obj:module" and not MODE["skip"]
    if whole:
        # C01: an AutoSerialize object that is a torch module may be pickled whole (torch.save round trip, A6)
        out.append((c + "module-object-pickled-whole", B("module" in sub.arrays.keys())))
        return out
    e = sub.enc if sub is not None else None
    out.append((c + "nested-AutoSerialize-object-is-written-by-_recursive_save", B(e is not None and e.kind == "obj" and e.value is s.value)))
    if e is not None:
        out.append((c + "recursive-writer-got-skip_names", B(e.names is s.skip_names)))
        out.append((c + "recursive-writer-got-skip_types", B(e.types is s.skip_types)))
        out.append((c + "recursive-writer-got-compressors", B(e.compressors is s.compressors)))
    return out


C_SVAL = Contract(f"{AS}._serialize_value", setup=sval_setup, ensures=sval_ensures)

# ------------------------------------------------------------------------------------------------
# _is_numeric_scalar
# ------------------------------------------------------------------------------------------------

NUMERIC_KINDS = {"bool", "int", "float", "npint", "npfloat", "npbool"}


def isnum_setup(ctx):
    case = pick(ctx, "kind", LEAF_CASES + ["list:int", "tuple:int", "dict", "set:int", "npcomplex"])
    return NS(value=mk_value(ctx, case), case=case)


C_ISNUM = Contract(f"{AS}._is_numeric_scalar", setup=isnum_setup,
                   result=lambda ctx, s: cm.is_numeric_value(s.value),
                   ensures=lambda s: [] if s.mode != "verify" else
                   [(f"[{s.case}]numeric-scalar-kinds-are-int/float/bool-and-numpy-integer/floating/bool", B(bool(s.result) == (s.case in NUMERIC_KINDS)))])



# ------------------------------------------------------------------------------------------------
# save / load : store, path type, mode, compression, skip normalisation and persistence (ghost file system)
# ------------------------------------------------------------------------------------------------


def skip_forms():
    """Shapes of the `skip` argument (elements: symbolic names n1, n2 and the concrete type numpy.ndarray)."""
    if MODE["skip"]:
        return ["()", "name", "type", "[n1]", "[n1,T]", "[n1,n2]", "(n1,n1)"]
    return ["()"]


def mk_skip(ctx, form, tag):
    import numpy as np

    n1 = StrSym(z3.String(ctx.fresh_name(tag + "_n1")))
    n2 = StrSym(z3.String(ctx.fresh_name(tag + "_n2")))
    T = np.ndarray
    val = {"()": (), "name": n1, "type": T, "[n1]": [n1], "[n1,T]": [n1, T], "[n1,n2]": [n1, n2], "(n1,n1)": (n1, n1)}[form]
    names = {"()": [], "name": [n1], "type": [], "[n1]": [n1], "[n1,T]": [n1], "[n1,n2]": [n1, n2], "(n1,n1)": [n1]}[form]
    types = (T,) if form in ("type", "[n1,T]") else ()
    return val, names, types


def save_setup(ctx):
    fs = cm.GhostFS(lazy=True)
    ctx.ghost["fs"] = fs
    obj = mk_obj(Box, [("x", ctx.fresh("x", "int"))])
    p = StrSym(z3.String(ctx.fresh_name("path")))
    ctx.assume(z3.Length(p.t) >= 1)
    pathform = pick(ctx, "pathform", ["str", "Path"])
    mode = pick(ctx, "mode", ["w", "o"])
    store = pick(ctx, "store", ["auto", "zip", "dir", "bogus"])
    form = pick(ctx, "skipform", skip_forms())
    skip, names, types = mk_skip(ctx, form, "save")
    cform = pick(ctx, "compression", ["none", "int"])
    c = None if cform == "none" else ctx.fresh("compression_level", "int")
    path = p if pathform == "str" else cm.mk_kind("path", p=p)
    return NS(self=obj, path=path, param_values={"mode": mode}, store=store, skip=skip, compression_level=c, p=p, names=names, types=types,
              case=f"{pathform},{mode},{store},skip={form},compression={cform}")


def save_terms(s):
    """The property-level description of what save(path, mode, store) must address (from the docstring of save)."""
    p = s.p.t
    zipext = z3.SuffixOf(SV(".zip"), p)
    is_zip = z3.BoolVal(True) if s.store == "zip" else zipext if s.store == "auto" else z3.BoolVal(False)
    is_dir = z3.BoolVal(True) if s.store == "dir" else z3.Not(zipext) if s.store == "auto" else z3.BoolVal(False)
    bogus = s.store not in ("auto", "zip", "dir")
    c = s.compression_level
    bad_c = z3.BoolVal(False) if c is None else z3.Or(c.t < 0, c.t > 9)
    fs = s.ctx.ghost["fs"]
    exists = fs.decisions[0][1] if fs.decisions else z3.BoolVal(False)
    blocked = z3.And(exists, z3.BoolVal(s.param_values["mode"] != "o"))
    sp = s.ctx.ghost.get("splitext") or []
    ext_nonempty = z3.Length(sp[0][2].t) > 0 if sp else z3.BoolVal(False)
    return NS(zipext=zipext, is_zip=is_zip, is_dir=is_dir, bogus=bogus, bad_c=bad_c, exists=exists, blocked=blocked, ext_nonempty=ext_nonempty)


def save_raises_value(s):
    t = save_terms(s)
    return z3.Or(t.bad_c, z3.And(z3.Not(t.bad_c), z3.Not(t.blocked), z3.Or(z3.BoolVal(t.bogus), z3.And(t.is_dir, t.ext_nonempty))))


def save_raises_exists(s):
    t = save_terms(s)
    return z3.And(z3.Not(t.bad_c), t.blocked)


def save_ensures(s):
    ctx = s.ctx
    fs = ctx.ghost["fs"]
    t = save_terms(s)
    c = f"[{s.case}]"
    out = []
    live = fs.live()
    tmp_left = [k for k, n in live if isinstance(k, str) and k.startswith("/ghost-tmp/")]
    out.append((c + "no-temporary-directory-left", B(not tmp_left)))
    targets = [(k, n) for k, n in live if not (isinstance(k, str) and k.startswith("/ghost-tmp/")) and not n.initial]
    out.append((c + "exactly-one-path-written", B(len(targets) == 1)))
    if len(targets) != 1:
        return out
    k, n = targets[0]
    p = s.p.t
    want_path = z3.If(z3.And(t.is_zip, z3.Not(t.zipext)), z3.Concat(p, SV(".zip")), p)
    out.append((c + "written-path-is-the-target(+.zip-for-the-zip-store)", sterm(k) == want_path))
    out.append((c + "zip-store-writes-a-zip-file,dir-store-a-directory", z3.If(t.is_zip, B(n.kind == "zip"), B(n.kind == "dir"))))
    out.append((c + "zip-entries-archived-relative-to-the-zipped-directory", B(n.ok)))
    R = n.tree
    ok = isinstance(R, AGroup) and R.enc is not None and R.enc.kind == "obj"
    out.append((c + "root-group-written-by-_recursive_save", B(ok)))
    if not ok:
        return out
    e = R.enc
    out.append((c + "object-saved-is-self", B(e.value is s.self)))
    out.append((c + "skip-names-are-the-str-elements-of-skip", names_equiv(e.names, s.names, ctx)))
    out.append((c + "skip-types-are-the-type-elements-of-skip", B(tuple(e.types) == tuple(s.types))))
    lvl = s.compression_level
    if lvl is None:
        out.append((c + "no-compression-when-level-is-None", B(e.compressors is None)))
    else:
        cfg = e.compressors
        shape_ok = isinstance(cfg, list) and len(cfg) == 1 and isinstance(cfg[0], dict) and isinstance(cfg[0].get("configuration"), dict)
        out.append((c + "compressor-config-is-one-blosc-codec", B(shape_ok and cfg[0].get("name") == "blosc")))
        if shape_ok:
            out.append((c + "compression-level-reaches-the-codec", lift(cfg[0]["configuration"].get("clevel")) == lvl.t))
    meta_n = R.attrs.m.get("_autoserialize_skip_names")
    out.append((c + "skip-names-persisted-in-root-attrs", B(isinstance(meta_n, list)) if not isinstance(meta_n, list) else names_equiv(meta_n, s.names, ctx)))
    meta_t = R.attrs.m.get("_autoserialize_skip_types")
    out.append((c + "skip-types-persisted-as-qualified-names", B(meta_t == [f"{x.__module__}.{x.__qualname__}" for x in s.types])))
    out.append((c + "root-attrs-are-the-encoding-plus-the-two-skip-lists",
                B(sorted(k for k in R.attrs.m.keys() if isinstance(k, str)) == ["_autoserialize", "_autoserialize_skip_names", "_autoserialize_skip_types"]
                  and len(R.attrs.m) == 3)))
    return out


C_SAVE = Contract(f"{AS}.save", setup=save_setup, ensures=save_ensures,
                  raises={ValueError: save_raises_value, FileExistsError: save_raises_exists}, max_paths=6000)


def load_setup(ctx):
    fs = cm.GhostFS(lazy=False)
    ctx.ghost["fs"] = fs
    obj = mk_obj(Box, [("x", ctx.fresh("x", "int"))])
    store = pick(ctx, "store", ["zip", "dir"])
    pathform = pick(ctx, "pathform", ["str", "Path"])
    sform = pick(ctx, "save_skipform", skip_forms())
    lform = pick(ctx, "load_skipform", skip_forms())
    sskip, snames, stypes = mk_skip(ctx, sform, "save")
    lskip, lnames, ltypes = mk_skip(ctx, lform, "load")
    p = "/ghost/target.zip" if store == "zip" else "/ghost/target"
    path = p if pathform == "str" else cm.mk_kind("path", p=StrSym(SV(p)))
    case = f"{store},{pathform},save-skip={sform},load-skip={lform}"
    run_real(ctx, f"{AS}.save", [obj, path, "w", store, sskip, 4], label=f"[{case}]save")
    return NS(path=path, skip=lskip, obj=obj, snames=snames, stypes=stypes, lnames=lnames, ltypes=ltypes, case=case)


def load_ensures(s):
    ctx = s.ctx
    r = s.result
    c = f"[{s.case}]"
    ok = is_loaded(r) and r.payload["enc"].kind == "obj"
    out = [(c + "result-is-the-decoding-of-the-root-group", B(ok))]
    if not ok:
        return out
    out.append((c + "decodes-the-saved-object", B(r.payload["enc"].value is s.obj)))
    out.append((c + "load-skip-names=user-names-union-persisted-names", names_equiv(r.payload["load_names"], list(s.lnames) + list(s.snames), ctx)))
    lt = r.payload["load_types"]
    out.append((c + "load-skip-types=user-types-union-persisted-types", B(isinstance(lt, tuple) and set(lt) == set(s.ltypes) | set(s.stypes))))
    live = [k for k, n in ctx.ghost["fs"].live() if not (isinstance(k, str) and k.startswith("/ghost-tmp/"))]
    out.append((c + "frame:only-the-saved-path-exists-besides-temporaries", B(len(live) == 1)))
    return out


C_LOAD = Contract(f"{SER}:load", setup=load_setup, ensures=load_ensures)

CONTRACTS = [C_WND, C_WBYTES, C_A2NP, C_READ, C_SVAL, C_RSAVE, C_SCONT, C_DCONT, C_RLOAD, C_ISNUM, C_SAVE, C_LOAD]
INLINE_AT_CALL_SITES = [C_SVAL]  # verified on its own, but its callers keep interpreting the real body (more precise than a contract)
LEMMAS = []
BOUNDED = []
TRUSTED = []
ASSUMPTIONS = []
EXPLANATION = ""


# ------------------------------------------------------------------------------------------------
# run-time oracle: the same statement on the REAL save / load with concrete values (replay + bounded stand-in)
# ------------------------------------------------------------------------------------------------

_RT_TMP = []


def _tmpdir():
    import atexit
    import shutil
    import tempfile

    if not _RT_TMP:
        d = tempfile.mkdtemp(prefix="C01_rt_")
        _RT_TMP.append(d)
        _RT_TMP.append(0)
        atexit.register(lambda: shutil.rmtree(d, ignore_errors=True))
    _RT_TMP[1] += 1
    p = os.path.join(_RT_TMP[0], f"r{os.getpid()}_{_RT_TMP[1]}")
    os.makedirs(p)
    return p


_TORCH_FIX = {}


def _torch_fixture():
    import torch

    if not _TORCH_FIX:
        torch.manual_seed(0)
        lin = torch.nn.Linear(2, 3)
        opt = torch.optim.SGD(lin.parameters(), lr=0.1, momentum=0.5)
        _TORCH_FIX.update(module=lin, optimizer=opt, scheduler=torch.optim.lr_scheduler.StepLR(opt, 2))
    return _TORCH_FIX


NP_DTYPES = ["bool", "int8", "int16", "int32", "int64", "uint8", "uint16", "uint32", "uint64", "float16", "float32", "float64",
             "complex64", "complex128"]


def concrete(desc, dims=None):
    """Real python value for a case / grammar term.  Grammar: leaf | list(t,..) | tuple(t,..) | set(t,..) | dict(k=t,..) | obj(k=t,..) |
    ndarray:<dtype>:<d0>x<d1>.. | wide-list:<leaf>:<n> ..."""
    import logging
    import pathlib

    import numpy as np
    import torch

    d = desc.strip()
    head, sep, rest = d.partition("(")
    if sep and d.endswith(")") and head in ("list", "tuple", "set", "dict", "obj", "inner"):
        parts = _split_args(rest[:-1])
        if head in ("dict", "obj", "inner"):
            kv = {}
            for p in parts:
                k, _, t = p.partition("=")
                kv[k] = concrete(t)
            return kv if head == "dict" else (Box if head == "obj" else Inner)(**kv)
        vals = [concrete(p) for p in parts]
        return vals if head == "list" else tuple(vals) if head == "tuple" else set(vals)
    if d.startswith("ndarray:"):
        _, dt, shp = d.split(":")
        shape = tuple(int(x) for x in shp.split("x")) if shp else ()
        n = int(np.prod(shape)) if shape else 1
        base = (np.arange(n) * 3 + 1).reshape(shape) if shape else np.array(7)
        if dt.startswith("complex"):
            return (base * (1 + 2j)).astype(dt)
        if dt.startswith("U") or dt.startswith("S"):
            return base.astype(dt)
        if dt == "bool":
            return (base % 2 == 1)
        return base.astype(dt)
    if d.startswith("wide:"):
        _, ct, leaf, n = d.split(":")
        vals = [concrete(leaf + f"#{i}") for i in range(int(n))]
        return vals if ct == "list" else tuple(vals) if ct == "tuple" else {f"k{i}": v for i, v in enumerate(vals)}
    leaf, _, idx = d.partition("#")
    i = int(idx) if idx else 0
    if leaf == "none":
        return None
    if leaf == "bool":
        return i % 2 == 0
    if leaf == "int":
        return 41 + i
    if leaf == "bigint":
        return 2 ** 62 + i
    if leaf == "negint":
        return -5 - i
    if leaf == "float":
        return 2.5 + i
    if leaf == "str":
        return f"s{i}"
    if leaf == "emptystr":
        return ""
    if leaf == "unistr":
        return "é ü/∂"
    if leaf == "path":
        return pathlib.Path(f"/tmp/some dir/f{i}.txt")
    if leaf == "relpath":
        return pathlib.Path("a") / f"b{i}"
    if leaf == "npint":
        return np.int64(9 + i)
    if leaf == "npint8":
        return np.int8(-3)
    if leaf == "npuint16":
        return np.uint16(65000)
    if leaf == "npfloat":
        return np.float32(1.5 + i)
    if leaf == "npfloat64":
        return np.float64(-0.125)
    if leaf == "npfloat16":
        return np.float16(0.5)
    if leaf == "npbool":
        return np.bool_(i % 2 == 0)
    if leaf == "npcomplex":
        return np.complex64(1 + 2j)
    if leaf.startswith("ndarray") and leaf[7:].isdigit():
        nd = int(leaf[7:])
        dd = dims or {}
        default = {0: (), 1: (3,), 2: (2, 3), 3: (2, 1, 2)}[nd]
        shape = tuple(int(dd.get(j, default[j])) for j in range(nd))
        n = int(np.prod(shape)) if shape else 1
        return (np.arange(n, dtype=np.float32) * 1.5 + 1 + i).reshape(shape)
    fx = _torch_fixture()
    if leaf == "tensor":
        return torch.arange(6, dtype=torch.float64).reshape(2, 3) + i
    if leaf == "tensor_grad":
        return torch.ones(3, dtype=torch.float32, requires_grad=True)
    if leaf == "tensor_int":
        return torch.arange(4, dtype=torch.int16)
    if leaf == "tensor0":
        return torch.tensor(2.5)
    if leaf == "tensor_empty":
        return torch.zeros((0, 2))
    if leaf == "parameter":
        return torch.nn.Parameter(torch.ones(2) * (i + 1))
    if leaf in ("module", "optimizer", "scheduler"):
        return fx[leaf]
    if leaf == "other":
        return b"raw-bytes"
    if leaf == "pycomplex":
        return 3 + 4j
    if leaf == "pylogger":
        return logging.getLogger(f"c01.fixture{i}")
    if leaf == "tlogger":
        from torch.utils.tensorboard import SummaryWriter

        w = SummaryWriter(log_dir=os.path.join(_tmpdir(), "tb"))
        w.close()
        return w
    if leaf.startswith("rng:"):
        return np.random.Generator(getattr(np.random, leaf[4:])(i))
    if leaf in ("list:int", "list:str", "list:empty", "tuple:int", "tuple:str", "tuple:empty", "dict:empty", "set:int", "set:str", "set:empty", "obj:empty"):
        return {"list:int": [3, 4], "list:str": ["x", 5], "list:empty": [], "tuple:int": (3,), "tuple:str": ("x",), "tuple:empty": (), "dict:empty": {},
                "set:int": {3}, "set:str": {"x"}, "set:empty": set(), "obj:empty": Leaf()}[leaf]
    if leaf == "dict":
        return {"k": 3}
    if leaf == "obj":
        return Inner(c=5)
    raise ValueError(f"unknown grammar term {desc!r}")


def _split_args(s):
    out, depth, cur_ = [], 0, ""
    for ch in s:
        if ch == "(":
            depth += 1
        elif ch == ")":
            depth -= 1
        if ch == "," and depth == 0:
            out.append(cur_)
            cur_ = ""
        else:
            cur_ += ch
    if cur_.strip():
        out.append(cur_)
    return out


def _is_num(v):
    import numpy as np

    return isinstance(v, (int, float, bool, np.integer, np.floating, np.bool_)) and not isinstance(v, (str,))


def equiv_rt(l, o, path, out):
    """Problems (klass, where, message) of the loaded value `l` against the original `o`, in the property's sense."""
    import logging
    import pathlib

    import numpy as np
    import torch

    def bad(klass, msg):
        out.append((klass, path, msg))

    if o is None:
        if l is not None:
            bad("none", f"None came back as {type(l).__name__}")
        return
    if isinstance(o, (np.integer, np.floating, np.bool_)):
        if not _is_num(l) or not (l == o or (l != l and o != o)):
            bad("numpy-scalar numeric value", f"{o!r} came back as {l!r}")
        return
    if isinstance(o, (bool, int, float, str)):
        if type(l) is not type(o) or not (l == o or (l != l and o != o)):
            bad("python scalar", f"{o!r} ({type(o).__name__}) came back as {l!r} ({type(l).__name__})")
        return
    if isinstance(o, pathlib.PurePath):
        if not isinstance(l, pathlib.PurePath) or l != o:
            bad("path", f"{o!r} came back as {l!r}")
        return
    if isinstance(o, torch.Tensor):
        if not isinstance(l, torch.Tensor) or type(l) is not type(o):
            bad("tensor", f"{type(o).__name__} came back as {type(l).__name__}")
        elif l.dtype != o.dtype or l.requires_grad != o.requires_grad or tuple(l.shape) != tuple(o.shape) or not torch.equal(l.detach(), o.detach()):
            bad("tensor", f"dtype/requires_grad/shape/values differ: {o.dtype},{o.requires_grad},{tuple(o.shape)} -> {l.dtype},{l.requires_grad},{tuple(l.shape)}")
        return
    if isinstance(o, np.ndarray):
        if not isinstance(l, np.ndarray):
            bad("ndarray", f"ndarray came back as {type(l).__name__}")
        elif l.dtype != o.dtype:
            bad("ndarray dtype", f"dtype {o.dtype} -> {l.dtype}")
        elif l.shape != o.shape:
            bad("ndarray shape", f"shape {o.shape} -> {l.shape}")
        elif o.size and not np.array_equal(l, o, equal_nan=o.dtype.kind in "fc"):
            bad("0-d ndarray contents" if o.ndim == 0 else "ndarray contents", f"contents differ: {o.tolist()!r} -> {l.tolist()!r}"[:200])
        return
    if isinstance(o, torch.nn.Module) and not isinstance(o, AutoSerialize):
        if type(l) is not type(o):
            bad("module", f"{type(o).__name__} came back as {type(l).__name__}")
        else:
            so, sl = o.state_dict(), l.state_dict()
            if list(so) != list(sl) or any(not torch.equal(so[k], sl[k]) for k in so):
                bad("module", "state_dict differs")
        return
    if isinstance(o, torch.optim.Optimizer) or (hasattr(o, "step") and hasattr(o, "get_last_lr")):
        if type(l) is not type(o) or repr(l.state_dict()) != repr(o.state_dict()):
            bad("optimizer/scheduler", f"{type(o).__name__} came back as {type(l).__name__} or with another state")
        return
    if isinstance(o, np.random.Generator):
        if not isinstance(l, np.random.Generator) or type(l.bit_generator) is not type(o.bit_generator):
            bad("rng kind", f"{o!r} came back as {l!r}")
        return
    if isinstance(o, logging.Logger):
        if not isinstance(l, logging.Logger):
            bad("logger kind", f"Logger came back as {type(l).__name__}")
        return
    if type(o).__name__ == "SummaryWriter":
        if type(l) is not type(o):
            bad("logger kind", f"SummaryWriter came back as {type(l).__name__}")
        return
    if isinstance(o, AutoSerialize):
        if type(l) is not type(o):
            bad("class", f"{type(o).__name__} came back as {type(l).__name__}")
            return
        vo, vl = vars(o), vars(l)
        for k in vo:
            if k not in vl:
                bad("attribute missing", f"attribute {k!r} missing after load")
            else:
                equiv_rt(vl[k], vo[k], f"{path}.{k}", out)
        for k in vl:
            if k not in vo:
                klass = "extra attribute _autoserialize_skip_*" if k in ("_autoserialize_skip_names", "_autoserialize_skip_types") else "extra attribute"
                out.append((klass, f"{path}.{k}", f"loaded object has an attribute {k!r} the original does not have"))
        return
    if isinstance(o, (list, tuple)):
        if type(l) is not type(o):
            bad("container kind", f"{type(o).__name__} came back as {type(l).__name__}")
            if not isinstance(l, (list, tuple)):
                return
        if len(l) != len(o):
            bad("container length", f"length {len(o)} -> {len(l)}")
            return
        if len(o) > 0 and all(_is_num(v) for v in o):
            if not all(_is_num(x) and (x == y) for x, y in zip(l, o)):
                bad("all-numeric sequence values", f"{o!r} -> {l!r}"[:200])
            return
        for i, (x, y) in enumerate(zip(l, o)):
            equiv_rt(x, y, f"{path}[{i}]", out)
        return
    if isinstance(o, dict):
        if type(l) is not dict:
            bad("container kind", f"dict came back as {type(l).__name__}")
            return
        for k in o:
            if k not in l:
                bad("dict key missing", f"key {k!r} missing after load")
            else:
                equiv_rt(l[k], o[k], f"{path}[{k!r}]", out)
        for k in l:
            if k not in o:
                bad("dict extra key", f"extra key {k!r} after load")
        return
    if isinstance(o, (set, frozenset)):
        if type(l) is not type(o):
            bad("set -> " + type(l).__name__, f"{type(o).__name__} came back as {type(l).__name__}")
        try:
            if set(l) != set(o):
                bad("set elements", f"{o!r} -> {l!r}"[:200])
        except TypeError:
            bad("set elements", f"{o!r} -> {l!r}"[:200])
        return
    if type(l) is not type(o) or l != o:
        bad("other (dill) value", f"{o!r} came back as {l!r}"[:200])


def real_roundtrip(obj, store="zip", compression=4, pathtype="str", mode="w", skip_save=(), skip_load=(), resave=False):
    """save -> load on the real code; returns (loaded | None, problems-from-exceptions)."""
    import contextlib
    import io as _io
    import pathlib
    import warnings

    from quantem.core.io.serialize import load

    d = _tmpdir()
    p = os.path.join(d, "x.zip" if store == "zip" else "x")
    target = pathlib.Path(p) if pathtype == "Path" else p
    with warnings.catch_warnings(), contextlib.redirect_stdout(_io.StringIO()):
        warnings.simplefilter("ignore")
        try:
            if mode == "o":
                Leaf().save(target, mode="w", store=store)
            obj.save(target, mode=mode, store=store, skip=skip_save, compression_level=compression)
        except Exception as e:
            return None, [("save raises " + type(e).__name__, "", f"save raised {type(e).__name__}: {str(e)[:150]}")]
        try:
            r = load(target, skip=skip_load)
        except Exception as e:
            return None, [("load raises " + type(e).__name__, "", f"load raised {type(e).__name__}: {str(e)[:150]}")]
        if resave:
            try:
                p2 = os.path.join(d, "y.zip" if store == "zip" else "y")
                r.save(p2, store=store, compression_level=compression)
                r2 = load(p2)
            except Exception as e:
                return r, [("fixed point: re-save/re-load raises", "", f"{type(e).__name__}: {str(e)[:150]}")]
            return (r, r2), []
    return r, []


def refine_klass(klass, where, obj, descs):
    """Attach the position (inside a container or not) to exception classes, from the description of the offending value."""
    return klass


def rt_values(inp):
    """Round trip of Box(v0=.., v1=.., ...) built from grammar terms; one failure class can be selected with inp['only_class']."""
    descs = inp["values"]
    kw = dict(store=inp.get("store", "zip"), compression=inp.get("compression", 4), pathtype=inp.get("pathtype", "str"), mode=inp.get("mode", "w"))
    problems = []
    obj = Box(**{f"v{i}": concrete(dsc, inp.get("dims")) for i, dsc in enumerate(descs)})
    r, exc = real_roundtrip(obj, resave=inp.get("resave", False), **kw)
    if exc and len(descs) > 1:
        # attribute the exception to the value(s) that cause it
        for i, dsc in enumerate(descs):
            r1, e1 = real_roundtrip(Box(v=concrete(dsc, inp.get("dims"))), **kw)
            for k, w, m in e1:
                problems.append((k + " [" + kind_class(dsc) + "]", f".v{i}", f"{dsc}: {m}"))
        if not problems:
            problems += exc
    elif exc:
        problems += [(k + " [" + kind_class(descs[0]) + "]", w, f"{descs[0]}: {m}") for k, w, m in exc]
    else:
        if inp.get("resave"):
            r, r2 = r
            equiv_rt(r2, r, "reloaded", problems)
            problems = [("fixed point: " + k, w, m) for k, w, m in problems if not k.startswith("extra attribute _autoserialize_skip")]
            p1 = []
            equiv_rt(r, obj, "", p1)
            problems += p1
        else:
            equiv_rt(r, obj, "", problems)
    only = inp.get("only_class")
    if only:
        problems = [p for p in problems if p[0] == only]
    return problems


def kind_class(desc):
    """coarse class of a grammar term, used to name failure classes"""
    d = desc.strip()
    head = d.partition("(")[0]
    if head in ("list", "tuple", "dict", "set") and "(" in d:
        inner = d[len(head) + 1:-1]
        for k in ("rng:", "set(", "set:", "npcomplex", "ndarray0", "ndarray::", "other", "pycomplex", "optimizer", "scheduler"):
            if k in inner:
                return f"{k.rstrip('(:')} inside a container"
        return head
    if d.startswith("rng:"):
        return d
    return d.partition("#")[0].partition(":")[0]


def rt_case(inp):
    """Replay of one symbolic case on the real code: the case's value at attribute position / inside a container."""
    pos = inp.get("position", "attr")
    kinds = inp["kinds"]
    if pos in ("attr", "root"):
        descs = [kinds[0]]
    elif pos == "dict":
        descs = ["dict(" + ",".join(f"key{i}={k}" for i, k in enumerate(kinds)) + ")"]
    else:
        descs = [f"{pos}(" + ",".join(kinds) + ")"]
    probs = rt_values(dict(values=descs + ["int"], dims=inp.get("dims"), store=inp.get("store", "zip")))
    probs = [p for p in probs if not p[0].startswith("extra attribute _autoserialize_skip")] if pos != "root" else probs
    return dict(violated=bool(probs), observed="; ".join(f"{k} at {w}: {m}" for k, w, m in probs[:3]) or "ok",
                expected="load(save(x)) has the same class, attribute names and structurally equal values")


def rt_array(inp):
    """Replay for the array reader/writer pair on a real zarr group."""
    import tempfile

    import numpy as np
    import zarr
    from zarr.storage import LocalStore

    arr = concrete(inp["kinds"][0], inp.get("dims")) if inp["kinds"][0] != "bytes" else None
    d = _tmpdir()
    g = zarr.group(store=LocalStore(d), overwrite=True)
    problems = []
    try:
        if arr is None:
            data = b"\x01\x02\x03" * int(inp.get("nbytes", 1) > 0)
            AutoSerialize._write_bytes(g, "x", data)
            back = AutoSerialize._read_array_np(zarr.group(store=LocalStore(d)), "x")
            if back.tobytes() != data:
                problems.append(("bytes", "", f"{data!r} -> {back.tobytes()!r}"))
        else:
            AutoSerialize._write_ndarray(g, "x", arr)
            back = AutoSerialize._read_array_np(zarr.group(store=LocalStore(d)), "x")
            equiv_rt(back, arr, "", problems)
    except Exception as e:
        problems.append(("raises", "", f"{type(e).__name__}: {e}"))
    return dict(violated=bool(problems), observed="; ".join(f"{k}: {m}" for k, w, m in problems) or "ok",
                expected="_read_array_np(_write_ndarray(a)) has a's dtype, shape and contents")


def _dims(ev, tag, nd):
    out = {}
    for j in range(nd):
        v = ev(f"{tag}_d{j}")
        if isinstance(v, int) and 0 <= v <= 6:
            out[j] = v
    return out


def conc_attr(ev):
    i = ev("attr_kind")
    if i is None:
        return None
    case = attr_cases()[i]
    pos = "attr"
    if case.startswith("root:"):
        pos, case = "root", case[5:]
    nd = int(case[7:]) if case.startswith("ndarray") else 0
    return dict(position=pos, kinds=[case], dims=_dims(ev, "v", nd))


def conc_cont(ev):
    i = ev("container_case")
    if i is None:
        return None
    ct, kinds = cont_cases()[i]
    return dict(position=ct, kinds=list(kinds))


def conc_array(ev):
    i = ev("stored")
    cases = ARRAY_CASES + ["bytes"]
    if i is None:
        i = ev("ndim")
        if i is None:
            return None
    case = cases[i]
    if case == "bytes":
        return dict(kinds=["bytes"], nbytes=ev("nbytes", 1))
    return dict(kinds=[case], dims=_dims(ev, "arr", int(case[7:])))


def fam_attr():
    for c in ATTR_CASES:
        yield dict(position="attr", kinds=[c])


def fam_cont():
    for ct, kinds in CONT_CASES[:120]:
        yield dict(position=ct, kinds=list(kinds))


def fam_array():
    for c in ARRAY_CASES:
        yield dict(kinds=[c])
        if c != "ndarray0":
            yield dict(kinds=[c], dims={0: 0})
    yield dict(kinds=["bytes"], nbytes=0)
    yield dict(kinds=["bytes"], nbytes=3)


for _c in (C_WND, C_WBYTES, C_A2NP, C_READ):
    _c.concretize, _c.rt, _c.rt_family = conc_array, rt_array, None
for _c in (C_RSAVE, C_RLOAD):
    _c.concretize, _c.rt, _c.rt_family = conc_attr, rt_case, None
for _c in (C_SCONT, C_DCONT):
    _c.concretize, _c.rt, _c.rt_family = conc_cont, rt_case, None
