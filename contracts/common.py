"""Shared helpers for contract modules."""
from __future__ import annotations

import z3

from pyvc import values as V
from pyvc.values import Sym, SymArr, Obj, S, lift
from pyvc.lib import base_registry
from pyvc.lib import numpy_ as np_models


def registry():
    reg = base_registry()
    np_models.install(reg)

    def gi(interp, base, key):
        if isinstance(key, slice) and hasattr(base, "mem"):
            return np_models.slice_index_array(base, key)
        return NotImplemented

    reg.getitem_models[SymArr] = gi
    return reg


def ceil_div(a, b):
    """⌈a/b⌉ for b > 0 on Int terms."""
    a, b = lift(a), lift(b)
    return (a + b - 1) / b


def zmin(a, b):
    a, b = lift(a), lift(b)
    return z3.If(a <= b, a, b)


def zmax(a, b):
    a, b = lift(a), lift(b)
    return z3.If(a >= b, a, b)


def forall(vars_, body, patterns=None):
    if not isinstance(vars_, (list, tuple)):
        vars_ = [vars_]
    if patterns:
        return z3.ForAll(list(vars_), body, patterns=patterns)
    return z3.ForAll(list(vars_), body)


def implies(a, b):
    return z3.Implies(lift(a), lift(b))


def AND(*xs):
    return z3.And(*[lift(x) for x in xs])


def OR(*xs):
    return z3.Or(*[lift(x) for x in xs])


def NOT(x):
    return z3.Not(lift(x))


def opt_int(ctx, name, lo=None):
    """Optional[int] parameter: forks on None / integer."""
    isnone = ctx.fresh(name + "_is_none", "bool")
    if ctx.branch(isnone.t):
        return None
    v = ctx.fresh(name, "int")
    if lo is not None:
        ctx.assume(v.t >= lo)
    return v
