"""Shared helpers for contract modules."""
from __future__ import annotations

import z3

from pyvc import values as V
from pyvc.values import Sym, SymArr, Obj, S, lift
from pyvc.lib import base_registry
from pyvc.lib import numpy_ as np_models


def registry():
    reg = base_registry()
    np_models.install(reg)

    def gi(interp, base, key):
        if isinstance(key, slice) and hasattr(base, "mem"):
            return np_models.slice_index_array(base, key)
        return NotImplemented

    reg.getitem_models[SymArr] = gi
    return reg


def ceil_div(a, b):
    """⌈a/b⌉ for b > 0 on Int terms."""
    a, b = lift(a), lift(b)
    return (a + b - 1) / b


def zmin(a, b):
    a, b = lift(a), lift(b)
    return z3.If(a <= b, a, b)


def zmax(a, b):
    a, b = lift(a), lift(b)
    return z3.If(a >= b, a, b)


def forall(vars_, body, patterns=None):
    if not isinstance(vars_, (list, tuple)):
        vars_ = [vars_]
    if patterns:
        return z3.ForAll(list(vars_), body, patterns=patterns)
    return z3.ForAll(list(vars_), body)


def implies(a, b):
    return z3.Implies(lift(a), lift(b))


def AND(*xs):
    return z3.And(*[lift(x) for x in xs])


def OR(*xs):
    return z3.Or(*[lift(x) for x in xs])


def NOT(x):
    return z3.Not(lift(x))


def opt_int(ctx, name, lo=None):
    """Optional[int] parameter: forks on None / integer."""
    isnone = ctx.fresh(name + "_is_none", "bool")
    if ctx.branch(isnone.t):
        return None
    v = ctx.fresh(name, "int")
    if lo is not None:
        ctx.assume(v.t >= lo)
    return v


# ---- frame clauses: "the caller's arguments are read only" ------------------------------------------------------------------
def frame_snapshot(s, names):
    """Entry signature of the named setup values (use as / inside Contract(snapshot=...)): arrays by write counter + content
    function, objects by the identity of their field values, lists / dicts by length + element identity.  Together with
    `frame_clauses` this turns "the function does not write into what it was given" into ordinary postconditions, so an edit
    that starts mutating an argument in place (x.add_(..), x[m] = .., d.update(..), lst.append(..)) fails a named obligation."""
    from pyvc.interp import _value_signature

    return {k: _value_signature(getattr(s, k)) for k in names if getattr(s, k, None) is not None}


def frame_clauses(s, snap, label=None):
    """[(label, bool)] - one clause per snapshotted value: its signature at exit equals the one at entry."""
    from pyvc.interp import _value_signature

    label = label or {}
    return [(f"frame:the-caller's-{label.get(k, k)}-is-not-written", _value_signature(getattr(s, k)) == sig) for k, sig in snap.items()]
