"""C08 - failed saves leave no loadable partial object; write-once never overwrites; only the target path changes.

Contracts on the REAL `AutoSerialize.save` and its callees over a ghost filesystem (pyvc/lib/c08_models.py):

  FS : path -> absent | file | dir      old state = uninterpreted functions of the path string, new state = old state
                                        overridden by the writes the library models record while the body is interpreted
  loadable(FS[p])   what `load` needs: p is a directory whose root group attrs contain `_autoserialize`, or a readable
                    zip archive that contains the root `zarr.json` of such a group
  complete(FS[p],o) loadable and every non-skipped attribute of o has been serialised (ghost `done`, set only by a normally
                    returning `_serialize_value`); for a zip: every file of the staged tree is in the archive under its
                    relative name and the tree was not modified after it was enumerated.  A SUCCESSFUL save must in addition
                    have written the skip metadata (`full=True`).

The global invariant is  Inv(FS): forall q. loadable(FS[q]) => complete(FS[q])  ("no partial object is loadable").
`save` must preserve it on EVERY exit (normal and exceptional), must not touch any q != target, and in write-once mode
must leave an existing target alone.  Every state-changing library call and every callee may fail (forked path, one
fault per path, three disjoint exception classes), inside loops "at any iteration" through the invariants.
"""
from __future__ import annotations

import contextlib
import hashlib
import io
import json
import os
import shutil
import tempfile

import z3

from pyvc import values as V
from pyvc.values import Sym, Obj, lift
from pyvc.interp import NS, LoopSpec, GhostGen, RaiseSig
from pyvc.registry import Contract, resolve
from pyvc.runner import Lemma, Bounded
from pyvc.lib import c08_models as M
from .common import registry, forall, implies, AND, OR, NOT, opt_int

LEVEL = "proof"
SER = "quantem.core.io.serialize"
AS = resolve(f"{SER}:AutoSerialize")
STR, INT, BOOL = z3.StringSort(), z3.IntSort(), z3.BoolSort()
SV = z3.StringVal

MARKER = "_autoserialize"
SKIPN = "_autoserialize_skip_names"
SKIPT = "_autoserialize_skip_types"


class _Probe(AS):
    """Plain (non-attrs) AutoSerialize subclass: the class of `self` / `obj` in the symbolic runs and of the objects
    saved by the run-time oracle (module-level so that `load` can import it)."""

    def __init__(self, **kw):
        self.__dict__.update(kw)


class _ProbeOld(AS):
    def __init__(self, **kw):
        self.__dict__.update(kw)


# ------------------------------------------------------------------------------------------------
# abstract object graph: the attribute list of an object (symbolic length), abstract attribute values
# ------------------------------------------------------------------------------------------------


class Items:
    """Ghost attribute list of one object: n attributes, NAME(i) their (pairwise distinct) names,
    SKIPTYPE(i): the value is an instance of one of the skip types, UNSER(i): the value cannot be serialised."""

    def __init__(self, ctx, tag):
        t = ctx.fresh_name(tag)
        self.n = z3.Int(f"{t}_nattrs")
        self.NAME = z3.Function(f"{t}_name", INT, STR)
        self.SKIPTYPE = z3.Function(f"{t}_skiptype", INT, BOOL)
        self.UNSER = z3.Function(f"{t}_unser", INT, BOOL)
        ctx.assume(self.n >= 0)


def items_of(ctx, obj):
    if isinstance(obj, Obj):
        it = obj.fields.get("$items")
        if it is None:
            it = Items(ctx, "obj")
            obj.fields["$items"] = it
        return it
    if isinstance(obj, GhostInstance):
        return obj.items
    cache = ctx.ghost.setdefault("c08.items", {})
    if id(obj) not in cache:
        cache[id(obj)] = (obj, Items(ctx, "cobj"))  # a concrete representative: its attribute list stays abstract
    return cache[id(obj)][1]


class AbsValue:
    """Abstract attribute value number `idx` of an object."""

    _pyvc_value = True

    def __init__(self, items, idx):
        self.items = items
        self.idx = idx
        self.skiptype = items.SKIPTYPE(idx)
        self.unser = items.UNSER(idx)


class ItemsGen(GhostGen):
    """`obj.__dict__.items()` with a symbolic number of entries."""

    def __init__(self, items):
        super().__init__([("family", None, None, None, "items")])
        self.it = items

    def concrete_list_or_none(self):
        return None

    def family(self):
        it = self.it
        return Sym(it.n), lambda k: (Sym(it.NAME(lift(k))), AbsValue(it, lift(k)))


class GhostDict:
    _pyvc_value = True

    def __init__(self, items):
        self._items = items

    def items(self):
        return ItemsGen(self._items)


class GhostInstance:
    """An arbitrary instance of a plain class: `__class__`, `__dict__` only."""

    _pyvc_value = True

    def __init__(self, items):
        self.items = items


class GhostNameSet:
    """An arbitrary set of names (skip_names): membership is an uninterpreted predicate."""

    _pyvc_value = True

    def __init__(self, ctx):
        self.IN = z3.Function(ctx.fresh_name("skip_names"), STR, BOOL)


class GhostTypeTuple:
    """An arbitrary tuple of types (skip_types); `isinstance(v, it)` is the value's SKIPTYPE flag."""

    _pyvc_value = True


def skip_term(skip_names, skip_types, it, i):
    """`attr_name in skip_names or isinstance(attr_value, skip_types)` for attribute i, as a term."""
    nm = it.NAME(i)
    if isinstance(skip_names, GhostNameSet):
        a = skip_names.IN(nm)
    else:
        a = OR(*[nm == M.sterm(c) for c in skip_names]) if skip_names else z3.BoolVal(False)
    if isinstance(skip_types, GhostTypeTuple):
        b = it.SKIPTYPE(i)
    else:
        b = it.SKIPTYPE(i) if skip_types else z3.BoolVal(False)
    return OR(a, b)


def saved_formula(done, it, skip_names, skip_types, upto=None):
    """Every non-skipped attribute (of the first `upto`, default all) is completely serialised."""
    i = z3.Int("i!saved")
    hi = it.n if upto is None else lift(upto)
    return forall(i, implies(AND(i >= 0, i < hi, NOT(skip_term(skip_names, skip_types, it, i))), z3.Select(done, it.NAME(i))),
                  patterns=[it.NAME(i)])


def names_distinct(it):
    i, j = z3.Int("i!d"), z3.Int("j!d")
    return forall([i, j], implies(AND(i >= 0, j >= 0, i < it.n, j < it.n, i != j), it.NAME(i) != it.NAME(j)))


def grows(old, new, tag):
    q = z3.String(f"q!{tag}")
    return forall(q, implies(z3.Select(old, q), z3.Select(new, q)), patterns=[z3.Select(new, q)])


def group_snapshot(g):
    return NS(**{f: getattr(g, f) for f in M.FIELDS})


def group_grew(old, g):
    return AND(*[grows(getattr(old, f), getattr(g, f), f) for f in M.FIELDS])


def saved_term(g, it, skip_names, skip_types):
    """`every non-skipped attribute of the object is completely serialised in g`.  At call sites of `_recursive_save` the
    statement is carried as an abbreviation (an uninterpreted predicate of the `done` map introduced by that call for exactly
    this object and these skip lists); `_recursive_save`'s own verification proves the quantified formula it abbreviates."""
    tok = getattr(g, "saved_token", None)
    if tok is not None and tok[1] is it and tok[2] == skip_names and tok[3] == skip_types:
        return tok[0](g.done)
    return saved_formula(g.done, it, skip_names, skip_types)


def group_complete(g, it, skip_names, skip_types, full=False):
    """The group holds a complete object: the marker and every non-skipped attribute.  `full`: and the skip metadata
    (what a SUCCESSFUL save must leave; a target that lacks only the skip lists is not 'an object missing attributes')."""
    if g is None:
        return z3.BoolVal(False)
    c = AND(z3.Select(g.A, SV(MARKER)), saved_term(g, it, skip_names, skip_types))
    if full:
        c = AND(c, z3.Select(g.A, SV(SKIPN)), z3.Select(g.A, SV(SKIPT)))
    return c


def group_loadable(g):
    if g is None:
        return z3.BoolVal(False)
    return z3.Select(g.A, SV(MARKER))


# ------------------------------------------------------------------------------------------------
# registry
# ------------------------------------------------------------------------------------------------


def make_registry():
    reg = registry()
    M.install(reg)
    from pyvc.lib import super_

    super_.install(reg)  # zero-argument super() (the Ptychography.save wrapper delegates with `super().save(...)`)
    for c in CONTRACTS + APPLY_ONLY:
        reg.add_contract(c)
    # collaborator of the Ptychography.save wrapper: moves tensors between devices, no filesystem access (TRUSTED)
    reg.opaque_calls = set(getattr(reg, "opaque_calls", ())) | {PTY_TO}

    def isinstance_model(interp, x, t):
        if isinstance(x, AbsValue):
            if isinstance(t, GhostTypeTuple):
                return Sym(x.skiptype)
            if isinstance(t, tuple) and not t:
                return False
            if isinstance(t, tuple):
                return Sym(x.skiptype)
            raise V.OutOfSubset("isinstance of an abstract attribute value against a concrete type")
        return NotImplemented

    reg.isinstance_model = isinstance_model

    def attr_instance(interp, base, name):
        if name == "__class__":
            return _Probe
        if name == "__dict__":
            return GhostDict(base.items)
        raise RaiseSig(AttributeError(name))

    reg.attr_models[GhostInstance] = attr_instance

    def contains_names(interp, container, item):
        return Sym(container.IN(M.sterm(item)))

    reg.contains_models[GhostNameSet] = contains_names

    # The zip-assembly loops are recognised by WHAT they iterate over (the ghost os.walk enumeration / the file list of one
    # of its steps), not by the function they sit in: moving the block into a helper keeps the rule and the obligation names.
    if not hasattr(reg, "loop_models"):
        reg.loop_models = {}

    def walk_loop(frame, spec):
        def handler(interp, node, env, it):
            interp.ctx.frames.append(frame)
            try:
                interp.symbolic_loop(node, env, spec, kind="for", iterable=it)
            finally:
                interp.ctx.frames.pop()
            return None

        return handler

    reg.loop_models[M.WalkGen] = walk_loop("zip-assembly:for-each-directory-of-os.walk", LoopSpec(inv=save_outer_inv, havoc={"zip": havoc_zip}))
    reg.loop_models[M.WalkFiles] = walk_loop("zip-assembly:for-each-file-of-the-directory", LoopSpec(inv=save_inner_inv, havoc={"zip": havoc_zip}))
    return reg


def faulted(s):
    return bool(M.world(s.ctx).faults)


def _global_state():
    """Process-global mutable state of the serializer (mutable class attributes of AutoSerialize, mutable module globals):
    what a call could leave behind for the NEXT save.  The interpreter runs such concrete containers natively."""
    import copy
    import sys

    out = {}
    mod = sys.modules[AS.__module__]
    for owner, ns in (("AutoSerialize", vars(AS)), ("serialize", vars(mod))):
        for k, v in ns.items():
            if isinstance(v, (set, list, dict, bytearray)) and not (k.startswith("__") and k.endswith("__")):
                out[f"{owner}.{k}"] = (v, copy.deepcopy(v))
    return out


_GLOBAL0 = _global_state()  # as imported, before anything was run


def reset_global_state():
    """Every symbolic path starts from the imported state (paths must not see what another path left behind)."""
    for k, (live, snap) in _global_state().items():
        ref = _GLOBAL0.get(k, (None, type(live)()))[1]
        if live != ref:
            live.clear()
            (live.extend if isinstance(live, (list, bytearray)) else live.update)(ref)


def global_state_restored():
    """The call left no process-global state behind (so it cannot influence a later save of the same or another object)."""
    cur = _global_state()
    return all(live == _GLOBAL0.get(k, (None, type(live)()))[1] for k, (live, _s) in cur.items())


def state_clause():
    return ("no-process-global-state-left-behind", global_state_restored())


def handlers_of(*qualnames):
    """(does the CURRENT source contain a `try`?, the exception classes named in its `except` clauses) over the given
    functions (the one under verification and whatever is inlined into it).  Read from the AST at check time."""
    import ast
    import builtins

    from pyvc.interp import func_ast

    has_try, classes = False, []
    for qn in qualnames:
        fn = resolve(qn)
        node = func_ast(fn)[0]
        globs = getattr(fn, "__globals__", {})

        def ev(e):
            if isinstance(e, ast.Tuple):
                return [c for x in e.elts for c in ev(x)]
            try:
                v = eval(compile(ast.Expression(e), "<handler>", "eval"), dict(vars(builtins)), dict(globs))  # names only
            except Exception:  # noqa: BLE001
                return []
            return list(v) if isinstance(v, tuple) else [v]

        for n in ast.walk(node):
            if isinstance(n, ast.Try):
                has_try = True
                for h in n.handlers:
                    classes += [BaseException] if h.type is None else ev(h.type)
    return has_try, [c for c in classes if isinstance(c, type) and issubclass(c, BaseException)]


def set_fault_model(w, *qualnames):
    """The class of a fault is observable only through `except` clauses: without a `try` one class suffices; otherwise the
    standard three plus one per class the handlers name (so that `except ValueError:` is really taken on some path)."""
    has_try, classes = handlers_of(*qualnames)
    w.handlers_in_scope = has_try
    w.fault_classes = M.fault_classes_for_handlers(classes)


def fault_is(s, C):
    """The fault injected on this path is an instance of C (it then also matches the function's own `raises[C]` entry)."""
    w = M.world(s.ctx)
    return bool(w.faults) and w.fault_class is not None and issubclass(w.fault_class, C)


def fault_raises(cond):
    return {M.FaultMarkerBase: cond}


# ------------------------------------------------------------------------------------------------
# AutoSerialize.save
# ------------------------------------------------------------------------------------------------


def P(s, name):
    return s.param_values[name]


def save_setup_case(storekind, compkind, dang=None):
    """One case of the input space per Contract object (they are verified in parallel): which store the arguments resolve
    to (zip / dir / neither) x compression_level None / int x the target is / is not a dangling symlink (dang=None: both,
    forked).  The cases are exhaustive; everything else stays symbolic."""

    def save_setup(ctx):
        w = M.world(ctx)
        reset_global_state()
        set_fault_model(w, f"{SER}:AutoSerialize.save")
        path = ctx.fresh("path", "str")
        mode = ctx.fresh("mode", "str")
        store = ctx.fresh("store", "str")
        comp = None if compkind == "none" else ctx.fresh("compression_level", "int")
        me = Obj(_Probe, {})
        s = NS(self=me, path=path, store=store, skip=(), compression_level=comp, world=w)
        s.param_values = dict(self=me, path=path, mode=mode, store=store, skip=(), compression_level=comp)
        s.items = items_of(ctx, me)
        s.storekind = storekind
        ctx.assume({"zip": zip_store(s), "dir": dir_store(s), "none": NOT(OR(zip_store(s), dir_store(s)))}[storekind])
        # the two paths the caller's argument can denote (used by the freshness contract of TemporaryDirectory)
        ctx.ghost["c08.named_paths"] = [path, Sym(z3.Concat(path.t, SV(".zip")))]
        # ghost constant: the kind of the real target before the call (read back by `concretize`)
        s.k_target = ctx.fresh("target_kind", "int")
        ctx.assume(s.k_target.t == w.fs.K0(save_target(s)))
        s.dang_target = ctx.fresh("target_is_dangling_link", "bool")
        ctx.assume(s.dang_target.t == w.fs.DANG0(save_target(s)))
        # ... and, if it is a directory, the length of its listing (0 = an existing EMPTY directory: an existing target too)
        s.n_target = ctx.fresh("target_dir_entries", "int")
        ctx.assume(s.n_target.t == w.fs.NENT0(save_target(s)))
        # case split (obligation names of the dangling-link case carry a tag, all other names are unaffected)
        w.fs.mention(save_target(s))
        if dang is None:
            s.dangling = bool(ctx.branch(s.dang_target.t))
        else:
            ctx.assume(s.dang_target.t == z3.BoolVal(dang))
            s.dangling = dang
        s.case = "target-is-a-dangling-symlink" if s.dangling else None
        return s

    return save_setup


def ends_zip(s):
    return z3.SuffixOf(SV(".zip"), P(s, "path").t)


def zip_store(s):
    st = P(s, "store").t
    return OR(st == SV("zip"), AND(st == SV("auto"), ends_zip(s)))


def dir_store(s):
    st = P(s, "store").t
    return OR(st == SV("dir"), AND(st == SV("auto"), NOT(ends_zip(s))))


def save_target(s):
    """The path `save` is documented to write: '.zip' is appended when the zip store is used on a path without it."""
    p = P(s, "path").t
    return z3.If(AND(zip_store(s), NOT(ends_zip(s))), z3.Concat(p, SV(".zip")), p)


def comp_ok(s):
    c = P(s, "compression_level")
    return z3.BoolVal(True) if c is None else AND(lift(c) >= 0, lift(c) <= 9)


def blocked(s):
    """Write-once: the target exists and the mode is not 'o'."""
    fs = s.world.fs
    t = save_target(s)
    # "exists" = the directory entry exists: a file, a directory WHATEVER its listing holds (fs.NENT0(t) does not occur here:
    # an empty directory is an existing target), a symbolic link (a dangling one too)
    return AND(OR(fs.K0(t) != M.ABSENT, fs.DANG0(t)), P(s, "mode").t != SV("o"))


def save_requires(s):
    """Inv(FS) - every loadable path holds a complete object - and well-formedness of the old state, instantiated at the two
    paths the argument can denote (the generalisation to all paths is the property-level lemma)."""
    fs = s.world.fs
    out = []
    for nm, q in (("path", P(s, "path").t), ("path+.zip", z3.Concat(P(s, "path").t, SV(".zip")))):
        out.append((f"Inv(FS) at {nm}: loadable => complete", implies(fs.L0(q), fs.C0(q))))
        out.append((f"FS well-formed at {nm}", AND(fs.K0(q) >= 0, fs.K0(q) <= 2, implies(fs.L0(q), fs.K0(q) != M.ABSENT))))
    return out


# ---- node -> terms -------------------------------------------------------------------------------


ZJ = SV("zarr.json")


def zip_loadable(s, zf):
    """A readable archive that contains a root `zarr.json`, staged from a group carrying the `_autoserialize` attribute."""
    if not zf.valid:
        return z3.BoolVal(False)
    marker = OR(*[group_loadable(g) for g in s.world.roots]) if s.world.roots else z3.BoolVal(False)
    return AND(z3.Select(zf.names, ZJ), marker)


def zip_complete(s, zf, full=False):
    """Readable, holds exactly the files of the enumerated tree under their relative names, the tree is a complete group
    and was not modified after it was enumerated."""
    if not zf.valid:
        return z3.BoolVal(False)
    alts = []
    for wk in s.world.walks:
        g = wk.group
        if g is None or g.stamp != wk.stamp or getattr(zf, "expect_walk", None) is not wk:
            continue  # no group tree under the walked directory / modified after enumeration / archive not compared with it
        alts.append(AND(group_complete(g, s.items, set(), (), full), zf.count == wk.total(), zf.conforms))
    return OR(*alts) if alts else z3.BoolVal(False)


def node_loadable(s):
    fs = s.world.fs

    def f(node):
        if isinstance(node, M.Absent):
            return z3.BoolVal(False)
        if isinstance(node, M.DirNode):
            return group_loadable(node.group)
        if isinstance(node, M.ZipNode):
            return zip_loadable(s, node.zf)
        if isinstance(node, M.Moved):
            return fs.L0(node.src)
        raise V.OutOfSubset(f"node {node!r}")

    return f


def node_complete(s, full=False):
    fs = s.world.fs

    def f(node):
        if isinstance(node, M.Absent):
            return z3.BoolVal(False)
        if isinstance(node, M.DirNode):
            return group_complete(node.group, s.items, set(), (), full)
        if isinstance(node, M.ZipNode):
            return zip_complete(s, node.zf, full)
        if isinstance(node, M.Moved):
            return fs.C0(node.src)
        raise V.OutOfSubset(f"node {node!r}")

    return f


def loadable_at(s, q):
    fs = s.world.fs
    return fs.fold(q, node_loadable(s), fs.L0(q))


def complete_at(s, q, full=False):
    fs = s.world.fs
    return fs.fold(q, node_complete(s, full), fs.C0(q))


def frame(s):
    """Every path other than the target holds what it held before (or is absent as before: the temporary directory)."""
    fs = s.world.fs
    q = z3.String("q!frame")  # arbitrary path (skolem constant of the universally quantified frame condition)
    same = OR(fs.untouched(q), AND(fs.kind(q) == M.ABSENT, fs.K0(q) == M.ABSENT))
    return implies(q != save_target(s), same)


def write_once(s):
    fs = s.world.fs
    return implies(blocked(s), fs.untouched(save_target(s)))


def replaces_entry(s):
    """Overwriting means REPLACING the target's directory entry: the file the target name resolved to before the call is
    never written in place (it may have other names - a hard-linked backup, the destination of a symlink target - and
    'no save alters any path other than its target')."""
    fs = s.world.fs
    return NOT(fs.old_file_written_in_place(save_target(s)))


def atomic(s):
    t = save_target(s)
    return implies(loadable_at(s, t), complete_at(s, t))


def store_tag(s):
    return s.storekind + ("][target-is-a-dangling-symlink" if getattr(s, "dangling", False) else "")


def save_ensures(s):
    t = save_target(s)
    tag = f"[{store_tag(s)}]"
    return [
        ("frame:only-the-target-path-changes" + tag, frame(s)),
        ("write-once:existing-target-untouched" + tag, write_once(s)),
        ("no-loadable-partial-target" + tag, atomic(s)),
        ("overwrite-replaces-the-directory-entry:old-file-never-written-in-place" + tag, replaces_entry(s)),
        ("success-leaves-a-complete-target-with-skip-metadata" + tag, complete_at(s, t, full=True)),
        ("success-leaves-a-loadable-target" + tag, loadable_at(s, t)),
        state_clause(),
    ]


def save_on_raise(s, E):
    w = s.world
    site = w.faults[-1] if w.faults else E.__name__
    tag = f"[{store_tag(s)}]@{site}"
    out = [
        ("frame:only-the-target-path-changes" + tag, frame(s)),
        ("write-once:existing-target-untouched" + tag, write_once(s)),
        ("no-loadable-partial-target" + tag, atomic(s)),
        ("overwrite-replaces-the-directory-entry:old-file-never-written-in-place" + tag, replaces_entry(s)),
        state_clause(),
    ]
    if E is FileExistsError:
        out.append(("refused-before-any-effect", w.effects == 0 and not w.fs.log))
    return out


def save_value_error(s):
    if fault_is(s, ValueError):
        return z3.BoolVal(True)
    st = P(s, "store").t
    known = OR(st == SV("auto"), st == SV("zip"), st == SV("dir"))
    has_ext = z3.Length(M.EXT(save_target(s))) != 0
    return OR(NOT(comp_ok(s)), AND(NOT(blocked(s)), OR(NOT(known), AND(dir_store(s), has_ext))))


def zip_of(s):
    z = s.interp.ctx.ghost["c08.world"].zips
    if not z:
        raise V.OutOfSubset("loop invariant: no ZipFile has been opened")
    return z[-1]


def walk_of(s):
    w = s.interp.ctx.ghost["c08.world"].walks
    if not w:
        raise V.OutOfSubset("loop invariant: no os.walk enumeration")
    return w[-1]


def bind_expectation(zf, wk):
    """What the archive is supposed to contain: entry i = the i-th enumerated file under its name relative to the walked root."""
    if zf.expect is None:
        zf.set_expectation(lambda i: (wk.FLAT(i), M.REL(wk.FLAT(i), wk.top)))
        zf.expect_walk = wk


def zip_common_inv(zf, wk):
    return [("every-entry-written-so-far-is-the-enumerated-file-under-its-relative-name", zf.conforms),
            ("root-metadata-file-is-in-the-archive-once-passed", implies(zf.count > wk.meta, z3.Select(zf.names, ZJ)))]


def save_outer_inv(s):
    zf, wk = zip_of(s), walk_of(s)
    bind_expectation(zf, wk)
    return [("archive-holds-the-files-of-the-first-k-directories", zf.count == wk.PRE(lift(s.k)))] + zip_common_inv(zf, wk)


def save_inner_inv(s):
    zf, wk = zip_of(s), walk_of(s)
    bind_expectation(zf, wk)
    lk = s.interp.loop_k
    if not lk:
        raise V.OutOfSubset("inner zip loop outside the directory loop")
    ko = lift(lk[-1][1])
    return [("archive-holds-previous-directories-plus-j-files", zf.count == wk.PRE(ko) + lift(s.k))] + zip_common_inv(zf, wk)


def havoc_zip(s):
    zip_of(s).havoc(s.ctx)


def make_save_contract(storekind, compkind, dang=None):
    c = Contract(
        f"{SER}:AutoSerialize.save", setup=save_setup_case(storekind, compkind, dang), requires=save_requires, ensures=save_ensures,
        on_raise=save_on_raise,
        raises={ValueError: save_value_error,
                FileExistsError: lambda s: z3.BoolVal(True) if fault_is(s, FileExistsError) else AND(comp_ok(s), blocked(s))},
        max_paths=6000, note=f"case: store resolves to {storekind}, compression_level {compkind}, target a dangling symlink: {dang}",
    )
    c.raises.update(fault_raises(lambda s: faulted(s)))
    return c


SAVE_CASES = ([(sk, ck, dg) for sk in ("zip", "dir") for ck in ("int", "none") for dg in (False, True)]
              + [("none", ck, None) for ck in ("int", "none")])
C_SAVES = [make_save_contract(sk, ck, dg) for sk, ck, dg in SAVE_CASES]

# ------------------------------------------------------------------------------------------------
# AutoSerialize._recursive_save
# ------------------------------------------------------------------------------------------------


def rs_setup(ctx):
    w = M.world(ctx)
    reset_global_state()
    set_fault_model(w, f"{SER}:AutoSerialize._recursive_save")
    it = Items(ctx, "obj")
    g = M.GhostGroup(w, unknown=True, tag="grp")
    s = NS(self=Obj(_Probe, {}), obj=GhostInstance(it), group=g, skip_names=GhostNameSet(ctx), skip_types=GhostTypeTuple(),
           compressors=None, world=w, items=it)
    return s


def rs_items(s):
    return items_of(s.ctx, s.obj)


def rs_requires(s):
    return []


def rs_snapshot(s):
    return group_snapshot(s.group)


def some_unserialisable(s, upto=None):
    it = rs_items(s)
    i = z3.Int("i!u")
    hi = it.n if upto is None else lift(upto)
    return z3.Exists([i], AND(i >= 0, i < hi, NOT(skip_term(s.skip_names, s.skip_types, it, i)), it.UNSER(i)))


def rs_ensures(s):
    g = s.group
    it = rs_items(s)
    if s.mode == "apply":
        return []  # assumed by rs_modifies (marker + the abbreviation of the quantified statement)
    return [
        ("marker-written", z3.Select(g.A, SV(MARKER))),
        ("every-non-skipped-attribute-serialised", saved_formula(g.done, it, s.skip_names, s.skip_types)),
        ("nothing-removed-from-the-group", group_grew(s.old, g)),
        state_clause(),
    ]


def rs_on_raise(s, E):
    return [("nothing-removed-from-the-group", group_grew(s.old, s.group)), state_clause()]


def rs_loop_pre(g):
    return getattr(g, "_loop_pre", None) or group_snapshot(g)


def rs_inv(s):
    g = s.group
    it = rs_items(s)
    i = z3.Int("i!inv")
    return [
        ("marker-written", z3.Select(g.A, SV(MARKER))),
        ("first-k-non-skipped-attributes-serialised", saved_formula(g.done, it, s.skip_names, s.skip_types, upto=s.k)),
        ("first-k-non-skipped-attributes-serialisable",
         forall(i, implies(AND(i >= 0, i < lift(s.k), NOT(skip_term(s.skip_names, s.skip_types, it, i))), NOT(it.UNSER(i))))),
        ("nothing-removed-from-the-group", group_grew(rs_loop_pre(g), g)),
    ]


def rs_havoc(s):
    g = s.group
    g._loop_pre = group_snapshot(g)
    n = s.ctx.fresh_name("it")
    for f in M.FIELDS:
        setattr(g, f, z3.Const(f"{n}_{f}", z3.ArraySort(STR, BOOL)))


def havoc_free(ctx, g, tag):
    n = ctx.fresh_name(tag)
    for f in M.FIELDS:
        setattr(g, f, z3.Const(f"{n}_{f}", z3.ArraySort(STR, BOOL)))
    g.touch()


def rs_modifies(ctx, s):
    """Call site: either everything was serialised, or it failed somewhere leaving an arbitrary partial group.
    (The call site learns LESS than the verified postcondition: the `nothing removed` clause is not handed over.)"""
    w = M.world(ctx)
    g = s.group
    if not isinstance(g, M.GhostGroup):
        raise V.OutOfSubset("_recursive_save on a non-ghost group")
    it = rs_items(s)
    s.world = w
    if not w.faults and ctx.branch(ctx.fresh("fault@_recursive_save", "bool").t):
        havoc_free(ctx, g, "partial")
        M.raise_fault(ctx, "_recursive_save", "serialisation failed part-way")
    havoc_free(ctx, g, "saved")
    ctx.assume(z3.Select(g.A, SV(MARKER)))
    tok = z3.Function(ctx.fresh_name("all_attributes_serialised"), z3.ArraySort(STR, BOOL), BOOL)
    g.saved_token = (tok, it, s.skip_names, s.skip_types)
    ctx.assume(tok(g.done))


C_RSAVE = Contract(
    f"{SER}:AutoSerialize._recursive_save", setup=rs_setup, requires=rs_requires, ensures=rs_ensures, on_raise=rs_on_raise,
    snapshot=rs_snapshot, modifies=rs_modifies,
    raises=fault_raises(lambda s: False if s.mode == "apply" else OR(faulted(s), some_unserialisable(s))),
    loops={0: LoopSpec(inv=rs_inv, havoc={"group": rs_havoc})},
)

# ------------------------------------------------------------------------------------------------
# AutoSerialize._serialize_value : kind dispatch, one representative REAL instance per kind (A7)
# ------------------------------------------------------------------------------------------------


class _FakeWriter:
    """Duck-typed tensorboard writer (what the `add_scalar`/`add_image` branch looks at)."""

    log_dir, comment, max_queue, flush_secs, filename_suffix = "runs/x", "", 10, 120, ""

    def add_scalar(self, *a):
        pass

    def add_image(self, *a):
        pass


class _Unreducible:
    """A value that reaches the dill fallback and cannot be pickled."""

    def __reduce_ex__(self, protocol):
        raise TypeError("cannot pickle this object")


def _gen():
    yield 1


def _kinds():
    """kind -> (constructor of a representative instance, cannot be serialised?)"""
    import logging
    import pathlib

    import numpy as np
    import torch

    def sched():
        opt = torch.optim.SGD([torch.nn.Parameter(torch.zeros(1))], lr=0.1)
        return torch.optim.lr_scheduler.StepLR(opt, 1)

    return {
        "tensor": (lambda: torch.ones(2, requires_grad=True), False),
        "optimizer": (lambda: torch.optim.SGD([torch.nn.Parameter(torch.zeros(1))], lr=0.1), False),
        "scheduler": (sched, False),
        "tb-writer": (_FakeWriter, False),
        "logger": (lambda: logging.getLogger("c08"), False),
        "module": (lambda: torch.nn.Linear(1, 1), False),
        "ndarray": (lambda: np.arange(6.0).reshape(2, 3), False),
        "ndarray-empty": (lambda: np.zeros((0, 2)), False),
        "ndarray-object": (lambda: np.array([1, "x"], dtype=object), True),   # zarr has no data type for dtype=object
        "ndarray-huge-int": (lambda: np.asarray([2 ** 70, 1]), True),          # integers beyond 64 bit -> dtype=object
        "int": (lambda: 3, False),
        "float": (lambda: 2.5, False),
        "str": (lambda: "text", False),
        "bool": (lambda: True, False),
        "None": (lambda: None, False),
        "np-scalar": (lambda: np.float32(1.5), False),
        "path": (lambda: pathlib.Path("a/b"), False),
        "autoserialize": (lambda: _Probe(x=1), False),
        "list": (lambda: [1, "x"], False),
        "tuple": (lambda: (1, 2), False),
        "dict": (lambda: {"k": 1}, False),
        "set": (lambda: {1, 2}, False),
        "np-rng": (lambda: np.random.default_rng(0), False),
        "torch-rng": (lambda: torch.Generator(), False),
        "fallback-picklable": (lambda: complex(1, 2), False),
        "fallback-generator": (_gen, True),
        "fallback-unreducible": (_Unreducible, True),
    }


SV_INLINE = (f"{SER}:AutoSerialize._write_ndarray", f"{SER}:AutoSerialize._write_bytes")


class InliningContract(Contract):
    """While THIS function's body is verified the listed callees are interpreted (inlined) instead of being used through
    their contracts: a callee that starts reporting failure by a return value is then seen by a caller that ignores it.
    (The callees keep their own contracts, verified separately and used at every other call site.)"""

    def verify(self, reg, *a, **kw):
        for q in self.inline:
            reg.contracts.pop(q, None)
        return super().verify(reg, *a, **kw)


def pick_case(ctx, names, what):
    for n in names[:-1]:
        if ctx.branch(ctx.fresh(f"{what}_is_{n}", "bool").t):
            return n
    return names[-1]


def sv_setup(ctx):
    w = M.world(ctx)
    reset_global_state()
    set_fault_model(w, f"{SER}:AutoSerialize._serialize_value", *SV_INLINE)
    kinds = _kinds()
    kind = pick_case(ctx, list(kinds), "kind")
    mk, unser = kinds[kind]
    g = M.GhostGroup(w, unknown=True, tag="grp")
    s = NS(self=Obj(_Probe, {}), value=mk(), group=g, name=ctx.fresh("name", "str"), skip_names=GhostNameSet(ctx),
           skip_types=GhostTypeTuple(), compressors=None, world=w, case=kind, unserialisable=unser)
    return s


def refused(s):
    return bool(M.world(s.ctx).refusals)


def sv_raises(s):
    if s.mode == "apply":
        return False
    # raises exactly when a write failed, a callee refused a nested value, or the value itself cannot be serialised
    if faulted(s) or refused(s):
        return z3.BoolVal(True)
    if s.unserialisable:
        if s.case.startswith("ndarray"):
            # the ndarray branch writes only `if name not in group` (an existing child of that name is left alone)
            n = M.sterm(s.name)
            return NOT(OR(z3.Select(s.old.R, n), z3.Select(s.old.G, n)))
        return z3.BoolVal(True)
    return z3.BoolVal(False)


def sv_ensures(s):
    if s.mode == "apply":
        return []
    g = s.group
    tag = f"[{s.case}]"
    return [("entry-for-name-present" + tag, g.present(s.name)),
            ("nothing-removed-from-the-group" + tag, group_grew(s.old, g)), state_clause()]


def sv_on_raise(s, E):
    return [(f"nothing-removed-from-the-group[{s.case}]", group_grew(s.old, s.group)), state_clause()]


def value_unser_term(ctx, v):
    """`this value cannot be serialised` at a call site: the flag of an abstract value; unknown for a concrete one."""
    if isinstance(v, AbsValue):
        return v.unser
    return ctx.fresh("value_cannot_be_serialised", "bool").t


def sv_modifies(ctx, s):
    w = M.world(ctx)
    g, name, v = s.group, s.name, s.value
    if not isinstance(g, M.GhostGroup):
        raise V.OutOfSubset("_serialize_value on a non-ghost group")
    n = M.sterm(name)
    fails = None
    if ctx.branch(value_unser_term(ctx, v)):
        fails = "the value cannot be serialised"
    elif not w.faults and ctx.branch(ctx.fresh("fault@_serialize_value", "bool").t):
        fails = "a write failed"
    if fails:
        # the entry may be partially present; it is NOT done; nothing else is removed
        g.havoc_grow("partial")
        ctx.assume(z3.Select(g.done, n) == z3.Select(s.old.done, n))
        M.raise_fault(ctx, "_serialize_value", fails, injected=(fails == "a write failed"))
    g.havoc_grow("value")
    ctx.assume(g.present(n))
    ctx.assume(z3.Select(g.done, n))


C_SVALUE = InliningContract(
    f"{SER}:AutoSerialize._serialize_value", inline=SV_INLINE, setup=sv_setup, snapshot=lambda s: group_snapshot(s.group), modifies=sv_modifies,
    ensures=sv_ensures, on_raise=sv_on_raise, raises={Exception: sv_raises, M.FaultMarkerBase: sv_raises},
    note="returns normally only if the value was completely written (ghost done[name] at call sites); raises if the value cannot be "
         "serialised or any write fails, possibly leaving a partial entry",
)

# ------------------------------------------------------------------------------------------------
# _serialize_container / _write_ndarray / _write_bytes
# ------------------------------------------------------------------------------------------------


def _containers():
    import torch

    return {
        "empty-list": lambda: [],
        "numeric-list": lambda: [1, 2.5, 3],
        "mixed-list": lambda: [1, "x"],
        "tuple": lambda: (None, [1]),
        "dict": lambda: {"k": 1, 2: "two"},
        "empty-dict": lambda: {},
        "module-list": lambda: torch.nn.ModuleList([torch.nn.Linear(1, 1)]),
        "huge-int-list": lambda: [2 ** 70, 1],   # numeric fast path, but numpy falls back to dtype=object
    }


def sc_setup(ctx):
    w = M.world(ctx)
    reset_global_state()
    set_fault_model(w, f"{SER}:AutoSerialize._serialize_container")
    cs = _containers()
    kind = pick_case(ctx, list(cs), "container")
    g = M.GhostGroup(w, unknown=True, tag="grp")
    return NS(self=Obj(_Probe, {}), value=cs[kind](), group=g, skip_names=GhostNameSet(ctx), skip_types=GhostTypeTuple(),
              compressors=None, world=w, case=kind)


def sc_keys(value):
    if isinstance(value, dict):
        return [str(k) for k in value]
    return [str(i) for i in range(len(value))]


def sc_ensures(s):
    if s.mode == "apply":
        return []
    g = s.group
    tag = f"[{s.case}]"
    out = [("container-type-recorded" + tag, z3.Select(g.A, SV("_container_type"))),
           ("nothing-removed-from-the-group" + tag, group_grew(s.old, g))]
    if s.case == "huge-int-list":
        # either one array or item by item - but nothing may be missing
        out.append(("values-stored-as-array-or-item-by-item" + tag,
                    OR(AND(z3.Select(g.R, SV("values")), z3.Select(g.W, SV("values"))), AND(*[z3.Select(g.done, SV(k)) for k in sc_keys(s.value)]))))
    elif s.case == "numeric-list":
        out.append(("values-array-written" + tag, AND(z3.Select(g.R, SV("values")), z3.Select(g.W, SV("values")))))
    else:
        for k in sc_keys(s.value):
            out.append((f"item-{k}-completely-serialised" + tag, z3.Select(g.done, SV(k))))
    return out


def sc_modifies(ctx, s):
    w = M.world(ctx)
    g = s.group
    if not isinstance(g, M.GhostGroup):
        raise V.OutOfSubset("_serialize_container on a non-ghost group")
    refuse = ctx.branch(ctx.fresh("container_holds_unserialisable_value", "bool").t)
    if refuse or (not w.faults and ctx.branch(ctx.fresh("fault@_serialize_container", "bool").t)):
        g.havoc_grow("partial")
        M.raise_fault(ctx, "_serialize_container", "an item could not be written", injected=not refuse)
    g.havoc_grow("container")
    ctx.assume(z3.Select(g.A, SV("_container_type")))


C_SCONT = Contract(
    f"{SER}:AutoSerialize._serialize_container", setup=sc_setup, snapshot=lambda s: group_snapshot(s.group), modifies=sc_modifies,
    ensures=sc_ensures, on_raise=lambda s, E: [(f"nothing-removed-from-the-group[{s.case}]", group_grew(s.old, s.group))],
    raises={Exception: lambda s: False if s.mode == "apply" else z3.BoolVal(faulted(s) or refused(s)), M.FaultMarkerBase: lambda s: False if s.mode == "apply" else z3.BoolVal(faulted(s) or refused(s))},
)


def _arrays():
    import numpy as np

    return {"2d": lambda: np.arange(6.0).reshape(2, 3), "0d": lambda: np.array(3.5), "empty": lambda: np.zeros((0, 2)),
            "list-input": lambda: [1, 2, 3], "1d-int": lambda: np.arange(3),
            "object-dtype": lambda: np.array([1, "x"], dtype=object), "huge-int": lambda: np.asarray([2 ** 70, 1])}


UNSTORABLE_ARRAYS = ("object-dtype", "huge-int")


def unstorable(payload):
    """zarr has no data type for dtype=object (mixed python objects, integers beyond 64 bit): the array cannot be stored."""
    import numpy as np

    if payload is None:
        return False
    try:
        return (not V.contains_sym(payload)) and not isinstance(payload, (bytes, bytearray)) and np.asarray(payload).dtype.kind == "O"
    except Exception:  # noqa: BLE001
        return False


def wn_setup(ctx):
    w = M.world(ctx)
    set_fault_model(w, f"{SER}:AutoSerialize._write_ndarray")
    arrs = _arrays()
    kind = pick_case(ctx, list(arrs), "array")
    g = M.GhostGroup(w, unknown=True, tag="grp")
    return NS(group=g, name=ctx.fresh("name", "str"), array=arrs[kind](), compressors=None, world=w, case=kind)


def wn_ensures(s):
    if s.mode == "apply":
        return []
    g = s.group
    n = M.sterm(s.name)
    tag = f"[{s.case}]"
    # from the property: returning normally MEANS the array is stored (a failure must propagate, not be reported by a flag)
    out = [("returned-normally=>array-created" + tag, z3.Select(g.R, n)), ("nothing-removed-from-the-group" + tag, group_grew(s.old, g))]
    if s.case != "empty":
        out.append(("array-data-written" + tag, z3.Select(g.W, n)))
    return out


def array_write_modifies(site):
    def modifies(ctx, s):
        w = M.world(ctx)
        g = s.group
        if not isinstance(g, M.GhostGroup):
            raise V.OutOfSubset(f"{site} on a non-ghost group")
        n = M.sterm(s.name)
        if unstorable(s.get("array", None)):
            # the callee's contract: an array that cannot be stored makes it RAISE (nothing is created)
            w.refusals.append(site)
            raise RaiseSig(ValueError("array cannot be stored (dtype=object)"))
        if not w.faults and ctx.branch(ctx.fresh(f"fault@{site}", "bool").t):
            g.havoc_grow("partial")
            M.raise_fault(ctx, site, "array write failed")
        g.havoc_grow("array")
        ctx.assume(z3.Select(g.R, n))
        payload = s.get("array", s.get("data"))
        try:
            import numpy as np

            nonempty = not V.contains_sym(payload) and np.asarray(payload).size > 0
        except Exception:  # noqa: BLE001
            nonempty = False
        if nonempty:
            ctx.assume(z3.Select(g.W, n))

    return modifies


C_WNDARRAY = Contract(
    f"{SER}:AutoSerialize._write_ndarray", setup=wn_setup, snapshot=lambda s: group_snapshot(s.group),
    modifies=array_write_modifies("_write_ndarray"), ensures=wn_ensures,
    on_raise=lambda s, E: [(f"nothing-removed-from-the-group[{s.case}]", group_grew(s.old, s.group))],
    raises={Exception: lambda s: False if s.mode == "apply" else z3.BoolVal(faulted(s) or s.case in UNSTORABLE_ARRAYS), M.FaultMarkerBase: lambda s: False if s.mode == "apply" else z3.BoolVal(faulted(s) or s.case in UNSTORABLE_ARRAYS)},
)


def wb_setup(ctx):
    w = M.world(ctx)
    set_fault_model(w, f"{SER}:AutoSerialize._write_bytes")
    kind = pick_case(ctx, ["bytes", "empty"], "data")
    g = M.GhostGroup(w, unknown=True, tag="grp")
    return NS(group=g, name=ctx.fresh("name", "str"), data=(b"\x01\x02\x03" if kind == "bytes" else b""), compressors=None, world=w, case=kind)


C_WBYTES = Contract(
    f"{SER}:AutoSerialize._write_bytes", setup=wb_setup, snapshot=lambda s: group_snapshot(s.group),
    modifies=array_write_modifies("_write_bytes"), ensures=wn_ensures,
    on_raise=lambda s, E: [(f"nothing-removed-from-the-group[{s.case}]", group_grew(s.old, s.group))],
    raises={Exception: lambda s: False if s.mode == "apply" else z3.BoolVal(faulted(s)), M.FaultMarkerBase: lambda s: False if s.mode == "apply" else z3.BoolVal(faulted(s))},
)

# ------------------------------------------------------------------------------------------------
# public sibling that writes to disk through the same protocol: Ptychography.save (a wrapper around AutoSerialize.save)
# ------------------------------------------------------------------------------------------------

PTY = "quantem.diffractive_imaging.ptychography:Ptychography"
PTY_TO = "quantem.diffractive_imaging.ptychography_base:PtychographyBase.to"
WRAPPED = ("path", "mode", "store", "compression_level")


class AnyObj:
    """A collaborator the wrapper only reads attributes of / calls methods on (the dataset model): every attribute and
    every call yields another such object.  It has no access to the ghost filesystem."""

    _pyvc_value = True

    def __getattr__(self, n):
        if n.startswith("__"):
            raise AttributeError(n)
        return AnyObj()

    def __call__(self, *a, **kw):
        return AnyObj()


def same_arg(a, b):
    if a is None or b is None:
        return z3.BoolVal(a is None and b is None)
    if M.is_str(a) or M.is_str(b) or isinstance(a, os.PathLike) or isinstance(b, os.PathLike):
        return M.sterm(a) == M.sterm(b)
    return lift(a) == lift(b)


class SaveAtCallSite(Contract):
    """`AutoSerialize.save` as seen by a wrapper: the call-site preconditions say that the callee receives the CALLER'S OWN
    path / mode / store / compression_level (then write-once, the frame and atomicity of the wrapper are those proved for
    `AutoSerialize.save`); the callee may raise.  (`Contract.apply` overwrites `s.mode`: the real parameter is kept aside.)"""

    def bind(self, interp, args, kwargs):
        s = super().bind(interp, args, kwargs)
        s.param_values = {k: s.get(k) for k in WRAPPED + ("skip",)}
        return s


def sa_requires(s):
    mine = s.ctx.ghost.get("c08.wrapper_args")
    if mine is None:
        raise V.OutOfSubset("AutoSerialize.save reached through an unknown caller")
    return [(f"the-callee-receives-the-caller's-own-{k}", same_arg(s.param_values[k], mine[k])) for k in WRAPPED]


def sa_modifies(ctx, s):
    w = M.world(ctx)
    w.save_calls = getattr(w, "save_calls", 0) + 1
    w.own_effects_before_save = w.effects
    if not w.faults and ctx.branch(ctx.fresh("fault@AutoSerialize.save", "bool").t):
        M.raise_fault(ctx, "AutoSerialize.save", "the save failed or refused")


C_SAVE_AT_CALL_SITE = SaveAtCallSite(f"{SER}:AutoSerialize.save", requires=sa_requires, modifies=sa_modifies, ensures=lambda s: [],
                                     setup=lambda ctx: NS())


def ps_setup(ctx):
    w = M.world(ctx)
    reset_global_state()
    set_fault_model(w, f"{PTY}.save")
    path, mode, store = ctx.fresh("path", "str"), ctx.fresh("mode", "str"), ctx.fresh("store", "str")
    comp = None if ctx.branch(ctx.fresh("compression_level_is_None", "bool").t) else ctx.fresh("compression_level", "int")
    raw = bool(ctx.branch(ctx.fresh("save_raw_data", "bool").t))
    me = Obj(resolve(PTY), {"_dset": AnyObj(), "_device": "cpu", "_verbose": 1})
    if ctx.branch(ctx.fresh("stale_metadata_attribute_present", "bool").t):
        me.fields["_dataset_metadata"] = {"left": "by an earlier failed save"}
    s = NS(self=me, path=path, store=store, skip=(), compression_level=comp, save_raw_data=raw, verbose=False, world=w)
    s.param_values = dict(self=me, path=path, mode=mode, store=store, skip=(), compression_level=comp, save_raw_data=raw, verbose=False)
    ctx.ghost["c08.wrapper_args"] = dict(path=path, mode=mode, store=store, compression_level=comp)
    s.case = "save_raw_data" if raw else "metadata-only"
    return s


def ps_clauses(s):
    w = s.world
    n = getattr(w, "save_calls", 0)
    return n, [("the-wrapper-itself-touches-no-path", w.effects == 0 and not w.fs.log),
               ("no-process-global-state-left-behind", global_state_restored())]


def ps_ensures(s):
    n, out = ps_clauses(s)
    return [("delegates-exactly-once-to-AutoSerialize.save", n == 1)] + out


def ps_on_raise(s, E):
    n, out = ps_clauses(s)
    return [("raises-only-because-the-one-delegated-save-raised", n == 1)] + out


C_PTYSAVE = Contract(
    f"{PTY}.save", setup=ps_setup, ensures=ps_ensures, on_raise=ps_on_raise, raises=fault_raises(lambda s: faulted(s)),
    overrides={f"{SER}:AutoSerialize.save": C_SAVE_AT_CALL_SITE},
    note="wrapper: verified against the call-site contract of AutoSerialize.save (the callee receives the caller's own path, mode, store, "
         "compression_level; exactly one delegation; no filesystem effect of its own; a failure of the callee propagates)",
)

# ------------------------------------------------------------------------------------------------
# run-time oracle: the same statement on the REAL code, with fault injection by monkey-patching
# ------------------------------------------------------------------------------------------------


class InjectedFailure(OSError):
    pass


class InjectedValueError(ValueError):
    pass


class InjectedTypeError(TypeError):
    pass


class InjectedInterrupt(KeyboardInterrupt):
    pass


class InjectedExit(SystemExit):
    pass


# "fails part-way for ANY reason": ordinary errors and aborts that are not Exception subclasses (Ctrl-C, sys.exit)
INJECTED = {"OSError": InjectedFailure, "ValueError": InjectedValueError, "TypeError": InjectedTypeError,
            "KeyboardInterrupt": InjectedInterrupt, "SystemExit": InjectedExit}
# object graphs holding a value that cannot be stored (dill / zarr reject it): save must raise or store everything
UNSTORABLE_OBJECTS = ("unpicklable", "objarr-top", "objarr-child", "objarr-dict", "objarr-list", "hugeint-list", "hugeint-array")


def _digest(path):
    """Content digest of a file / directory tree (None if absent)."""
    if not os.path.lexists(path):
        return None
    if os.path.islink(path) and not os.path.exists(path):
        return "dangling-link->" + os.readlink(path)
    h = hashlib.sha256()
    if os.path.isdir(path):
        h.update(b"D")
        for root, dirs, files in os.walk(path):
            dirs.sort()
            h.update(os.path.relpath(root, path).encode())
            for d in dirs:
                h.update(b"d" + d.encode())
            for f in sorted(files):
                h.update(b"f" + f.encode())
                with open(os.path.join(root, f), "rb") as fh:
                    h.update(hashlib.sha256(fh.read()).digest())
    else:
        h.update(b"F")
        with open(path, "rb") as fh:
            h.update(fh.read())
    return h.hexdigest()


def _probe_object(kind):
    import numpy as np

    if kind == "unpicklable":
        return _Probe(a=1, bad=(i for i in range(3)), z="after")
    objarr = np.array([1, "x"], dtype=object)
    if kind == "objarr-top":
        return _Probe(a=1, bad=objarr, z="after")
    if kind == "objarr-child":
        return _Probe(a=1, child=_Probe(p=2, bad=objarr, q="q"), z="after")
    if kind == "objarr-dict":
        return _Probe(a=1, cfg={"k": 1, "bad": objarr, "m": "x"}, z="after")
    if kind == "objarr-list":
        return _Probe(a=1, items=["s", objarr, 3], z="after")
    if kind == "hugeint-list":
        return _Probe(a=1, big=[2 ** 70, 1], z="after")
    if kind == "hugeint-array":
        return _Probe(a=1, big=np.asarray([2 ** 70, 1]), z="after")
    if kind == "rich":
        import torch

        return _Probe(a=1, b=np.arange(6.0).reshape(2, 3), c="s", d=[1, 2, 3], e={"k": np.ones(2), "m": "x"}, f=torch.ones(2), g=2.5,
                      h=(1, "two", None), i={3, 4})
    return _Probe(a=1, b=np.arange(4.0), c="s", d=[1, "x"], e=None, _u=0, **{"__v": 7})


def _attr_names(o):
    return {k for k in vars(o) if k not in (SKIPN, SKIPT)}


def _value_mismatches(obj, loaded):
    """Attributes whose reloaded value differs (plain scalars, strings, None, lists and arrays only - the full round trip is C01)."""
    import numpy as np

    bad = []
    for k, v in vars(obj).items():
        if not hasattr(loaded, k):
            continue
        w = getattr(loaded, k)
        if isinstance(v, np.ndarray):
            ok = isinstance(w, np.ndarray) and v.shape == w.shape and bool(np.array_equal(v, w))
        elif v is None or isinstance(v, (bool, int, float, str)):
            ok = v == w
        elif isinstance(v, list) and all(x is None or isinstance(x, (bool, int, float, str)) for x in v):
            ok = isinstance(w, list) and v == w
        elif isinstance(v, list):
            ok = isinstance(w, list) and len(v) == len(w)
        elif isinstance(v, dict):
            ok = isinstance(w, dict) and {str(x) for x in v} == set(w)
        elif isinstance(v, AS):
            ok = isinstance(w, AS) and set(vars(v)) == _attr_names(w)
        else:
            continue
        if not ok:
            bad.append(k)
    return bad


def _root_attr_keys(p):
    """Keys of the root group's attributes of a saved directory / archive (read without quantem)."""
    import zipfile

    try:
        if os.path.isdir(p):
            with open(os.path.join(p, "zarr.json")) as f:
                meta = json.load(f)
        else:
            with zipfile.ZipFile(p) as z:
                meta = json.loads(z.read("zarr.json"))
        return set(meta.get("attributes", {}))
    except Exception:  # noqa: BLE001
        return set()


class _Injector:
    """Counts the calls of one family of operations during `save` and raises at the k-th (before it has any effect)."""

    SITES = ("serialize", "write", "zipwrite", "zipopen", "makedirs", "rmtree", "remove", "tmpdir", "group", "skipmeta")

    def __init__(self, site=None, k=0, exc="OSError"):
        self.site, self.k = site, k
        self.exc = INJECTED[exc]
        self.count = {s: 0 for s in self.SITES}
        self.fired = False
        self.stack = contextlib.ExitStack()

    def hit(self, site):
        n = self.count[site]
        self.count[site] = n + 1
        if site == self.site and n == self.k and not self.fired:
            self.fired = True
            raise self.exc(f"injected failure at {site} #{n}")

    def wrap(self, site, f, when=None):
        inj = self

        def g(*a, **kw):
            if when is None or when(*a, **kw):
                inj.hit(site)
            return f(*a, **kw)

        return g

    def __enter__(self):
        import zipfile
        import types
        from unittest import mock

        import zarr
        from zarr.core.attributes import Attributes

        import quantem.core.io.serialize as ser

        st = self.stack
        P_ = lambda obj, name, new: st.enter_context(mock.patch.object(obj, name, new))
        P_(ser.AutoSerialize, "_serialize_value", self.wrap("serialize", ser.AutoSerialize._serialize_value))
        is_skip = lambda self_, k, v: isinstance(k, str) and k.startswith("_autoserialize_skip")
        P_(Attributes, "__setitem__", self.wrap("skipmeta", self.wrap("write", Attributes.__setitem__), when=is_skip))
        P_(zarr.Group, "create_array", self.wrap("write", zarr.Group.create_array))
        P_(zarr.Group, "require_group", self.wrap("write", zarr.Group.require_group))
        P_(zarr.Array, "__setitem__", self.wrap("write", zarr.Array.__setitem__))
        P_(zipfile.ZipFile, "write", self.wrap("zipwrite", zipfile.ZipFile.write))

        # calls made BY serialize.py (not by the libraries themselves): proxies in the module namespace
        def proxy(mod, **over):
            ns = types.SimpleNamespace()
            real = mod

            class Px:
                def __getattr__(self_, name):
                    if name in over:
                        return over[name]
                    return getattr(real, name)

            return Px()

        P_(ser, "os", proxy(os, makedirs=self.wrap("makedirs", os.makedirs), remove=self.wrap("remove", os.remove)))
        P_(ser, "shutil", proxy(shutil, rmtree=self.wrap("rmtree", shutil.rmtree)))
        P_(ser, "tempfile", proxy(tempfile, TemporaryDirectory=self.wrap("tmpdir", tempfile.TemporaryDirectory)))
        P_(ser, "ZipFile", self.wrap("zipopen", zipfile.ZipFile))
        P_(ser, "zarr", proxy(zarr, group=self.wrap("group", zarr.group)))
        return self

    def __exit__(self, *a):
        self.stack.close()
        return False


def spec_target(path, store):
    eff = store if store != "auto" else ("zip" if path.endswith(".zip") else "dir")
    if eff == "zip" and not path.endswith(".zip"):
        return eff, path + ".zip"
    return eff, path


def rt_save(inp):
    """One concrete scenario on the REAL code: pre-existing target kind, store, mode, name suffix, fault (site, k).
    Evaluates: frame (siblings and temp dir), write-once, no loadable partial target, no swallowed failure."""
    from quantem.core.io.serialize import load

    store, mode, suffix = inp.get("store", "auto"), inp.get("mode", "w"), inp.get("suffix", "")
    pre, fault, objkind, comp = inp.get("pre", "absent"), inp.get("fault"), inp.get("obj", "basic"), inp.get("compression_level", 4)
    base = tempfile.mkdtemp(prefix="c08rt_")
    old_tmp = tempfile.tempdir
    problems = []
    try:
        work = os.path.join(base, "w")
        ptmp = os.path.join(base, "tmp")
        os.mkdir(work)
        os.mkdir(ptmp)
        path = os.path.join(work, "t" + suffix)
        eff, target = spec_target(path, store)
        # neighbours that must never change (including the un-suffixed / suffixed twin of the target)
        with open(os.path.join(work, "sibling.txt"), "w") as f:
            f.write("sibling")
        os.mkdir(os.path.join(work, "sibdir"))
        with open(os.path.join(work, "sibdir", "x.bin"), "wb") as f:
            f.write(b"\x00\x01")
        for twin in (path, path + ".zip", path[:-4] if path.endswith(".zip") else path + ".d"):
            if twin != target and not os.path.lexists(twin):
                with open(twin, "w") as f:
                    f.write("twin")
        old_obj = _ProbeOld(old1=11, old2="old")
        tempfile.tempdir = ptmp
        with contextlib.redirect_stdout(io.StringIO()):
            if pre == "file":
                with open(target, "wb") as f:
                    f.write(b"not an archive")
            elif pre == "dir":
                os.mkdir(target)
                with open(os.path.join(target, "keep.txt"), "w") as f:
                    f.write("keep")
            elif pre == "emptydir":
                os.mkdir(target)  # an existing target whose listing is empty (e.g. an output folder pre-created by a job script)
            elif pre == "saved":
                staged = os.path.join(base, "earlier.zip" if target.endswith(".zip") else "earlier")
                old_obj.save(staged)  # an earlier successful save, moved to the target path
                os.rename(staged, target)
            elif pre in ("symlink", "hardlink"):
                # the target name shares its FILE with another path: a symlink to it / a second hard link of it
                if target.endswith(".zip"):
                    real = os.path.join(work, "linked_real.zip")
                    old_obj.save(real)
                else:
                    real = os.path.join(work, "linked_real.bin")
                    with open(real, "wb") as f:
                        f.write(b"the other name of the target's file")
                (os.symlink if pre == "symlink" else os.link)(real, target)
            elif pre == "dangling":
                # the target name is a symbolic link whose destination does not exist (e.g. a 'latest' pointer to a deleted run)
                os.symlink(os.path.join(work, "dangling_destination" + (".zip" if target.endswith(".zip") else "")), target)
        for x in os.listdir(ptmp):
            shutil.rmtree(os.path.join(ptmp, x), ignore_errors=True)
        existed = os.path.lexists(target)
        pre_digest = _digest(target)
        sib = {x: _digest(os.path.join(work, x)) for x in os.listdir(work) if os.path.join(work, x) != target}
        obj = _probe_object(objkind)
        inj = _Injector(*(fault or (None, 0)), exc=inp.get("exc", "OSError"))
        exc = None
        with contextlib.redirect_stdout(io.StringIO()):
            with inj:
                try:
                    obj.save(path, mode=mode, store=store, compression_level=comp)
                except Exception as e:  # noqa: BLE001
                    exc = e
                except (InjectedInterrupt, InjectedExit) as e:  # the injected abort itself, never a real Ctrl-C
                    exc = e
        # ---- frame
        sib2 = {x: _digest(os.path.join(work, x)) for x in os.listdir(work) if os.path.join(work, x) != target}
        if sib2 != sib:
            changed = sorted(set(sib) ^ set(sib2)) + sorted(k for k in sib if k in sib2 and sib[k] != sib2[k])
            problems.append(("frame", f"paths other than the target changed: {changed}"))
        left = os.listdir(ptmp)
        if left:
            problems.append(("frame", f"temporary directory left behind: {left}"))
        # ---- write-once
        comp_bad = comp is not None and not (0 <= comp <= 9)
        if existed and mode != "o":
            if _digest(target) != pre_digest:
                problems.append(("write-once", "existing target modified in write-once mode"))
            if not comp_bad and not isinstance(exc, FileExistsError):
                problems.append(("write-once", f"existing target, mode={mode!r}: expected FileExistsError, got {type(exc).__name__ if exc else 'normal return'}"))
        # ---- what does the target load to now?
        loaded, lerr = None, None
        unchanged = _digest(target) == pre_digest
        if os.path.lexists(target):
            probe = os.path.join(base, "probe")
            try:  # load() may write into a directory store: look at a copy
                if os.path.isdir(target):
                    shutil.copytree(target, probe)
                else:
                    shutil.copy(target, probe + ".zip")
                    probe += ".zip"
                with contextlib.redirect_stdout(io.StringIO()):
                    loaded = load(probe)
            except Exception as e:  # noqa: BLE001
                lerr = e
        want = _attr_names(obj)
        if exc is not None:
            if loaded is not None:
                got = _attr_names(loaded)
                ok_old = unchanged and pre in ("saved", "symlink", "hardlink") and got == _attr_names(old_obj)
                ok_new = got == want and isinstance(loaded, _Probe)
                if not (ok_old or ok_new):
                    problems.append(("partial-loadable", f"save raised {type(exc).__name__} but the target loads to an object with attributes "
                                                         f"{sorted(got)} (saved object has {sorted(want)})"))
        else:
            if inj.fired:
                problems.append(("swallowed", f"failure injected at {fault} but save returned normally"))
            if loaded is None:
                problems.append(("success-not-loadable", f"save returned normally but the target does not load: {lerr!r}"))
            elif _attr_names(loaded) != want:
                problems.append(("swallowed" if objkind in UNSTORABLE_OBJECTS else "success-incomplete",
                                 f"save returned normally but the target loads with attributes {sorted(_attr_names(loaded))} (saved object has {sorted(want)})"))
            elif _value_mismatches(obj, loaded):
                problems.append(("swallowed" if objkind in UNSTORABLE_OBJECTS else "success-incomplete", f"save returned normally but attributes {_value_mismatches(obj, loaded)} reload with different "
                                                       f"contents (e.g. {getattr(loaded, _value_mismatches(obj, loaded)[0])!r})"))
            elif not {SKIPN, SKIPT} <= _root_attr_keys(target):
                problems.append(("success-without-skip-metadata", "save returned normally but the target's root attributes lack the skip lists"))
        # ---- history: a failed save must not influence the next save of the same object
        if exc is not None and inj.fired and eff in ("zip", "dir") and (pre == "absent" or inp.get("retry")):
            retry = os.path.join(base, "retry.zip" if eff == "zip" else "retry")
            try:
                with contextlib.redirect_stdout(io.StringIO()):
                    obj.save(retry, store=eff)
                    again = load(retry)
                if _attr_names(again) != want or _value_mismatches(obj, again):
                    problems.append(("retry-after-failure", f"the save repeated after the failed one loads with attributes {sorted(_attr_names(again))} "
                                                            f"(object has {sorted(want)})"))
            except Exception as e:  # noqa: BLE001
                problems.append(("retry-after-failure", f"the save repeated after the failed one raised {type(e).__name__}: {e}"))
        # ---- expected refusals
        if exc is not None and not inj.fired and objkind not in UNSTORABLE_OBJECTS:
            exp_val = comp_bad or (not (existed and mode != "o") and (store not in ("auto", "zip", "dir") or (eff == "dir" and os.path.splitext(target)[1] != "")))
            exp_fee = (not comp_bad) and existed and mode != "o"
            if not (exp_val and isinstance(exc, ValueError)) and not (exp_fee and isinstance(exc, FileExistsError)):
                problems.append(("unexpected-exception", f"{type(exc).__name__}: {exc}"))
        if exc is None and not comp_bad and not (existed and mode != "o") and eff == "dir" and os.path.splitext(target)[1] != "":
            problems.append(("unexpected-return", "directory store on a file-like path accepted"))
    finally:
        tempfile.tempdir = old_tmp
        shutil.rmtree(base, ignore_errors=True)
    klass = "ok"
    if problems:
        kinds = sorted({p[0] for p in problems})
        klass = "+".join(kinds)
        if kinds == ["partial-loadable"]:
            site = fault[0] if fault else "none"
            klass = f"partial-loadable:{eff}:{'zip-assembly' if site == 'zipwrite' else 'serialisation'}"
        if pre == "dangling":
            klass = f"dangling-symlink-target:{eff}:" + "+".join(kinds)
    return dict(violated=bool(problems), klass=klass, observed="; ".join(p[1] for p in problems[:3]) or "ok",
                expected="only the target changes; existing target untouched in write-once mode; after a failed save the target is absent, "
                         "unreadable or a complete object; failures are not swallowed")


_COUNTS = {}


def _site_counts(store, objkind="basic"):
    """Number of calls of every fault site during one successful real save (dry run)."""
    key = (store, objkind)
    if key not in _COUNTS:
        base = tempfile.mkdtemp(prefix="c08cnt_")
        old = tempfile.tempdir
        try:
            tempfile.tempdir = base
            inj = _Injector()
            with contextlib.redirect_stdout(io.StringIO()), inj:
                try:
                    _probe_object(objkind).save(os.path.join(base, "t.zip" if store == "zip" else "t"), store=store)
                except Exception:  # noqa: BLE001
                    pass
            _COUNTS[key] = dict(inj.count)
        finally:
            tempfile.tempdir = old
            shutil.rmtree(base, ignore_errors=True)
    return _COUNTS[key]


def fam_save(tier="quick", seed=0):
    """Fault at the k-th call of every site for every k, both stores, both modes, with and without an existing target."""
    thorough = tier != "quick"
    objkinds = ("basic", "rich") if thorough else ("basic",)
    for objkind in objkinds:
        for store, suffix in (("zip", ".zip"), ("dir", ""), ("auto", ".zip"), ("auto", ""), ("zip", "")):
            eff = "zip" if store == "zip" or suffix == ".zip" else "dir"
            if not thorough and store == "auto":
                continue
            cnt = _site_counts(eff, objkind)
            for mode, pre in (("w", "absent"), ("o", "absent"), ("o", "saved"), ("o", "file"), ("o", "dir"), ("w", "saved")):
                if not thorough and (mode, pre) in (("o", "file"), ("o", "dir")) and store == "zip" and suffix == "":
                    continue
                yield dict(store=store, mode=mode, suffix=suffix, pre=pre, fault=None, obj=objkind)
                if mode == "w" and pre != "absent":
                    continue
                for site in _Injector.SITES:
                    ks = range(cnt.get(site, 0))
                    if not thorough and len(ks) > 4 and (mode, pre) != ("o", "saved"):
                        ks = sorted({0, 1, len(ks) // 2, len(ks) - 1})
                    for k in ks:
                        if site == "remove" and pre in ("absent", "dir") or site == "rmtree" and pre in ("absent", "file", "saved") and eff == "zip":
                            continue
                        yield dict(store=store, mode=mode, suffix=suffix, pre=pre, fault=[site, k], obj=objkind)
    # the target name shares its file with another path (symlink to an earlier archive / hard-linked backup)
    for store, suffix in (("zip", ".zip"), ("auto", ".zip"), ("zip", "")) + ((("dir", ""),) if thorough else ()):
        eff = "dir" if store == "dir" else "zip"
        cnt = _site_counts(eff, "basic")
        for pre in ("symlink", "hardlink"):
            yield dict(store=store, mode="w", suffix=suffix, pre=pre, fault=None)
            yield dict(store=store, mode="o", suffix=suffix, pre=pre, fault=None)
            for site in ("serialize", "zipwrite", "zipopen", "skipmeta", "remove", "makedirs"):
                ks = range(cnt.get(site, 0) if site != "remove" else 1)
                if not thorough and len(ks) > 3:
                    ks = sorted({0, 1, len(ks) - 1})
                for k in ks:
                    yield dict(store=store, mode="o", suffix=suffix, pre=pre, fault=[site, k])
    for store, suffix in (("zip", ".zip"), ("dir", "")):
        for mode in ("w", "o"):
            yield dict(store=store, mode=mode, suffix=suffix, pre="dangling", fault=None)
        for site in ("serialize", "zipwrite"):
            yield dict(store=store, mode="o", suffix=suffix, pre="dangling", fault=[site, 1])
    # refusals and the unserialisable attribute
    for store, suffix in (("dir", ".dat"), ("bogus", ""), ("zip", ".zip"), ("dir", "")):
        for mode, pre in (("w", "absent"), ("w", "file"), ("w", "dir"), ("o", "file"), ("x", "saved")):
            yield dict(store=store, mode=mode, suffix=suffix, pre=pre, fault=None)
    # write-once over every KIND of existing target (an empty directory is an existing target), with and without an
    # attribute that cannot be stored; overwrite of an empty directory with a fault during serialisation
    for store, suffix in (("dir", ""), ("zip", ".zip"), ("auto", ""), ("zip", "")):
        for pre in ("emptydir", "dir", "file", "saved", "symlink", "dangling"):
            if pre == "symlink" and store == "auto":
                continue
            yield dict(store=store, mode="w", suffix=suffix, pre=pre, fault=None)
            if pre == "emptydir":
                yield dict(store=store, mode="w", suffix=suffix, pre=pre, fault=None, obj="unpicklable")
                yield dict(store=store, mode="o", suffix=suffix, pre=pre, fault=None)
                yield dict(store=store, mode="o", suffix=suffix, pre=pre, fault=["serialize", 1])
    for store, suffix in (("zip", ".zip"), ("dir", "")):
        for mode, pre in (("w", "absent"), ("o", "saved")):
            for ok_ in UNSTORABLE_OBJECTS:
                yield dict(store=store, mode=mode, suffix=suffix, pre=pre, fault=None, obj=ok_)
        # the same faults raised as ValueError / TypeError (what a handler in the serializer might name)
        eff = "zip" if store == "zip" else "dir"
        cnt = _site_counts(eff, "basic")
        for exc in ("ValueError", "TypeError", "KeyboardInterrupt", "SystemExit"):
            for site in ("write", "serialize", "zipwrite", "skipmeta", "group"):
                ks = range(cnt.get(site, 0))
                if not thorough and len(ks) > 5 and exc in ("TypeError", "SystemExit"):
                    ks = sorted({0, 1, len(ks) // 2, len(ks) - 1})
                for k in ks:
                    yield dict(store=store, mode="o", suffix=suffix, pre="saved", fault=[site, k], obj="basic", exc=exc)
        yield dict(store=store, mode="w", suffix=suffix, pre="saved", compression_level=11)
        yield dict(store=store, mode="o", suffix=suffix, pre="saved", compression_level=11)


_SITE_MAP = {
    "_recursive_save": "serialize", "_serialize_value": "serialize", "ZipFile.write": "zipwrite", "ZipFile.open": "zipopen",
    "os.makedirs": "makedirs", "shutil.rmtree": "rmtree", "os.remove": "remove", "TemporaryDirectory": "tmpdir",
    "zarr.group": "group", f"attrs[{SKIPN}]=": "skipmeta", f"attrs[{SKIPT}]=": "skipmeta", f"attrs[{MARKER}]=": "write",
}


def conc_save_case(storekind):
    def conc_save(ev):
        """Counter-model -> concrete scenario: store / mode / suffix from the model's strings (unconstrained ones get the value of
        this contract's case), kind of the pre-existing target, the fault site from the decision variable that is true (every
        position k of that site is then tried by rt)."""
        store, mode, path = ev("store"), ev("mode"), ev("path")
        path = "" if path is None else str(path)
        if store is None:
            store = {"zip": "zip", "dir": "dir", "none": "bogus"}[storekind]
        store = store if store in ("auto", "zip", "dir") else "bogus"
        mode = "o" if mode == "o" else "w"
        suffix = ".zip" if path.endswith(".zip") else (".dat" if "." in os.path.basename(path)[1:] else "")
        if store == "auto" and storekind == "zip":
            suffix = ".zip"
        kind = ev("target_kind", 0)
        pre = {0: "absent", 1: "linked", 2: "anydir"}.get(kind, "absent")  # linked: rt tries plain file / symlink / hard link
        if kind == 2 and ev("target_dir_entries", 1) == 0:
            pre = "emptydir"   # an existing directory with an empty listing
        if kind == 0 and ev("target_is_dangling_link", False):
            pre = "dangling"
        if mode == "w" and pre not in ("absent", "dangling") and any(n.startswith("fault@") and z3.is_true(v) for n, v in ev.table.items()):
            # a write was reached in write-once mode: either the existence test let this kind of target through, or the model's
            # target kind is unconstrained; rt tries the target as the model describes it first, then an absent one
            pre = [pre, "absent"]
        site = None
        for name, val in ev.table.items():
            if name.startswith("fault@") and z3.is_true(val):
                site = _SITE_MAP.get(name[len("fault@"):].split("!")[0])
        comp = ev("compression_level", None)
        return dict(store=store, mode=mode, suffix=suffix, pre=pre, fault=[site, None] if site else None, compression_level=comp,
                    **({"exc": "any"} if site else {}))  # any: rt tries an ordinary error and a BaseException-only abort

    return conc_save


_RT_CACHE = {}


def rt_save_cached(inp):
    key = json.dumps(inp, sort_keys=True, default=str)
    if key not in _RT_CACHE:
        try:
            _RT_CACHE[key] = rt_save(inp)
        except Exception as e:  # noqa: BLE001  an oracle never crashes: whatever the real code throws at it is a failure it reports
            _RT_CACHE[key] = dict(violated=True, klass="oracle-exception", observed=f"{type(e).__name__}: {e}", expected="the scenario runs")
    return dict(_RT_CACHE[key])


def rt_save_any_k(inp):
    """Replay entry: a fault given as [site, None] means 'at some position': try every k of that site.
    (Results are memoised per process: the code under test does not change during a run.)"""
    if inp.get("exc") == "any":
        last = None
        for exc in ("OSError", "KeyboardInterrupt", "ValueError", "TypeError"):
            last = rt_save_any_k(dict(inp, exc=exc))
            if last["violated"]:
                last["observed"] = f"[injected {exc}] " + last["observed"]
                return last
        return last
    if isinstance(inp.get("pre"), list):
        last = None
        for pre in inp["pre"]:
            last = rt_save_any_k(dict(inp, pre=pre))
            if last["violated"]:
                return last
        return last
    if inp.get("pre") in ("linked", "anydir"):
        last = None
        zip_target = spec_target("t" + inp.get("suffix", ""), inp.get("store", "auto"))[0] == "zip"
        for pre in (("saved", "symlink", "hardlink") if inp["pre"] == "linked" else ("dir", "emptydir") + (() if zip_target else ("saved",))):
            last = rt_save_any_k(dict(inp, pre=pre))
            if last["violated"]:
                last["observed"] = f"[target pre-state: {pre}] " + last["observed"]
                return last
        return last
    f = inp.get("fault")
    if not f or f[1] is not None:
        return rt_save_cached(inp)
    eff, _ = spec_target("t" + inp.get("suffix", ""), inp.get("store", "auto"))
    n = _site_counts(eff if eff in ("zip", "dir") else "dir").get(f[0], 0)
    last = None
    for k in range(max(n, 1)):
        last = rt_save_cached(dict(inp, fault=[f[0], k]))
        if last["violated"]:
            last["observed"] = f"[fault at {f[0]} #{k}] " + last["observed"]
            return last
    return last


def _known_defect_input(inp):
    """Inputs on which the pinned tree is KNOWN to violate the property (known_findings.jsonl).  They are left out of the
    fallback search that looks for a failing input for a NEW failed obligation (they would 'confirm' anything); a counter-model
    that is itself such an input is still replayed."""
    eff, _ = spec_target("t" + inp.get("suffix", ""), inp.get("store", "auto"))
    f = inp.get("fault")
    if inp.get("pre") == "dangling":
        return True
    if eff == "dir":
        return inp.get("obj") in UNSTORABLE_OBJECTS or bool(f and f[0] in ("serialize", "write", "skipmeta"))
    if eff == "zip":
        return bool(f and f[0] == "zipwrite")
    return False


def fam_small():
    for d in fam_save("quick", 0):
        if not _known_defect_input(d):
            yield d


for (_sk, _ck, _dg), _c in zip(SAVE_CASES, C_SAVES):
    _c.concretize, _c.rt, _c.rt_family = conc_save_case(_sk), rt_save_any_k, fam_small
for _c in (C_RSAVE, C_SVALUE, C_SCONT, C_WNDARRAY, C_WBYTES):
    _c.concretize, _c.rt, _c.rt_family = None, rt_save_any_k, fam_small

def rt_pty_save(inp):
    """The wrapper's statement on the REAL Ptychography.save: a bare instance (no reconstruction state), `to` stubbed, the
    delegated AutoSerialize.save replaced by a recorder that optionally fails; the wrapper must hand over the caller's own
    path / mode / store / compression_level exactly once, propagate the failure and touch no path itself."""
    import types
    from unittest import mock

    import torch

    Pty = resolve(PTY)
    base = tempfile.mkdtemp(prefix="c08pty_")
    calls, problems = [], []
    try:
        me = object.__new__(Pty)
        t = types.SimpleNamespace(data=torch.zeros(1))
        me.__dict__.update(_device="cpu", _verbose=0, _dset=types.SimpleNamespace(
            dset=types.SimpleNamespace(file_path=None), _preprocessing_params={}, scan_positions_px=t, descan_shifts=t))
        path = os.path.join(base, "t" + inp.get("suffix", ""))
        args = dict(path=path, mode=inp.get("mode", "w"), store=inp.get("store", "auto"), compression_level=inp.get("compression_level", 4))

        def recorder(self_, path, mode="w", store="auto", skip=(), compression_level=4):
            calls.append(dict(path=path, mode=mode, store=store, compression_level=compression_level))
            if inp.get("fail"):
                raise InjectedFailure("delegated save failed")

        if inp.get("pre", True):
            with open(path, "w") as f:  # an existing target: the wrapper must leave it to the delegated save
                f.write("existing target")
        before = sorted(os.listdir(base))
        exc = None
        with mock.patch.object(AS, "save", recorder), mock.patch.object(Pty, "to", lambda self_, d: None):
            try:
                Pty.save(me, save_raw_data=bool(inp.get("save_raw_data")), verbose=False, **args)
            except Exception as e:  # noqa: BLE001
                exc = e
        if len(calls) != 1:
            problems.append(f"AutoSerialize.save was called {len(calls)} times")
        elif any(str(calls[0][k]) != str(args[k]) for k in WRAPPED):
            problems.append(f"the delegated save received {calls[0]} instead of the caller's {args}")
        if sorted(os.listdir(base)) != before:
            problems.append("the wrapper itself created / removed a path")
        if bool(inp.get("fail")) != isinstance(exc, InjectedFailure):
            problems.append(f"delegated save {'failed' if inp.get('fail') else 'returned'} but the wrapper {'raised ' + type(exc).__name__ if exc else 'returned normally'}")
    except Exception as e:  # noqa: BLE001
        problems.append(f"oracle: {type(e).__name__}: {e}")
    finally:
        shutil.rmtree(base, ignore_errors=True)
    return dict(violated=bool(problems), klass="wrapper", observed="; ".join(problems) or "ok",
                expected="Ptychography.save delegates exactly once with the caller's own path/mode/store/compression_level, adds no "
                         "filesystem effect and propagates a failure of the delegated save")


def fam_pty():
    for mode in ("w", "o"):
        for store, suffix in (("auto", ".zip"), ("dir", ""), ("zip", "")):
            for comp in (4, None):
                for raw in (False, True):
                    for fail in (False, True):
                        yield dict(mode=mode, store=store, suffix=suffix, compression_level=comp, save_raw_data=raw, fail=fail, pre=(comp is None))


def conc_pty(ev):
    store, mode, path = ev("store"), ev("mode"), str(ev("path") or "")
    fail = any(n.startswith("fault@") and z3.is_true(v) for n, v in ev.table.items())
    return dict(mode=mode if mode in ("w", "o") else "w", store=store if store in ("auto", "zip", "dir") else "auto",
                suffix=".zip" if path.endswith(".zip") else "", compression_level=None if ev("compression_level_is_None", False) else ev("compression_level", 4),
                save_raw_data=bool(ev("save_raw_data", False)), fail=fail)


C_PTYSAVE.concretize, C_PTYSAVE.rt, C_PTYSAVE.rt_family = conc_pty, rt_pty_save, fam_pty

CONTRACTS = C_SAVES + [C_RSAVE, C_SVALUE, C_SCONT, C_WNDARRAY, C_WBYTES, C_PTYSAVE]
APPLY_ONLY = []

# ------------------------------------------------------------------------------------------------
# property-level lemma: the three exit conditions give the property
# ------------------------------------------------------------------------------------------------


def lemma_inv_preserved(ctx):
    """Inv(FS) & frame & (loadable'(t) => complete'(t))  =>  Inv(FS'): no path holds a loadable partial object after any exit."""
    L0, C0 = z3.Function("L0", STR, BOOL), z3.Function("C0", STR, BOOL)
    L1, C1 = z3.Function("L1", STR, BOOL), z3.Function("C1", STR, BOOL)
    same = z3.Function("same", STR, BOOL)  # q holds what it held before (or is absent as before)
    t, q, x = z3.String("t"), z3.String("q"), z3.String("x")
    hyps = [
        z3.ForAll([x], z3.Implies(L0(x), C0(x))),
        z3.ForAll([x], z3.Implies(x != t, same(x))),
        z3.ForAll([x], z3.Implies(same(x), z3.And(L1(x) == L0(x), C1(x) == C0(x)))),
        z3.Implies(L1(t), C1(t)),
    ]
    return [("Inv(FS')", hyps, z3.Implies(L1(q), C1(q)))]


LEMMAS = [Lemma("failed-or-successful-save-preserves-no-partial-object-loadable", lemma_inv_preserved, uses=["AutoSerialize.save"])]


def _klass(inp, res):
    return res.get("klass", "any")


BOUNDED = [
    Bounded.from_rt("fault injection at every write position on the real save", rt_save_cached, fam_save,
                    "exception raised at the k-th call of every fault site (serialize, zarr writes, skip metadata, zip open/write, makedirs, "
                    "rmtree, remove, temp dir, zarr.group), both stores, modes w/o, target absent/file/dir/earlier save, refusals, an unpicklable "
                    "attribute; quick: one 6-attribute object, every k for mode='o' over an earlier save and {first, second, middle, last} k elsewhere; "
                    "thorough: every k everywhere, store='auto' too, a second object with tensors and containers; write-once over every kind "
                    "of existing target (empty directory, directory with entries, file, earlier save, symlink, dangling symlink)", klass=_klass),
    Bounded.from_rt("Ptychography.save wrapper delegation on the real code", rt_pty_save, lambda tier="quick", seed=0: fam_pty(),
                    "48 argument combinations (mode, store/suffix, compression_level, save_raw_data, delegated save fails / returns) on a bare "
                    "Ptychography instance with the delegated AutoSerialize.save replaced by a recorder", klass=_klass),
]

TRUSTED = [
    "pyvc/lib/c08_models.py: ghost filesystem and the effects of os.path.exists/lexists/isdir/isfile/islink/getsize, os.listdir/scandir "
    "(a directory has a listing of NENT >= 0 entries: 0 for an existing empty directory and for one just created, >= 1 once a zarr group was "
    "created in it), os.remove, shutil.rmtree, os.makedirs, os.replace",
    "PtychographyBase.to(device) (collaborator of the Ptychography.save wrapper) has no filesystem effect; the dataset model the wrapper reads "
    "its reload metadata from is an arbitrary object without filesystem access",
    "tempfile.TemporaryDirectory: fresh path (did not exist, differs from every path the caller names), removed by its context manager on every exit",
    "zipfile.ZipFile(p,'w'): truncates at construction, unreadable until closed, close()/__exit__ writes the central directory even if the body raised; append-only",
    "zarr.group(LocalStore(p), overwrite=True): p becomes a directory with an empty root group; group writes go to p in place; root attrs live in p/zarr.json",
    "zarr Group.require_group/create_array, Attributes.__setitem__, Array.__setitem__: add the named entry, remove nothing",
    "os.walk: top-down, every file exactly once; the files of the top directory are among all files; relpath(join(top,'zarr.json'), top) == 'zarr.json'",
    "load(p) succeeds only if the root attrs contain `_autoserialize` (serialize.py:load raises KeyError otherwise) - the definition of loadable",
    "fault model: a failing operation raises BEFORE it has any effect; one fault per save; exception classes Exception / OSError / TypeError "
    "(forked only when the function under verification contains a `try` statement - otherwise the class is unobservable)",
    "A7 kind facts: _serialize_value / _serialize_container / _write_ndarray / _write_bytes are executed on ONE real representative instance per "
    "value kind (24 kinds, 7 containers, 5 arrays, 2 byte strings); isinstance/hasattr/torch.save/dill.dumps run natively on it; uniformity within a kind is assumed",
    "dill.dumps raises for the two unpicklable representatives (generator, object whose __reduce_ex__ raises) - measured natively at check time",
    "pyvc engine (AST interpreter), z3, cvc5",
]
ASSUMPTIONS = [
    "A6 third-party behaviour from the library contracts above; A7 kind facts",
    "paths are whole-node names: descendants of the target belong to the target; the parent directory of the target exists "
    "(os.makedirs creating missing ancestors is not counted as altering another path)",
    "objects are instances of plain classes (obj.__dict__ with a SYMBOLIC number of attributes), not attrs classes; skip=() in `save` "
    "(arbitrary skip sets in _recursive_save; skip-list algebra itself is C14)",
    "container WIDTH is that of the representatives (<= 3 items, unrolled); depth is by contract (recursive calls go through the callee contracts)",
    "single-fault model (the property's quantifier injects ONE exception per save, among the serializer's writes and the zip assembly; a "
    "second failure inside the cleanup handler - os.remove of the truncated archive raising, rmtree(ignore_errors=True) silently giving up - "
    "is outside the statement and is not explored)",
    "Ptychography.save: verbose=False (the verbose branch only prints the resolved path); skip=() at the wrapper (it appends its own names)",
    "complete(target) for the atomicity clause = marker + every non-skipped attribute; the skip metadata is required only of a SUCCESSFUL save "
    "(a target lacking only its skip lists does not load to an object missing attributes)",
]
EXPLANATION = ("exceptional and normal postconditions of the real AutoSerialize.save / _recursive_save / _serialize_value / _serialize_container / "
               "_write_ndarray / _write_bytes (and of the public wrapper Ptychography.save against call-site preconditions of AutoSerialize.save) over a ghost filesystem and ghost zarr groups, VCs generated from the source with an exception forked "
               "at every may-raise call (loops: at an arbitrary iteration through invariants), discharged by z3/cvc5; fault injection at every write "
               "position on the real code as bounded stand-in")
REPLAY = {}
