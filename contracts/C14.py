"""C14 - skip lists: attributes named in `skip` (at save time, at load time or both) are absent at every level of
attribute-nested AutoSerialize objects, type skipping at save removes the instances of the listed types, survivors load
exactly as without skipping, skip lists persist in the file, load-time skipping == save-time skipping.

Same engine, models and contracts as C01 (contracts/C01.py) run in *skip mode*: the skip lists handed to the real functions are
symbolic name sets (membership predicates over all strings) and an abstract type tuple, attribute names are symbolic, and the
postconditions are the set algebra  present(n)  <=>  n in attrs(x) and not (n in S_save or isinstance(x.n, T_save)) and n not in S_load.
"""
from __future__ import annotations

import z3

from pyvc.runner import Lemma, Bounded
from . import C01 as base
from .C01 import *  # noqa: F401,F403  (fixture classes must be importable from this module's namespace too)

LEVEL = "other"  # open known findings: some obligations are refuted on the current tree, so "every obligation discharged" does not hold (see known_findings.jsonl)

CONTRACTS = base.C_RLOADS + base.C_SVALS + base.C_RSAVES + base.C_SAVES + [base.C_LOAD] + base.C_SCONTS + base.C_DCONTS + [base.C_ISAUTO]


def make_registry():
    return base.make_registry(skip_mode=True)

LEMMAS = base.LEMMAS_SKIP
BOUNDED = [base.B_SKIP]
TRUSTED = base.TRUSTED
ASSUMPTIONS = base.ASSUMPTIONS
EXPLANATION = ("C01's contracts in skip mode: symbolic name sets S_save / S_load (membership predicates over all strings), abstract type tuple T_save, symbolic attribute names; "
               "postcondition present(n) <=> n in attrs and not (n in S_save or isinstance(value, T_save)) and n not in S_load at every level reached through attributes, "
               "survivors ~ originals, skip lists forwarded unchanged to every recursive call, persisted by save and merged by load")


# ------------------------------------------------------------------------------------------------
# Ptychography.save : the skip list handed to AutoSerialize.save is this call's names (+ the raw-data names), whatever ran before
# ------------------------------------------------------------------------------------------------

import copy
import functools
import os
import types as _types

from pyvc.interp import NS
from pyvc.registry import Contract
from pyvc.lib import super_ as _super_model
from pyvc.lib.c01_models import StrSym
from .common import frame_snapshot, frame_clauses
from .C01 import B, pick, run_real, names_equiv, AS

PTY = "quantem.diffractive_imaging.ptychography"
PTB = "quantem.diffractive_imaging.ptychography_base"

from quantem.diffractive_imaging.ptychography import Ptychography  # noqa: E402


def _mutable_class_state(cls):
    out = {}
    for k in cls.__mro__:
        if (k.__module__ or "").startswith("quantem"):
            for n, v in vars(k).items():
                if isinstance(v, (list, dict, set)):
                    out[(k, n)] = (v, copy.deepcopy(v))
    return out


_CLASS_STATE = _mutable_class_state(Ptychography)  # taken at import: class-level lists / dicts / sets as the source defines them


def restore_class_state():
    """Interpretation runs natively on real class objects: put class-level mutable attributes back to their source values before each
    path, so that what a path sees of them is what THIS path's history did to them."""
    for (k, n), (v, pristine) in _CLASS_STATE.items():
        if isinstance(v, list):
            v[:] = copy.deepcopy(pristine)
        elif isinstance(v, dict):
            v.clear()
            v.update(copy.deepcopy(pristine))
        else:
            v.clear()
            v.update(pristine)


class _FakeTensor:
    def __init__(self, name):
        self.name = name
        self.data = self

    def cpu(self):
        return self


def mk_ptycho(tag):
    """Abstract Ptychography instance holding only what save() reads (device / verbosity state and the dataset handles)."""
    from pyvc.values import Obj

    dset = _types.SimpleNamespace(dset=_types.SimpleNamespace(file_path=None), _preprocessing_params={"tag": tag},
                                  scan_positions_px=_FakeTensor("scan"), descan_shifts=_FakeTensor("descan"))
    return Obj(Ptychography, dict(_device="cpu", _verbose=0, dset=dset, _dset=dset, _tag=tag))


PSKIP_FORMS = ["()", "name", "type", "[n1]", "[n1,T]", "(n1,n2)"]


def mk_pskip(ctx, form, tag):
    import numpy as np

    n1 = StrSym(z3.String(ctx.fresh_name(tag + "_n1")))
    n2 = StrSym(z3.String(ctx.fresh_name(tag + "_n2")))
    T = np.ndarray
    val = {"()": (), "name": n1, "type": T, "[n1]": [n1], "[n1,T]": [n1, T], "(n1,n2)": (n1, n2)}[form]
    names = {"()": [], "name": [n1], "type": [], "[n1]": [n1], "[n1,T]": [n1], "(n1,n2)": [n1, n2]}[form]
    return val, names, ((T,) if form in ("type", "[n1,T]") else ())


PHIST = ["first-save-in-the-process", "after-an-earlier-save-of-this-object-with-other-skips", "after-an-earlier-save-of-another-object-with-other-skips"]


def psave_setup(ctx):
    import torch

    restore_class_state()
    form = pick(ctx, "skipform", PSKIP_FORMS)
    raw = pick(ctx, "save_raw_data", [False, True])
    hist = pick(ctx, "history", PHIST)
    me = mk_ptycho("this")
    case = f"skip={form},save_raw_data={raw},{hist}"
    if hist != PHIST[0]:
        # pre-state: save() already ran (default raw-data handling) with a non-empty skip list naming OTHER names and a type
        earlier = me if hist == PHIST[1] else mk_ptycho("other")
        m1 = StrSym(z3.String(ctx.fresh_name("earlier_n1")))
        m2 = StrSym(z3.String(ctx.fresh_name("earlier_n2")))
        run_real(ctx, f"{PTY}:Ptychography.save", [earlier, "/ghost/earlier.zip"],
                 dict(mode="w", store="zip", skip=[m1, m2, torch.Tensor], compression_level=4, save_raw_data=False, verbose=False), label=f"[{case}]earlier-save")
        ctx.ghost["as_save_calls"] = []
    skip, names, types = mk_pskip(ctx, form, "skip")
    return NS(self=me, path="/ghost/this.zip", param_values={"mode": "w"}, store="zip", skip=skip, compression_level=4, save_raw_data=raw, verbose=False,
              names=names, types=types, case=case)


def _rec_save(ctx, s):
    sk = s.skip
    ctx.ghost.setdefault("as_save_calls", []).append(NS(obj=s.self, path=s.path, store=s.store, compression_level=s.compression_level,
                                                       skip=list(sk) if isinstance(sk, (list, tuple)) else [sk]))


C_ASAVE_RECORDED = Contract(f"{AS}.save", modifies=_rec_save)  # inside Ptychography.save's proof: AutoSerialize.save is used through what it is handed


def psave_ensures(s):
    ctx = s.ctx
    c = f"[{s.case}]"
    calls = ctx.ghost.get("as_save_calls", [])
    out = [(c + "AutoSerialize.save-called-exactly-once", B(len(calls) == 1))]
    if len(calls) == 1:
        k = calls[0]
        out.append((c + "saves-this-object-at-the-given-path/store/compression", B(k.obj is s.self and k.path == s.path and k.store == s.store and k.compression_level == s.compression_level)))
        want = list(s.names) + ([] if s.save_raw_data else ["_dset", "dset"])
        got_names = [x for x in k.skip if base.is_name(x)]
        got_types = [x for x in k.skip if isinstance(x, type)]
        out.append((c + "skip-names-handed-to-AutoSerialize.save=this-call's-names+raw-data-names(unless-save_raw_data)", names_equiv(got_names, want, ctx)))
        out.append((c + "skip-types-handed-to-AutoSerialize.save=this-call's-types", B(set(got_types) == set(s.types) and len(got_names) + len(got_types) == len(k.skip))))
    out += [(c + lab, t) for lab, t in frame_clauses(s, s.old.frame)]
    return out


C_PSAVE = Contract(f"{PTY}:Ptychography.save", setup=psave_setup, ensures=psave_ensures,
                   snapshot=lambda s: NS(frame=frame_snapshot(s, ["skip"])), overrides={f"{AS}.save": C_ASAVE_RECORDED})
C_PSAVE.canary_path_limit = 16

CONTRACTS = CONTRACTS + [C_PSAVE]


def make_registry():  # noqa: F811
    reg = base.make_registry(skip_mode=True)
    _super_model.install(reg)
    reg.add_contract(C_PSAVE)
    reg.opaque_calls = set(getattr(reg, "opaque_calls", ())) | {f"{PTB}:PtychographyBase.to"}
    reg.method_models[(list, "extend")] = lambda interp, l, xs: l.extend(xs)
    return reg


TRUSTED = list(TRUSTED) + ["Ptychography.save: PtychographyBase.to (device moves) is an opaque collaborator with an assumed frame (it does not touch the skip list); "
                           "AutoSerialize.save is used there through the arguments it is handed (its own contract is verified separately)"]


# ---- run-time oracle: real Ptychography objects, real save / load, a history of save calls in one process

_PT = {}


def _build_ptycho(seed=0, N=16, scan=4):
    import warnings

    import matplotlib

    matplotlib.use("Agg")
    import numpy as np

    from quantem.core.datastructures.dataset4dstem import Dataset4dstem
    from quantem.diffractive_imaging.dataset_models import PtychographyDatasetRaster
    from quantem.diffractive_imaging.detector_models import DetectorPixelated
    from quantem.diffractive_imaging.object_models import ObjectPixelated
    from quantem.diffractive_imaging.probe_models import ProbePixelated

    if seed in _PT:
        return _PT[seed]
    with warnings.catch_warnings():
        warnings.simplefilter("ignore")
        rng = np.random.default_rng(seed)
        arr = rng.random((scan, scan, N, N)).astype(np.float32) + 0.1
        d = Dataset4dstem.from_array(array=arr, sampling=(1, 1, 0.05, 0.05), units=("A", "A", "A^-1", "A^-1"))
        pd = PtychographyDatasetRaster.from_dataset4dstem(d, verbose=0)
        pd.preprocess(com_fit_function="constant", plot_rotation=False, plot_com=False, probe_energy=300e3, force_com_rotation=0, force_com_transpose=False)
        obj = ObjectPixelated.from_uniform(num_slices=1, obj_type="complex", slice_thicknesses=1)
        probe = ProbePixelated.from_params(num_probes=1, probe_params={"energy": 300e3, "defocus": 50, "semiangle_cutoff": 20})
        pt = Ptychography.from_models(dset=pd, obj_model=obj, probe_model=probe, detector_model=DetectorPixelated(), rng=1, verbose=0)
        pt.preprocess(obj_padding_px=(0, 0))
        pt._c14_note = {"a": [0.5, 0.25]}
        pt._c14_flag = "keep"
    _PT[seed] = pt
    return pt


def rt_ptycho(inp):
    """History of Ptychography.save calls on real objects: every file must lack exactly the names of ITS call (+ _dset/dset unless save_raw_data)
    and otherwise load like a default save; the skip argument reaching AutoSerialize.save is recorded as well."""
    import contextlib
    import io as _io
    import warnings

    import numpy as np

    from quantem.core.io.serialize import AutoSerialize as _AS, load

    store = inp.get("store", "zip")
    d = base._tmpdir()
    problems = []
    seen = []
    orig = _AS.save

    def recording(self, path, mode="w", store="auto", skip=(), compression_level=4):
        seen.append(list(skip) if isinstance(skip, (list, tuple)) else [skip])
        return orig(self, path, mode=mode, store=store, skip=skip, compression_level=compression_level)

    typ = {"ndarray": np.ndarray}
    steps = inp.get("steps") or [dict(obj=0, skip=[]), dict(obj=0, skip=["_c14_note", "_c14_flag"]), dict(obj=0, skip=[]), dict(obj=1, skip=[])]
    with warnings.catch_warnings(), contextlib.redirect_stdout(_io.StringIO()):
        warnings.simplefilter("ignore")
        _AS.save = recording
        try:
            ref = {}
            for i, st in enumerate(steps):
                pt = _build_ptycho(st.get("obj", 0))
                names = [x for x in st.get("skip", []) if x not in typ]
                skip = names + [typ[x] for x in st.get("skip", []) if x in typ]
                p = os.path.join(d, f"s{i}.zip" if store == "zip" else f"s{i}")
                user_skip = skip[0] if st.get("bare") and len(skip) == 1 else (tuple(skip) if st.get("tuple") else list(skip))
                before = list(user_skip) if isinstance(user_skip, list) else None
                pt.save(p, store=store, skip=user_skip, save_raw_data=st.get("raw", False), verbose=False)
                if before is not None and list(user_skip) != before:
                    problems.append(("the caller's skip list is written", f"step {i}", f"{before} -> {user_skip}"))
                want = set(names) | (set() if st.get("raw") else {"_dset", "dset"})
                got = {x for x in seen[-1] if isinstance(x, str)}
                if got != want:
                    problems.append(("skip names of an earlier save applied to a later one" if got - want else "skip names of this call missing",
                                     f"step {i}", f"AutoSerialize.save got skip names {sorted(got)}, this call names {sorted(want)}"))
                if not st.get("raw") and not [x for x in skip if isinstance(x, type)]:
                    r = load(p)
                    have = set(vars(r)) - {"_autoserialize_skip_names", "_autoserialize_skip_types"}
                    key = st.get("obj", 0)
                    if not names:
                        ref.setdefault(key, have)
                    exp = (ref.get(key) or have) - set(names)
                    if key in ref and have != exp:
                        problems.append(("attribute set of a later save differs from a default save", f"step {i}",
                                         f"missing {sorted(exp - have)[:5]} extra {sorted(have - exp)[:5]}"))
        except Exception as e:
            problems.append(("Ptychography.save history raises " + type(e).__name__, "", f"{type(e).__name__}: {str(e)[:200]}"))
        finally:
            _AS.save = orig
    only = inp.get("only_class")
    if only:
        problems = [q for q in problems if q[0] == only]
    return dict(violated=bool(problems), observed="; ".join(f"{k} at {w}: {m}" for k, w, m in problems[:3]) or "ok",
                expected="each file lacks exactly the names of its own save call (+ _dset/dset)", problems=problems)


def fam_ptycho(tier="quick", seed=0):
    yield dict(store="zip")
    yield dict(store="dir", steps=[dict(obj=0, skip=["_c14_note"], bare=True), dict(obj=1, skip=[]), dict(obj=0, skip=["_c14_flag", "ndarray"]), dict(obj=0, skip=[]),
                                    dict(obj=0, skip=["_c14_flag"], tuple=True), dict(obj=1, skip=[])])
    if tier != "quick":
        yield dict(store="zip", steps=[dict(obj=0, skip=["_c14_note"], raw=True), dict(obj=0, skip=[]), dict(obj=0, skip=[], raw=True), dict(obj=1, skip=["_c14_flag"]), dict(obj=0, skip=[])])


def run_ptycho_bounded(tier, seed):
    fails, n, seen = [], 0, set()
    for inp in fam_ptycho(tier, seed):
        n += 1
        res = rt_ptycho(inp)
        for k, w, m in res["problems"]:
            if k not in seen:
                seen.add(k)
                fails.append(dict(case=dict(inp, only_class=k), klass=k, observed=f"{k} at {w}: {m}", expected=res["expected"]))
    return dict(evaluations=n, distinct=n, failures=fails)


B_PTYCHO = Bounded("Ptychography.save call histories (real objects, real save/load)", run_ptycho_bounded,
                   "two small real Ptychography objects; 4-6 saves per history with/without skip names, a type, bare str / tuple / list forms, both stores (thorough: save_raw_data)")
B_PTYCHO.rt = lambda inp: {k: v for k, v in rt_ptycho(inp).items() if k != "problems"}
BOUNDED = BOUNDED + [B_PTYCHO]


def conc_psave(ev):
    i, h, r = ev("skipform"), ev("history"), ev("save_raw_data")
    form = PSKIP_FORMS[i] if isinstance(i, int) and 0 <= i < len(PSKIP_FORMS) else "()"
    names = {"()": [], "name": ["_c14_note"], "type": ["ndarray"], "[n1]": ["_c14_note"], "[n1,T]": ["_c14_note", "ndarray"], "(n1,n2)": ["_c14_note", "_c14_flag"]}[form]
    this = dict(obj=0, skip=names, bare=form in ("name", "type"), tuple=form == "(n1,n2)", raw=bool(r == 1))
    steps = [dict(obj=0, skip=[])]
    if isinstance(h, int) and h >= 1:
        steps.append(dict(obj=0 if h == 1 else 1, skip=["_c14_flag", "_iter_lrs"]))
    return dict(store="zip", steps=steps + [this, dict(obj=0, skip=[])])


C_PSAVE.concretize, C_PSAVE.rt = conc_psave, B_PTYCHO.rt
