"""C14 - skip lists: attributes named in `skip` (at save time, at load time or both) are absent at every level of
attribute-nested AutoSerialize objects, type skipping at save removes the instances of the listed types, survivors load
exactly as without skipping, skip lists persist in the file, load-time skipping == save-time skipping.

Same engine, models and contracts as C01 (contracts/C01.py) run in *skip mode*: the skip lists handed to the real functions are
symbolic name sets (membership predicates over all strings) and an abstract type tuple, attribute names are symbolic, and the
postconditions are the set algebra  present(n)  <=>  n in attrs(x) and not (n in S_save or isinstance(x.n, T_save)) and n not in S_load.
"""
from __future__ import annotations

import z3

from pyvc.runner import Lemma, Bounded
from . import C01 as base
from .C01 import *  # noqa: F401,F403  (fixture classes must be importable from this module's namespace too)

LEVEL = "other"  # open known findings: some obligations are refuted on the current tree, so "every obligation discharged" does not hold (see known_findings.jsonl)

CONTRACTS = base.C_RLOADS + base.C_SVALS + base.C_RSAVES + base.C_SAVES + [base.C_LOAD] + base.C_SCONTS + base.C_DCONTS


def make_registry():
    return base.make_registry(skip_mode=True)

LEMMAS = base.LEMMAS_SKIP
BOUNDED = [base.B_SKIP]
TRUSTED = base.TRUSTED
ASSUMPTIONS = base.ASSUMPTIONS
EXPLANATION = ("C01's contracts in skip mode: symbolic name sets S_save / S_load (membership predicates over all strings), abstract type tuple T_save, symbolic attribute names; "
               "postcondition present(n) <=> n in attrs and not (n in S_save or isinstance(value, T_save)) and n not in S_load at every level reached through attributes, "
               "survivors ~ originals, skip lists forwarded unchanged to every recursive call, persisted by save and merged by load")
