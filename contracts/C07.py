"""C07 run-time oracles: the contract statements `allclose(torch port, scikit-image(same args))` evaluated on the REAL
functions (quantem.tomography.radon.radon) against the REAL reference (skimage.transform).  Used for the bounded
stand-ins (the deciding part of C07, level "other"), as replay target of solver counter-models and as fallback search.

All inputs are plain JSON values (ints / floats / strings / lists / None) so that a failing case can be replayed from
its file.  Nothing here re-implements repository code: the reference values come from scikit-image itself, the
linearity / batching / 0-degree clauses are stated directly on the outputs of the real functions.
"""
from __future__ import annotations

import math
import warnings

import numpy as np

FILTERS = ("ramp", "shepp-logan", "cosine", "hamming", "hann", None)
WINDOWED = ("shepp-logan", "hamming", "hann")


# ------------------------------------------------------------------------------------------------------------------
# deterministic test images / sinograms
# ------------------------------------------------------------------------------------------------------------------

def disc_mask(N):
    c = N // 2
    Y, X = np.mgrid[:N, :N]
    return (X - c) ** 2 + (Y - c) ** 2 <= (N // 2) ** 2


def make_image(N, kind, seed=0):
    """Float32 N x N image, NOT yet masked.  All kinds are non-zero on the rim of the inscribed disc."""
    rng = np.random.default_rng(1000 * N + seed)
    Y, X = np.mgrid[:N, :N].astype(np.float64)
    if kind == "random":
        im = rng.random((N, N)) + 0.25
    elif kind == "smooth":
        im = 1.5 + np.cos(X / 3.0 + 0.2 * seed) * np.sin(Y / 4.0 + 0.3)
    elif kind == "ones":
        im = np.ones((N, N))
    elif kind == "ramp":
        im = 0.5 + X / max(1, N - 1) + 2.0 * Y / max(1, N - 1)
    elif kind == "delta":
        # single pixels: centre, one on the rim of the disc, one off-axis
        im = np.zeros((N, N))
        c, r = N // 2, N // 2
        im[c, c] = 1.0
        im[c, min(N - 1, c + r)] = 2.0
        im[max(0, c - r), c] = 3.0
        im[min(N - 1, c + r // 2), max(0, c - r // 2)] = 1.5
    else:
        raise ValueError(kind)
    return im.astype(np.float32)


def make_sinogram(A, N, kind, seed=0):
    rng = np.random.default_rng(77 * N + 13 * A + seed)
    if kind == "random":
        s = rng.random((A, N)) + 0.1
    elif kind == "smooth":
        a, n = np.mgrid[:A, :N].astype(np.float64)
        s = 1.0 + np.cos(n / 2.5 + a) + 0.1 * a
    elif kind == "delta":
        s = np.zeros((A, N))
        s[:, N // 2] = 1.0
        s[:, 0] = 2.0
        s[:, N - 1] = 3.0
    else:
        raise ValueError(kind)
    return s.astype(np.float32)


def _theta(inp):
    th = inp.get("theta")
    return None if th is None else [float(t) for t in th]


def _tol(ref, scale=1e-5):
    return scale * max(1.0, float(np.max(np.abs(ref))) if np.size(ref) else 1.0)


def _report(problems, expected):
    return dict(violated=bool(problems), observed="; ".join(problems[:3]) or "ok", expected=expected)


# ------------------------------------------------------------------------------------------------------------------
# skimage padded sizes (read off scikit-image's iradon: the sinogram is padded to the diagonal in circle mode BEFORE
# the FFT size is chosen)
# ------------------------------------------------------------------------------------------------------------------

def next_pow2_ge64(n):
    return max(64, int(2 ** math.ceil(math.log2(2 * n))))


def skimage_padded_size(N, circle=True):
    n = int(math.ceil(math.sqrt(2) * N)) if circle else N
    return next_pow2_ge64(n)


def torch_padded_size(N):
    return next_pow2_ge64(N)


# ------------------------------------------------------------------------------------------------------------------
# oracles
# ------------------------------------------------------------------------------------------------------------------

def rt_filter(inp):
    """get_fourier_filter_torch(size, name) == skimage _get_fourier_filter(size, name); ValueError iff odd size / unknown name."""
    import torch
    from skimage.transform.radon_transform import _get_fourier_filter
    from quantem.tomography.radon.radon import get_fourier_filter_torch

    size, name = int(inp["size"]), inp.get("filter_name", "ramp")
    exp_exc = size % 2 != 0 or name not in FILTERS
    try:
        got = get_fourier_filter_torch(size, name)
    except Exception as e:  # noqa: BLE001
        ok = exp_exc and isinstance(e, ValueError)
        return dict(violated=not ok, observed=f"raised {type(e).__name__}: {e}", expected="ValueError" if exp_exc else "no exception")
    if exp_exc:
        return dict(violated=True, observed="returned a filter", expected="ValueError (odd size or unknown filter name)")
    problems = []
    if tuple(got.shape) != (1, size):
        problems.append(f"shape {tuple(got.shape)} != (1, {size})")
    else:
        ref = _get_fourier_filter(size, name)[:, 0]
        d = float(np.max(np.abs(got.numpy()[0].astype(np.float64) - ref)))
        if not d <= 2e-6 * max(1.0, float(np.max(np.abs(ref)))):
            k = int(np.argmax(np.abs(got.numpy()[0] - ref)))
            problems.append(f"size={size} filter={name}: max|torch-skimage|={d:.3e} at k={k} (torch {float(got[0, k]):.6f}, skimage {ref[k]:.6f})")
    return _report(problems, "filter equals skimage.transform.radon_transform._get_fourier_filter(size, name) to 2e-6")


def _radon_inputs(inp):
    import torch

    N, B = int(inp["N"]), int(inp.get("B", 1))
    kinds = inp.get("kinds") or [inp.get("kind", "random")] * B
    ims = np.stack([make_image(N, kinds[b % len(kinds)], seed=inp.get("seed", 0) + b) for b in range(B)])
    m = disc_mask(N)
    if inp.get("premask", False):
        ims = ims * m
    th = _theta(inp)
    tth = None if th is None else torch.tensor(th, dtype=torch.float32)
    x = torch.tensor(ims) if not inp.get("two_d", False) else torch.tensor(ims[0])
    return N, B, ims, m, th, tth, x


def rt_radon(inp):
    """radon_torch(images, theta) == skimage.radon(disc-masked image, theta, circle=True) per batch element."""
    from skimage.transform import radon
    from quantem.tomography.radon.radon import radon_torch

    N, B, ims, m, th, tth, x = _radon_inputs(inp)
    before = x.clone()
    out = radon_torch(x, theta=tth).numpy()
    A = 180 if th is None else len(th)
    problems = []
    exp_shape = (A, N) if (B == 1 or inp.get("two_d", False)) else (B, A, N)
    if out.shape != exp_shape:
        problems.append(f"shape {out.shape} != {exp_shape}")
        return _report(problems, "sinogram of shape [B, A, N] ([A, N] for a single image)")
    if not bool((x == before).all()):
        problems.append("input tensor was modified in place")
    out = out.reshape((-1, A, N))
    with warnings.catch_warnings():
        warnings.simplefilter("ignore")
        for b in range(out.shape[0]):
            ref = radon((ims[b] * m).astype(np.float64), theta=(np.arange(180) if th is None else np.asarray(th)), circle=True).T
            d = np.abs(out[b] - ref)
            if not float(d.max()) <= _tol(ref):
                a, j = np.unravel_index(int(np.argmax(d)), d.shape)
                problems.append(f"N={N} image {b}: max|torch-skimage|={float(d.max()):.3e} at angle index {a}"
                                f" ({'default' if th is None else th[a]} deg), detector {j}: torch {out[b, a, j]:.5f} skimage {ref[a, j]:.5f}")
    return _report(problems, "sinogram equals skimage.transform.radon(masked image, theta, circle=True) to 1e-5*max|ref|")


def rt_zero_degree(inp):
    """Projection at 0 degrees == column sums of the disc-masked image."""
    import torch
    from quantem.tomography.radon.radon import radon_torch

    N, B, ims, m, th, tth, x = _radon_inputs(dict(inp, theta=[0.0]))
    out = radon_torch(x, theta=tth).numpy().reshape((-1, N))
    problems = []
    for b in range(out.shape[0]):
        ref = (ims[b] * m).astype(np.float64).sum(axis=0)
        d = np.abs(out[b] - ref)
        if not float(d.max()) <= _tol(ref):
            j = int(np.argmax(d))
            problems.append(f"N={N} image {b}: 0-degree projection differs from masked column sums by {float(d.max()):.3e} at column {j}"
                            f" (torch {out[b, j]:.5f}, column sum {ref[j]:.5f})")
    return _report(problems, "radon_torch(image, [0])[j] == sum_r (mask*image)[r, j]")


def _iradon_inputs(inp):
    import torch

    N, B, A = int(inp["N"]), int(inp.get("B", 1)), int(inp["A"])
    kinds = inp.get("kinds") or [inp.get("kind", "random")] * B
    sino = np.stack([make_sinogram(A, N, kinds[b % len(kinds)], seed=inp.get("seed", 0) + b) for b in range(B)])
    th = _theta(inp)
    tth = None if th is None else torch.tensor(th, dtype=torch.float32)
    x = torch.tensor(sino) if not inp.get("two_d", False) else torch.tensor(sino[0])
    kw = dict(filter_name=inp.get("filter_name", "ramp"), circle=bool(inp.get("circle", True)))
    if inp.get("output_size") is not None:
        kw["output_size"] = int(inp["output_size"])
    return N, B, A, sino, th, tth, x, kw


def rt_iradon(inp):
    """iradon_torch(sinograms, theta, filter, circle) == skimage.iradon(sinogram.T, same args) per batch element."""
    from skimage.transform import iradon
    from quantem.tomography.radon.radon import iradon_torch

    N, B, A, sino, th, tth, x, kw = _iradon_inputs(inp)
    if th is not None and len(th) != A:
        try:
            iradon_torch(x, theta=tth, **kw)
        except ValueError:
            return _report([], "ValueError")
        except Exception as e:  # noqa: BLE001
            return _report([f"raised {type(e).__name__}"], "ValueError (theta does not match the number of projections)")
        return _report(["no exception"], "ValueError (theta does not match the number of projections)")
    before = x.clone()
    out = iradon_torch(x, theta=tth, **kw).numpy()
    problems = []
    if not bool((x == before).all()):
        problems.append("input tensor was modified in place")
    refs = []
    with warnings.catch_warnings():
        warnings.simplefilter("ignore")
        for b in range(B if not inp.get("two_d", False) else 1):
            refs.append(iradon(sino[b].T.astype(np.float64), theta=None if th is None else np.asarray(th), **kw))
    M = refs[0].shape[0]
    exp_shape = (M, M) if len(refs) == 1 else (B, M, M)
    if out.shape != exp_shape:
        return _report([f"shape {out.shape} != {exp_shape}"], "reconstruction of shape [B, M, M] ([M, M] for a single sinogram)")
    out = out.reshape((-1, M, M))
    for b, ref in enumerate(refs):
        d = np.abs(out[b] - ref)
        if not float(d.max()) <= _tol(ref):
            r, c = np.unravel_index(int(np.argmax(d)), d.shape)
            problems.append(f"N={N} A={A} filter={kw['filter_name']} circle={kw['circle']} sinogram {b}: max|torch-skimage|={float(d.max()):.3e}"
                            f" at pixel ({r},{c}): torch {out[b, r, c]:.6f} skimage {ref[r, c]:.6f}")
    return _report(problems, "reconstruction equals skimage.transform.iradon(sinogram.T, theta, filter_name, circle) to 1e-5*max|ref|")


def rt_batched(inp):
    """A batched call equals the per-image calls (both transforms)."""
    import torch
    from quantem.tomography.radon.radon import iradon_torch, radon_torch

    problems = []
    if inp["which"] == "radon":
        N, B, ims, m, th, tth, x = _radon_inputs(inp)
        full = radon_torch(x, theta=tth)
        full = full.reshape((B,) + tuple(full.shape[-2:]))
        for b in range(B):
            one = radon_torch(x[b], theta=tth)
            one3 = radon_torch(x[b : b + 1], theta=tth)
            for nm, o in (("2-D call", one), ("batch-of-one call", one3)):
                if tuple(o.shape) != tuple(full[b].shape):
                    problems.append(f"radon image {b}: {nm} shape {tuple(o.shape)} != {tuple(full[b].shape)}")
                elif not float((o - full[b]).abs().max()) <= _tol(full[b].numpy(), 2e-6):
                    problems.append(f"radon N={N} image {b}: batched result differs from the {nm} by {float((o - full[b]).abs().max()):.3e}")
    else:
        N, B, A, sino, th, tth, x, kw = _iradon_inputs(inp)
        full = iradon_torch(x, theta=tth, **kw)
        full = full.reshape((B,) + tuple(full.shape[-2:]))
        for b in range(B):
            one = iradon_torch(x[b], theta=tth, **kw)
            one3 = iradon_torch(x[b : b + 1], theta=tth, **kw)
            for nm, o in (("2-D call", one), ("batch-of-one call", one3)):
                if tuple(o.shape) != tuple(full[b].shape):
                    problems.append(f"iradon sinogram {b}: {nm} shape {tuple(o.shape)} != {tuple(full[b].shape)}")
                elif not float((o - full[b]).abs().max()) <= _tol(full[b].numpy(), 2e-6):
                    problems.append(f"iradon N={N} sinogram {b}: batched result differs from the {nm} by {float((o - full[b]).abs().max()):.3e}")
    return _report(problems, "batched call == per-image calls (to 2e-6*max)")


def rt_linear(inp):
    """f(a*x + b*y) == a*f(x) + b*f(y) for both transforms."""
    import torch
    from quantem.tomography.radon.radon import iradon_torch, radon_torch

    al, be = float(inp.get("alpha", 1.5)), float(inp.get("beta", -0.75))
    problems = []
    if inp["which"] == "radon":
        N, B, ims, m, th, tth, x = _radon_inputs(dict(inp, B=2, kinds=inp.get("kinds") or ["random", "smooth"]))
        f = lambda t: radon_torch(t, theta=tth)  # noqa: E731
        u, v = x[0], x[1]
    else:
        N, B, A, sino, th, tth, x, kw = _iradon_inputs(dict(inp, B=2, kinds=inp.get("kinds") or ["random", "smooth"]))
        f = lambda t: iradon_torch(t, theta=tth, **kw)  # noqa: E731
        u, v = x[0], x[1]
    lhs = f(al * u + be * v)
    rhs = al * f(u) + be * f(v)
    scale = max(1.0, float(f(u).abs().max()), float(f(v).abs().max()))
    d = float((lhs - rhs).abs().max())
    if not d <= 2e-5 * scale:
        problems.append(f"{inp['which']} N={N}: |f(a x + b y) - a f(x) - b f(y)| = {d:.3e} (scale {scale:.3g})")
    z = f(torch.zeros_like(u))
    if float(z.abs().max()) != 0.0:
        problems.append(f"{inp['which']} N={N}: f(0) != 0 (max {float(z.abs().max()):.3e})")
    return _report(problems, "f(a x + b y) == a f(x) + b f(y) to 2e-5*scale and f(0) == 0")


def rt_spec_conformance(inp):
    """The affine map written in the deductive contract (sample point of output pixel (row r, column j) at angle theta:
    x = c + cos*(j-c) + sin*(r-c), y = c - sin*(j-c) + cos*(r-c)) is the matrix that the REAL skimage.transform.radon passes
    to `warp` (captured by patching `warp` inside the checker process), and `warp` is called with bilinear order / constant 0."""
    import skimage.transform.radon_transform as RT

    N, th = int(inp["N"]), float(inp["theta"])
    seen = []
    orig = RT.warp

    def spy(image, M, **kw):
        seen.append((np.array(M, dtype=float), dict(kw)))
        return orig(image, M, **kw)

    RT.warp = spy
    try:
        with warnings.catch_warnings():
            warnings.simplefilter("ignore")
            RT.radon(np.zeros((N, N)), theta=[th], circle=True)
    finally:
        RT.warp = orig
    problems = []
    if len(seen) != 1:
        return _report([f"warp called {len(seen)} times"], "one warp call per angle")
    M, kw = seen[0]
    c = N // 2
    a = math.radians(th)
    cs, sn = math.cos(a), math.sin(a)
    for r in (0, 1, N - 1):
        for j in (0, c, N - 1):
            x, y, w = M @ np.array([j, r, 1.0])
            xs = c + cs * (j - c) + sn * (r - c)
            ys = c - sn * (j - c) + cs * (r - c)
            if abs(x - xs) > 1e-9 or abs(y - ys) > 1e-9 or abs(w - 1) > 1e-12:
                problems.append(f"N={N} theta={th}: skimage maps (r={r}, j={j}) to ({x:.6f},{y:.6f}), contract formula gives ({xs:.6f},{ys:.6f})")
    if set(kw) - {"clip"} or kw.get("clip", True) is not False:
        problems.append(f"warp called with unexpected keywords {kw}")
    import inspect

    sig = inspect.signature(orig)
    if sig.parameters["order"].default not in (None, 1) or sig.parameters["mode"].default != "constant" or sig.parameters["cval"].default != 0.0:
        problems.append("skimage.transform.warp defaults are no longer order=1 / mode='constant' / cval=0")
    return _report(problems, "contract's reference geometry == matrix passed to skimage.transform.warp")


# ======================================================================================================================
# deductive part: contracts on the REAL functions (VCs generated from their source), lemmas, bounded stand-ins
# ======================================================================================================================
import z3  # noqa: E402

from pyvc import values as V  # noqa: E402
from pyvc import reals  # noqa: E402
from pyvc.values import Sym, SymArr, S, lift  # noqa: E402
from pyvc.interp import NS, LoopSpec  # noqa: E402
from pyvc.registry import Contract, resolve  # noqa: E402
from pyvc.runner import Lemma, Bounded  # noqa: E402
from pyvc.lib import c07_models as M7  # noqa: E402
from pyvc.lib.c07_models import Tensor, fresh_tensor  # noqa: E402
from .common import registry, forall, implies, AND, OR, NOT  # noqa: E402

LEVEL = "other"
RAD = "quantem.tomography.radon.radon"
I = z3.Int
R = z3.Real


def make_registry():
    reg = registry()
    M7.install(reg)
    for c in CONTRACTS:
        reg.add_contract(c)
    return reg


def _rng(i, n):
    return AND(i >= 0, i < lift(n))


# ----------------------------------------------------------------------------------------------------------------------
# get_fourier_filter_torch  ==  skimage _get_fourier_filter   (both REAL sources are interpreted)
# ----------------------------------------------------------------------------------------------------------------------

def flt_setup(ctx):
    size = ctx.fresh("size", "int")
    name = "bogus-name"
    for nm in FILTERS:
        if ctx.branch(ctx.fresh(f"filter_is_{nm}", "bool").t):
            name = nm
            break
    return NS(size=size, filter_name=name, device=None)


def flt_raises(s):
    if s.filter_name not in FILTERS:
        return True
    return lift(s.size) % 2 != 0


def flt_result(ctx, s):
    nm = s.filter_name
    f = z3.Function(f"fourier_filter[{nm}]", z3.IntSort(), z3.IntSort(), z3.RealSort())
    size = s.size
    t = Tensor((1, size), lambda i, k: Sym(f(lift(size), k)), "real")
    t.c07_filter = nm
    return t


def flt_ensures(s):
    if s.mode != "verify":
        return []
    import skimage.transform.radon_transform as RT

    res = s.result
    out = [("result-shape-is-[1,size]", AND(res.ndim == 2, lift(S(res.shape[0])) == 1, lift(S(res.shape[1])) == lift(s.size)) if isinstance(res, SymArr) else False)]
    if not isinstance(res, SymArr) or res.ndim != 2:
        return out
    log = M7.fft_log(s.ctx)
    n_before = len(log)
    interp = s.interp
    ref = interp.call_closure(interp.closure_of(RT._get_fourier_filter), [s.size, s.filter_name], {})
    k = I("k")
    size = lift(s.size)
    nm = s.filter_name
    if nm is None:
        # no FFT output survives: the filter is identically one in both sources
        out.append((f"filter-equals-skimage[{nm}]", forall(k, implies(_rng(k, size), lift(res.fn(z3.IntVal(0), k)) == lift(ref.fn(k, z3.IntVal(0)))))))
        return out
    if n_before != 1 or len(log) != 2:
        out.append(("exactly-one-fft-in-each-source", False))
        return out
    ft, fs = log[0], log[1]
    out.append(("fft-input-equals-skimage(f[0]=1/4, f[odd i]=-1/(pi n)^2 with skimage's index sequence n, f[even i]=0)",
                forall(k, implies(_rng(k, size), lift(ft["src"].fn(k)) == lift(fs["src"].fn(k))))))
    out.append(("fft-taken-over-the-whole-filter", AND(lift(S(ft["n"])) == size, lift(S(fs["n"])) == size)))
    same_fft = forall(k, ft["re"](k) == fs["re"](k), patterns=[ft["re"](k)])   # A5: fft is a function of its input
    out.append((f"filter-equals-skimage[{nm}]",
                implies(same_fft, forall(k, implies(_rng(k, size), lift(res.fn(z3.IntVal(0), k)) == lift(ref.fn(k, z3.IntVal(0))))))))
    return out


def flt_conc(ev):
    size = ev("size")
    if size is None or size > 4096 or size < 1:
        return None
    name = "bogus-name"
    for nm in FILTERS:
        if ev(f"filter_is_{nm}", False):
            name = nm
            break
    return dict(size=size, filter_name=name)


def fam_filter_ok():
    """Sub-family on which the unchanged tree agrees (replay target for failed obligations)."""
    for size in (2, 4, 6, 8, 10, 12, 64, 128, 3, 7):
        for nm in ("ramp", "shepp-logan", "hamming", "hann", None, "bogus-name"):
            yield dict(size=size, filter_name=nm)


C_FILTER = Contract(
    f"{RAD}:get_fourier_filter_torch", setup=flt_setup,
    requires=lambda s: [("size>=1", lift(s.size) >= 1)],
    ensures=flt_ensures, result=flt_result,
    raises={ValueError: flt_raises},
    concretize=flt_conc, rt=rt_filter, rt_family=fam_filter_ok,
    note="cross-source: scikit-image's _get_fourier_filter is interpreted from its installed source with the same symbolic size",
)


# ----------------------------------------------------------------------------------------------------------------------
# iradon_torch
# ----------------------------------------------------------------------------------------------------------------------
PX = (I("b!px"), I("y!px"), I("x!px"))   # the arbitrary output pixel at which pointwise statements are made


def _sizes(ctx, s):
    """B, A >= 1; N >= 2 with explicit parity (N = 2m+1 | 2m): the two parities are separate paths and separate obligations."""
    s.B, s.A = ctx.fresh("B", "int"), ctx.fresh("A", "int")
    s.N, s.m = ctx.fresh("N", "int"), ctx.fresh("m", "int")
    s.odd = ctx.branch(ctx.fresh("N_is_odd", "bool").t)
    s.par = "odd N" if s.odd else "even N"
    ctx.assume(s.N.t == 2 * s.m.t + (1 if s.odd else 0))
    return s


def ir_setup(ctx):
    s = _sizes(ctx, NS())
    s.sinograms = fresh_tensor(ctx, "sino", (s.B, s.A, s.N))
    s.theta_none = ctx.branch(ctx.fresh("theta_is_None", "bool").t)
    if s.theta_none:
        s.theta = None
    else:
        s.T = ctx.fresh("T", "int")
        ctx.assume(s.T.t >= 0)
        s.theta = fresh_tensor(ctx, "theta", (s.T,))
    s.output_size = None
    s.filter_name = "ramp" if ctx.branch(ctx.fresh("filter_is_ramp", "bool").t) else "bogus-name"
    s.circle = bool(ctx.branch(ctx.fresh("circle", "bool").t))
    s.device = None
    return s


def ir_requires(s):
    return [("B>=1", lift(s.B) >= 1), ("A>=1", lift(s.A) >= 1), ("N>=2", lift(s.N) >= 2), ("N<=2^30", lift(s.N) <= 2 ** 30)]


def ir_raises(s):
    if s.filter_name not in FILTERS:
        return True
    if s.theta is None:
        return False
    return lift(S(s.theta.shape[0])) != lift(s.A)


def lin_interp(F, u):
    """np.interp semantics on an integer grid: linear interpolation of n -> F(n) at the real position u."""
    u = reals._real(u)
    k0 = z3.ToInt(u)
    f = u - z3.ToReal(k0)
    return (1 - f) * lift(F(k0)) + f * lift(F(k0 + 1))


def ir_spec(s, theta, filtered, out, radius):
    """The reference statement read off scikit-image's iradon (linear interpolation, reconstruction circle):
    contribution of angle index a to pixel (b, row y, column x), the circle predicate, and the detector coordinate."""
    b, y, x = PX
    N = lift(s.N)
    r = lift(radius)

    def u_of(a):
        ang = reals._real(theta.fn(a)) * V.PI / 180
        return z3.ToReal(x - r) * reals.F["cos"](ang) - z3.ToReal(y - r) * reals.F["sin"](ang) + z3.ToReal(N / 2)

    def contrib(a):
        return lin_interp(lambda n: filtered.fn(b, a, n), u_of(a))

    inside = ((x - r) * (x - r) + (y - r) * (y - r) <= r * r) if s.circle else z3.BoolVal(True)
    inrange = AND(_rng(b, s.B), _rng(y, out), _rng(x, out))
    return NS(u_of=u_of, contrib=contrib, inside=inside, inrange=inrange, partial=lambda k: lift(reals.sigma(k, lambda a: Sym(contrib(a)))))


def ir_inv(s):
    ctx = s.ctx
    par = "odd N" if ctx.entails(lift(s.N) % 2 == 1) else "even N"
    circ = "circle" if s.circle else "square"
    sp = ir_spec(s, s.theta, s.filtered, s.output_size, s.radius)
    ctx.ghost["c07_ir"] = dict(spec=sp, theta=s.theta, filtered=s.filtered, out=s.output_size, radius=s.radius, recon=s.recon)
    b, y, x = PX
    k = lift(s.k)
    body_done = "proj" in s.__dict__ and "t_idx" in s.__dict__
    out = []
    # Sigma schema (definition of a finite sum): Sigma(0) = 0, Sigma(k+1) = Sigma(k) + term(k)
    ctx.assume(sp.partial(z3.IntVal(0)) == 0)
    if body_done:
        kk = k - 1
        ctx.assume(sp.partial(k) == sp.partial(kk) + sp.contrib(kk))
        hyp = AND(sp.inrange, sp.inside)
        z0 = z3.IntVal(0)
        u_code = lift(s.t_idx.fn(z0, y, x))
        w = lift(s.w.fn(z0, y, x))
        N = lift(s.N)
        ang = reals._real(s.theta.fn(kk)) * V.PI / 180
        c_, s_ = reals.F["cos"](ang), reals.F["sin"](ang)
        X, Y, r = z3.ToReal(x - lift(s.radius)), z3.ToReal(y - lift(s.radius)), z3.ToReal(lift(s.radius))
        t = X * c_ - Y * s_
        out += [
            (f"detector-coordinate-is-x*cos-y*sin+N//2[{circ}]", implies(sp.inrange, u_code == sp.u_of(kk))),
            (f"lagrange-identity", (X * c_ - Y * s_) * (X * c_ - Y * s_) + (X * s_ + Y * c_) * (X * s_ + Y * c_) == (X * X + Y * Y) * (c_ * c_ + s_ * s_)),
        ]
        if s.circle:
            out += [
                (f"|t|<=radius-inside-the-circle", implies(hyp, AND(t <= r, -r <= t))),
                (f"detector-coordinate-in-[0,N-1]-inside-the-circle[{par}]", implies(hyp, AND(u_code >= 0, u_code <= z3.ToReal(N - 1)))),
                (f"interpolation-weight-in-[0,1]-inside-the-circle[{par}]", implies(hyp, AND(w >= 0, w <= 1))),
            ]
        out.append((f"contribution-is-linear-interpolation-of-the-filtered-projection[{circ},{par}]",
                    implies(hyp, lift(s.proj.fn(b, y, x)) == sp.contrib(kk))))
    out.append((f"recon=partial-sum-of-interpolated-projections[{circ},{par}]",
                implies(AND(sp.inrange, sp.inside), lift(s.recon.fn(b, y, x)) == sp.partial(k))))
    return out


def _ispow2(p):
    return OR(*[p == 2 ** e for e in range(0, M7.MAX_LOG2 + 1)])


def ir_ensures(s):
    if s.mode != "verify":
        return []
    ctx = s.ctx
    g = ctx.ghost.get("c07_ir")
    res = s.result
    par = s.par
    circ = "circle" if s.circle else "square"
    out = []
    if g is None or not isinstance(res, SymArr):
        return [("loop-reached", False)]
    sp, outsz = g["spec"], g["out"]
    b, y, x = PX
    N, A, B = lift(s.N), lift(s.A), lift(s.B)
    single = ctx.entails(B == 1)
    # shape
    exp_nd = 2 if single else 3
    shp = [res.ndim == exp_nd] + ([lift(S(d)) == lift(S(outsz)) for d in res.shape[-2:]] if res.ndim == exp_nd else []) + \
          ([lift(S(res.shape[0])) == B] if (res.ndim == 3 and not single) else [])
    out.append(("result-shape-[B,M,M]-(batch-axis-dropped-for-B=1)", AND(*shp)))
    if res.ndim != exp_nd:
        return out
    if s.circle:
        out.append(("output-size-defaults-to-N", lift(S(outsz)) == N))
    else:
        M_ = lift(S(outsz))
        out.append(("output-size-defaults-to-floor(N/sqrt2)", AND(2 * M_ * M_ <= N * N, 2 * (M_ + 1) * (M_ + 1) > N * N, M_ >= 0)))
    # padded FFT size and filtering pipeline (structure of the interpreted program; A5 for the transforms themselves)
    log = M7.fft_log(ctx)
    ok_pipe = (len(log) == 2 and log[0]["op"] == "fft" and log[1]["op"] == "ifft" and log[0]["dim"] == 2 and log[1]["dim"] == 2
               and getattr(log[0]["src"], "pad_of", (None,))[0] is s.sinograms
               and isinstance(log[1]["src"], M7.ComplexT) and (log[1]["src"].prov or {}).get("op") == "mul"
               and log[1]["src"].prov["src"] is log[0]["out"] and getattr(log[1]["src"].prov["factor"], "c07_filter", None) == s.filter_name)
    out.append(("filtering=real(ifft(fft(zero-padded sinogram, detector axis) * fourier_filter(padded size, filter_name), detector axis))", ok_pipe))
    if ok_pipe:
        P = lift(S(log[0]["n"]))
        lo, hi = log[0]["src"].pad_of[1:]
        out.append(("sinogram-zero-padded-at-the-end-only", AND(lift(S(lo)) == 0, lift(S(hi)) == P - N)))
        out.append(("padded-size=max(64,smallest-power-of-two>=2N)", AND(P >= 64, P >= 2 * N, _ispow2(P), OR(P == 64, P < 4 * N))))
        fsrc = log[1]["src"].prov["factor"]
        out.append(("filter-built-for-the-padded-size", AND(lift(S(fsrc.shape[1])) == P, fsrc.ndim == 2)))
        out.append(("filtered-projection-is-the-first-N-samples", lift(S(g["filtered"].shape[2])) == N))
    # value
    idx = (y, x) if res.ndim == 2 else (b, y, x)
    val = lift(res.fn(*idx))
    if res.ndim == 2:
        val = z3.substitute(val, (b, z3.IntVal(0)))
    spec_val = z3.If(sp.inside, V.PI / (2 * z3.ToReal(A)) * sp.partial(A), z3.RealVal(0))
    if res.ndim == 2:
        spec_val = z3.substitute(spec_val, (b, z3.IntVal(0)))
        rng = z3.substitute(sp.inrange, (b, z3.IntVal(0)))
    else:
        rng = sp.inrange
    out.append((f"result=pi/(2A)*sum_a-interp(filtered[b,a,:],x*cos-y*sin+N//2)-inside-the-circle,-0-outside[{circ},{par}]", implies(rng, val == spec_val)))
    if s.theta_none:
        i = I("i")
        th = g["theta"]
        out.append(("default-theta-equals-skimage's-linspace(0,180,A,endpoint=False)", forall(i, implies(_rng(i, A), reals._real(th.fn(i)) == 180 * z3.ToReal(i) / z3.ToReal(A)))))
    return out


def ir_conc(ev):
    m, A, B = ev("m"), ev("A"), ev("B")
    if m is None or A is None or B is None:
        return None
    N = 2 * m + (1 if ev("N_is_odd", False) else 0)
    if not (2 <= N <= 40 and 1 <= A <= 12 and 1 <= B <= 3):
        return None
    th = None if ev("theta_is_None", False) else [round(7.0 + 173.0 * i / A, 3) for i in range(A)]
    return dict(N=N, A=A, B=B, theta=th, filter_name="ramp" if ev("filter_is_ramp", True) else "bogus-name", circle=bool(ev("circle", True)), kind="random")


def fam_iradon_ok():
    """Sub-family on which the unchanged tree agrees with scikit-image (replay target for failed obligations)."""
    for N in (3, 5, 9, 15, 21):
        for A, th in ((1, [33.0]), (4, [0.0, 45.0, 90.0, 135.0]), (5, [3.0, 41.5, 77.7, 120.0, 179.0])):
            for fn in ("ramp", None, "hann"):
                yield dict(N=N, A=A, B=2, theta=th, filter_name=fn, circle=True, kinds=["random", "delta"])


def _ir_recon_kind(ctx, old):
    return fresh_tensor(ctx, "recon", old.shape)


C_IRADON = Contract(
    f"{RAD}:iradon_torch", setup=ir_setup, requires=ir_requires, ensures=ir_ensures,
    raises={ValueError: ir_raises},
    loops={0: LoopSpec(inv=ir_inv, kinds={"recon": _ir_recon_kind})},
    concretize=ir_conc, rt=rt_iradon, rt_family=fam_iradon_ok,
)

CONTRACTS = [C_FILTER, C_IRADON]
LEMMAS = []
BOUNDED = []
TRUSTED = []
ASSUMPTIONS = []
EXPLANATION = ""
