"""C07 run-time oracles: the contract statements `allclose(torch port, scikit-image(same args))` evaluated on the REAL
functions (quantem.tomography.radon.radon) against the REAL reference (skimage.transform).  Used for the bounded
stand-ins (the deciding part of C07, level "other"), as replay target of solver counter-models and as fallback search.

All inputs are plain JSON values (ints / floats / strings / lists / None) so that a failing case can be replayed from
its file.  Nothing here re-implements repository code: the reference values come from scikit-image itself, the
linearity / batching / 0-degree clauses are stated directly on the outputs of the real functions.
"""
from __future__ import annotations

import math
import warnings

import numpy as np

try:  # the tensors are tiny: intra-op threading only adds contention on a shared machine
    import torch as _torch

    _torch.set_num_threads(1)
except Exception:  # noqa: BLE001
    pass

FILTERS = ("ramp", "shepp-logan", "cosine", "hamming", "hann", None)
SINO_DTYPES = ("float32", "float64", "int64", "int32", "int16", "uint8")
WINDOWED = ("shepp-logan", "hamming", "hann")


# ------------------------------------------------------------------------------------------------------------------
# deterministic test images / sinograms
# ------------------------------------------------------------------------------------------------------------------

def disc_mask(N):
    c = N // 2
    Y, X = np.mgrid[:N, :N]
    return (X - c) ** 2 + (Y - c) ** 2 <= (N // 2) ** 2


def make_image(N, kind, seed=0):
    """Float32 N x N image, NOT yet masked.  All kinds are non-zero on the rim of the inscribed disc."""
    rng = np.random.default_rng(1000 * N + seed)
    Y, X = np.mgrid[:N, :N].astype(np.float64)
    if kind == "random":
        im = rng.random((N, N)) + 0.25
    elif kind == "smooth":
        im = 1.5 + np.cos(X / 3.0 + 0.2 * seed) * np.sin(Y / 4.0 + 0.3)
    elif kind == "ones":
        im = np.ones((N, N))
    elif kind == "ramp":
        im = 0.5 + X / max(1, N - 1) + 2.0 * Y / max(1, N - 1)
    elif kind == "delta":
        # single pixels: centre, one on the rim of the disc, one off-axis
        im = np.zeros((N, N))
        c, r = N // 2, N // 2
        im[c, c] = 1.0
        im[c, min(N - 1, c + r)] = 2.0
        im[max(0, c - r), c] = 3.0
        im[min(N - 1, c + r // 2), max(0, c - r // 2)] = 1.5
    else:
        raise ValueError(kind)
    return im.astype(np.float32)


def make_sinogram(A, N, kind, seed=0):
    rng = np.random.default_rng(77 * N + 13 * A + seed)
    if kind == "random":
        s = rng.random((A, N)) + 0.1
    elif kind == "smooth":
        a, n = np.mgrid[:A, :N].astype(np.float64)
        s = 1.0 + np.cos(n / 2.5 + a) + 0.1 * a
    elif kind == "delta":
        s = np.zeros((A, N))
        s[:, N // 2] = 1.0
        s[:, 0] = 2.0
        s[:, N - 1] = 3.0
    else:
        raise ValueError(kind)
    return s.astype(np.float32)


def _theta(inp):
    th = inp.get("theta")
    return None if th is None else [float(t) for t in th]


def _tol(ref, scale=1e-5):
    return scale * max(1.0, float(np.max(np.abs(ref))) if np.size(ref) else 1.0)


def _report(problems, expected):
    return dict(violated=bool(problems), observed="; ".join(problems[:3]) or "ok", expected=expected)


# ------------------------------------------------------------------------------------------------------------------
# skimage padded sizes (read off scikit-image's iradon: the sinogram is padded to the diagonal in circle mode BEFORE
# the FFT size is chosen)
# ------------------------------------------------------------------------------------------------------------------

def next_pow2_ge64(n):
    return max(64, int(2 ** math.ceil(math.log2(2 * n))))


def skimage_padded_size(N, circle=True):
    n = int(math.ceil(math.sqrt(2) * N)) if circle else N
    return next_pow2_ge64(n)


def torch_padded_size(N):
    return next_pow2_ge64(N)


# ------------------------------------------------------------------------------------------------------------------
# oracles
# ------------------------------------------------------------------------------------------------------------------

def rt_filter(inp):
    """get_fourier_filter_torch(size, name) == skimage _get_fourier_filter(size, name); ValueError iff odd size / unknown name."""
    import torch
    from skimage.transform.radon_transform import _get_fourier_filter
    from quantem.tomography.radon.radon import get_fourier_filter_torch

    size, name = int(inp["size"]), inp.get("filter_name", "ramp")
    exp_exc = size % 2 != 0 or name not in FILTERS
    try:
        got = get_fourier_filter_torch(size, name)
    except Exception as e:  # noqa: BLE001
        ok = exp_exc and isinstance(e, ValueError)
        return dict(violated=not ok, observed=f"raised {type(e).__name__}: {e}", expected="ValueError" if exp_exc else "no exception")
    if exp_exc:
        return dict(violated=True, observed="returned a filter", expected="ValueError (odd size or unknown filter name)")
    problems = []
    if tuple(got.shape) != (1, size):
        problems.append(f"shape {tuple(got.shape)} != (1, {size})")
    else:
        ref = _get_fourier_filter(size, name)[:, 0]
        d = float(np.max(np.abs(got.numpy()[0].astype(np.float64) - ref)))
        if not d <= 2e-6 * max(1.0, float(np.max(np.abs(ref)))):
            k = int(np.argmax(np.abs(got.numpy()[0] - ref)))
            problems.append(f"size={size} filter={name}: max|torch-skimage|={d:.3e} at k={k} (torch {float(got[0, k]):.6f}, skimage {ref[k]:.6f})")
    return _report(problems, "filter equals skimage.transform.radon_transform._get_fourier_filter(size, name) to 2e-6")


def _radon_inputs(inp):
    import torch

    N, B = int(inp["N"]), int(inp.get("B", 1))
    kinds = inp.get("kinds") or [inp.get("kind", "random")] * B
    ims = np.stack([make_image(N, kinds[b % len(kinds)], seed=inp.get("seed", 0) + b) for b in range(B)])
    m = disc_mask(N)
    if inp.get("premask", False):
        ims = ims * m
    th = _theta(inp)
    tth = None if th is None else torch.tensor(th, dtype=torch.float32)
    x = torch.tensor(ims) if not inp.get("two_d", False) else torch.tensor(ims[0])
    return N, B, ims, m, th, tth, x


def rt_radon(inp):
    """radon_torch(images, theta) == skimage.radon(disc-masked image, theta, circle=True) per batch element."""
    from skimage.transform import radon
    from quantem.tomography.radon.radon import radon_torch

    N, B, ims, m, th, tth, x = _radon_inputs(inp)
    before = x.clone()
    out = radon_torch(x, theta=tth).numpy()
    A = 180 if th is None else len(th)
    problems = []
    exp_shape = (A, N) if (B == 1 or inp.get("two_d", False)) else (B, A, N)
    if out.shape != exp_shape:
        problems.append(f"shape {out.shape} != {exp_shape}")
        return _report(problems, "sinogram of shape [B, A, N] ([A, N] for a single image)")
    if not bool((x == before).all()):
        problems.append("input tensor was modified in place")
    out = out.reshape((-1, A, N))
    with warnings.catch_warnings():
        warnings.simplefilter("ignore")
        for b in range(out.shape[0]):
            ref = radon((ims[b] * m).astype(np.float64), theta=(np.arange(180) if th is None else np.asarray(th)), circle=True).T
            d = np.abs(out[b] - ref)
            if not float(d.max()) <= _tol(ref):
                a, j = np.unravel_index(int(np.argmax(d)), d.shape)
                problems.append(f"N={N} image {b}: max|torch-skimage|={float(d.max()):.3e} at angle index {a}"
                                f" ({'default' if th is None else th[a]} deg), detector {j}: torch {out[b, a, j]:.5f} skimage {ref[a, j]:.5f}")
    return _report(problems, "sinogram equals skimage.transform.radon(masked image, theta, circle=True) to 1e-5*max|ref|")


def rt_zero_degree(inp):
    """Projection at 0 degrees == column sums of the disc-masked image."""
    import torch
    from quantem.tomography.radon.radon import radon_torch

    N, B, ims, m, th, tth, x = _radon_inputs(dict(inp, theta=[0.0]))
    out = radon_torch(x, theta=tth).numpy().reshape((-1, N))
    problems = []
    for b in range(out.shape[0]):
        ref = (ims[b] * m).astype(np.float64).sum(axis=0)
        d = np.abs(out[b] - ref)
        if not float(d.max()) <= _tol(ref):
            j = int(np.argmax(d))
            problems.append(f"N={N} image {b}: 0-degree projection differs from masked column sums by {float(d.max()):.3e} at column {j}"
                            f" (torch {out[b, j]:.5f}, column sum {ref[j]:.5f})")
    return _report(problems, "radon_torch(image, [0])[j] == sum_r (mask*image)[r, j]")


def _iradon_inputs(inp):
    import torch

    N, B, A = int(inp["N"]), int(inp.get("B", 1)), int(inp["A"])
    kinds = inp.get("kinds") or [inp.get("kind", "random")] * B
    sino = np.stack([make_sinogram(A, N, kinds[b % len(kinds)], seed=inp.get("seed", 0) + b) for b in range(B)])
    th = _theta(inp)
    tth = None if th is None else torch.tensor(th, dtype=torch.float32)
    dt = inp.get("sino_dtype") or "float32"
    if dt not in SINO_DTYPES:
        raise ValueError(f"unknown sinogram dtype {dt}")
    if dt != "float32":
        # value kind of the argument: detector COUNTS stored in an integer tensor (or a float64 tensor); the reference is
        # scikit-image on the same numbers (it converts every input to float)
        sino = np.floor(sino * 40.0) if dt != "float64" else sino.astype(np.float64) * 40.0
    x = torch.tensor(sino).to(getattr(torch, dt))
    if inp.get("two_d", False):
        x = x[0]
    kw = dict(filter_name=inp.get("filter_name", "ramp"), circle=bool(inp.get("circle", True)))
    if inp.get("output_size") is not None:
        kw["output_size"] = int(inp["output_size"])
    return N, B, A, sino, th, tth, x, kw


def rt_iradon(inp):
    """iradon_torch(sinograms, theta, filter, circle) == skimage.iradon(sinogram.T, same args) per batch element."""
    from skimage.transform import iradon
    from quantem.tomography.radon.radon import iradon_torch

    import torch

    N, B, A, sino, th, tth, x, kw = _iradon_inputs(inp)
    if th is not None and len(th) != A:
        try:
            iradon_torch(x, theta=tth, **kw)
        except ValueError:
            return _report([], "ValueError")
        except Exception as e:  # noqa: BLE001
            return _report([f"raised {type(e).__name__}"], "ValueError (theta does not match the number of projections)")
        return _report(["no exception"], "ValueError (theta does not match the number of projections)")
    before = x.clone()
    try:
        res = iradon_torch(x, theta=tth, **kw)
    except Exception as e:  # noqa: BLE001  (an exception of the REAL function is a reported failure, never a checker fault)
        return _report([f"N={N} A={A} filter={kw['filter_name']} dtype={x.dtype}: raised {type(e).__name__}: {str(e)[:160]}"],
                       "a reconstruction (scikit-image accepts every filter name for every numeric sinogram)")
    problems = []
    if not res.dtype.is_floating_point:
        problems.append(f"reconstruction has dtype {res.dtype} (a filtered back-projection is real-valued)")
    out = res.to(torch.float64).numpy()
    if not bool((x == before).all()):
        problems.append("input tensor was modified in place")
    if not x.dtype.is_floating_point:
        # the reconstruction of an integer (count) sinogram equals that of its float copy
        try:
            fl = iradon_torch(x.to(torch.float32), theta=tth, **kw).to(torch.float64).numpy()
            if fl.shape != out.shape or not float(np.abs(fl - out).max()) <= 1e-6 * max(1.0, float(np.abs(fl).max())):
                problems.append(f"N={N} filter={kw['filter_name']}: reconstruction of the {x.dtype} sinogram differs from that of its float32 copy by "
                                f"{float(np.abs(fl - out).max()) if fl.shape == out.shape else 'shape'}")
        except Exception as e:  # noqa: BLE001
            problems.append(f"float copy raised {type(e).__name__}")
    refs = []
    with warnings.catch_warnings():
        warnings.simplefilter("ignore")
        for b in range(B if not inp.get("two_d", False) else 1):
            refs.append(iradon(sino[b].T.astype(np.float64), theta=None if th is None else np.asarray(th), **kw))
    M = refs[0].shape[0]
    exp_shape = (M, M) if len(refs) == 1 else (B, M, M)
    if out.shape != exp_shape:
        return _report([f"shape {out.shape} != {exp_shape}"], "reconstruction of shape [B, M, M] ([M, M] for a single sinogram)")
    out = out.reshape((-1, M, M))
    for b, ref in enumerate(refs):
        d = np.abs(out[b] - ref)
        if not float(d.max()) <= _tol(ref):
            r, c = np.unravel_index(int(np.argmax(d)), d.shape)
            problems.append(f"N={N} A={A} filter={kw['filter_name']} circle={kw['circle']} sinogram {b}: max|torch-skimage|={float(d.max()):.3e}"
                            f" at pixel ({r},{c}): torch {out[b, r, c]:.6f} skimage {ref[r, c]:.6f}")
    return _report(problems, "reconstruction equals skimage.transform.iradon(sinogram.T, theta, filter_name, circle) to 1e-5*max|ref|")


def rt_batched(inp):
    """A batched call equals the per-image calls (both transforms)."""
    import torch
    from quantem.tomography.radon.radon import iradon_torch, radon_torch

    problems = []
    if inp["which"] == "radon":
        N, B, ims, m, th, tth, x = _radon_inputs(inp)
        full = radon_torch(x, theta=tth)
        full = full.reshape((B,) + tuple(full.shape[-2:]))
        for b in range(B):
            one = radon_torch(x[b], theta=tth)
            one3 = radon_torch(x[b : b + 1], theta=tth)
            for nm, o in (("2-D call", one), ("batch-of-one call", one3)):
                if tuple(o.shape) != tuple(full[b].shape):
                    problems.append(f"radon image {b}: {nm} shape {tuple(o.shape)} != {tuple(full[b].shape)}")
                elif not float((o - full[b]).abs().max()) <= _tol(full[b].numpy(), 2e-6):
                    problems.append(f"radon N={N} image {b}: batched result differs from the {nm} by {float((o - full[b]).abs().max()):.3e}")
    else:
        N, B, A, sino, th, tth, x, kw = _iradon_inputs(inp)
        full = iradon_torch(x, theta=tth, **kw)
        full = full.reshape((B,) + tuple(full.shape[-2:]))
        for b in range(B):
            one = iradon_torch(x[b], theta=tth, **kw)
            one3 = iradon_torch(x[b : b + 1], theta=tth, **kw)
            for nm, o in (("2-D call", one), ("batch-of-one call", one3)):
                if tuple(o.shape) != tuple(full[b].shape):
                    problems.append(f"iradon sinogram {b}: {nm} shape {tuple(o.shape)} != {tuple(full[b].shape)}")
                elif not float((o - full[b]).abs().max()) <= _tol(full[b].numpy(), 2e-6):
                    problems.append(f"iradon N={N} sinogram {b}: batched result differs from the {nm} by {float((o - full[b]).abs().max()):.3e}")
    return _report(problems, "batched call == per-image calls (to 2e-6*max)")


def rt_linear(inp):
    """f(a*x + b*y) == a*f(x) + b*f(y) for both transforms."""
    import torch
    from quantem.tomography.radon.radon import iradon_torch, radon_torch

    al, be = float(inp.get("alpha", 1.5)), float(inp.get("beta", -0.75))
    problems = []
    if inp["which"] == "radon":
        N, B, ims, m, th, tth, x = _radon_inputs(dict(inp, B=2, kinds=inp.get("kinds") or ["random", "smooth"]))
        f = lambda t: radon_torch(t, theta=tth)  # noqa: E731
        u, v = x[0], x[1]
    else:
        N, B, A, sino, th, tth, x, kw = _iradon_inputs(dict(inp, B=2, kinds=inp.get("kinds") or ["random", "smooth"]))
        f = lambda t: iradon_torch(t, theta=tth, **kw)  # noqa: E731
        u, v = x[0], x[1]
    lhs = f(al * u + be * v)
    rhs = al * f(u) + be * f(v)
    scale = max(1.0, float(f(u).abs().max()), float(f(v).abs().max()))
    d = float((lhs - rhs).abs().max())
    if not d <= 2e-5 * scale:
        problems.append(f"{inp['which']} N={N}: |f(a x + b y) - a f(x) - b f(y)| = {d:.3e} (scale {scale:.3g})")
    z = f(torch.zeros_like(u))
    if float(z.abs().max()) != 0.0:
        problems.append(f"{inp['which']} N={N}: f(0) != 0 (max {float(z.abs().max()):.3e})")
    return _report(problems, "f(a x + b y) == a f(x) + b f(y) to 2e-5*scale and f(0) == 0")


def rt_spec_conformance(inp):
    """The affine map written in the deductive contract (sample point of output pixel (row r, column j) at angle theta:
    x = c + cos*(j-c) + sin*(r-c), y = c - sin*(j-c) + cos*(r-c)) is the matrix that the REAL skimage.transform.radon passes
    to `warp` (captured by patching `warp` inside the checker process), and `warp` is called with bilinear order / constant 0."""
    import skimage.transform.radon_transform as RT

    N, th = int(inp["N"]), float(inp["theta"])
    seen = []
    orig = RT.warp

    def spy(image, M, **kw):
        seen.append((np.array(M, dtype=float), dict(kw)))
        return orig(image, M, **kw)

    RT.warp = spy
    try:
        with warnings.catch_warnings():
            warnings.simplefilter("ignore")
            RT.radon(np.zeros((N, N)), theta=[th], circle=True)
    finally:
        RT.warp = orig
    problems = []
    if len(seen) != 1:
        return _report([f"warp called {len(seen)} times"], "one warp call per angle")
    M, kw = seen[0]
    c = N // 2
    a = math.radians(th)
    cs, sn = math.cos(a), math.sin(a)
    for r in (0, 1, N - 1):
        for j in (0, c, N - 1):
            x, y, w = M @ np.array([j, r, 1.0])
            xs = c + cs * (j - c) + sn * (r - c)
            ys = c - sn * (j - c) + cs * (r - c)
            if abs(x - xs) > 1e-9 or abs(y - ys) > 1e-9 or abs(w - 1) > 1e-12:
                problems.append(f"N={N} theta={th}: skimage maps (r={r}, j={j}) to ({x:.6f},{y:.6f}), contract formula gives ({xs:.6f},{ys:.6f})")
    if set(kw) - {"clip"} or kw.get("clip", True) is not False:
        problems.append(f"warp called with unexpected keywords {kw}")
    import inspect

    sig = inspect.signature(orig)
    if sig.parameters["order"].default not in (None, 1) or sig.parameters["mode"].default != "constant" or sig.parameters["cval"].default != 0.0:
        problems.append("skimage.transform.warp defaults are no longer order=1 / mode='constant' / cval=0")
    return _report(problems, "contract's reference geometry == matrix passed to skimage.transform.warp")


def _never_crash(rt):
    """An oracle must not crash on a patched tree: an unexpected exception from the REAL function is a failure it reports."""
    import functools

    @functools.wraps(rt)
    def f(inp):
        try:
            return rt(inp)
        except Exception as e:  # noqa: BLE001
            import traceback

            return dict(violated=True, observed=f"raised {type(e).__name__}: {str(e)[:200]} ({traceback.format_exc().strip().splitlines()[-3].strip()[:120]})",
                        expected="no exception (the unchanged tree evaluates this case)")
    return f


rt_filter, rt_radon, rt_zero_degree, rt_iradon, rt_batched, rt_linear = (_never_crash(f_) for f_ in (rt_filter, rt_radon, rt_zero_degree, rt_iradon, rt_batched, rt_linear))


# ======================================================================================================================
# deductive part: contracts on the REAL functions (VCs generated from their source), lemmas, bounded stand-ins
# ======================================================================================================================
import z3  # noqa: E402

from pyvc import values as V  # noqa: E402
from pyvc import reals  # noqa: E402
from pyvc.values import Sym, SymArr, S, lift  # noqa: E402
from pyvc.interp import NS, LoopSpec  # noqa: E402
from pyvc.registry import Contract, resolve  # noqa: E402
from pyvc.runner import Lemma, Bounded  # noqa: E402
from pyvc.lib import c07_models as M7  # noqa: E402
from pyvc.lib.c07_models import Tensor, fresh_tensor  # noqa: E402
from .common import registry, forall, implies, AND, OR, NOT  # noqa: E402

# evidence strings of very large terms: keep z3's (pure Python) pretty printer from walking them completely
z3.set_option(max_visited=250, max_lines=12, max_depth=10, max_args=12)

LEVEL = "other"
RAD = "quantem.tomography.radon.radon"
I = z3.Int
R = z3.Real


def make_registry():
    reg = registry()
    M7.install(reg)
    for c in CONTRACTS:
        reg.add_contract(c)
    return reg


def _rng(i, n):
    return AND(i >= 0, i < lift(n))


# ----------------------------------------------------------------------------------------------------------------------
# get_fourier_filter_torch  ==  skimage _get_fourier_filter   (both REAL sources are interpreted)
# ----------------------------------------------------------------------------------------------------------------------

def _is_floating(dt):
    return bool(isinstance(dt, _torch.dtype) and dt.is_floating_point)


def flt_setup(ctx):
    size = ctx.fresh("size", "int")
    name = "bogus-name"
    for nm in FILTERS:
        if ctx.branch(ctx.fresh(f"filter_is_{nm}", "bool").t):
            name = nm
            break
    return NS(size=size, filter_name=name, device=None)


def flt_raises(s):
    if s.filter_name not in FILTERS:
        return True
    return lift(s.size) % 2 != 0


def flt_result(ctx, s):
    nm = s.filter_name
    f = z3.Function(f"fourier_filter[{nm}]", z3.IntSort(), z3.IntSort(), z3.RealSort())
    size = s.size
    t = Tensor((1, size), lambda i, k: Sym(f(lift(size), k)), "real")
    t.c07_filter = nm
    return t


def flt_ensures(s):
    if s.mode != "verify":
        return []
    import skimage.transform.radon_transform as RT

    res = s.result
    out = [("result-shape-is-[1,size]", AND(res.ndim == 2, lift(S(res.shape[0])) == 1, lift(S(res.shape[1])) == lift(s.size)) if isinstance(res, SymArr) else False)]
    if not isinstance(res, SymArr) or res.ndim != 2:
        return out
    log = M7.fft_log(s.ctx)
    n_before = len(log)
    interp = s.interp
    ref = interp.call_closure(interp.closure_of(RT._get_fourier_filter), [s.size, s.filter_name], {})
    k = I("k")
    size = lift(s.size)
    nm = s.filter_name
    if nm is None:
        # no FFT output survives: the filter is identically one in both sources
        out.append((f"filter-equals-skimage[{nm}]", forall(k, implies(_rng(k, size), lift(res.fn(z3.IntVal(0), k)) == lift(ref.fn(k, z3.IntVal(0)))))))
        return out
    if n_before != 1 or len(log) != 2:
        out.append(("exactly-one-fft-in-each-source", False))
        return out
    ft, fs = log[0], log[1]
    out.append(("fft-input-equals-skimage(f[0]=1/4, f[odd i]=-1/(pi n)^2 with skimage's index sequence n, f[even i]=0)",
                forall(k, implies(_rng(k, size), lift(ft["src"].fn(k)) == lift(fs["src"].fn(k))))))
    out.append(("fft-taken-over-the-whole-filter", AND(lift(S(ft["n"])) == size, lift(S(fs["n"])) == size)))
    same_fft = forall(k, ft["re"](k) == fs["re"](k), patterns=[ft["re"](k)])   # A5: fft is a function of its input
    out.append((f"filter-equals-skimage[{nm}]",
                implies(same_fft, forall(k, implies(_rng(k, size), lift(res.fn(z3.IntVal(0), k)) == lift(ref.fn(k, z3.IntVal(0))))))))
    return out


def flt_conc(ev):
    size = ev("size")
    if size is None or size > 4096 or size < 1:
        return None
    name = "bogus-name"
    for nm in FILTERS:
        if ev(f"filter_is_{nm}", False):
            name = nm
            break
    return dict(size=size, filter_name=name)


def fam_filter_ok():
    """Sub-family on which the unchanged tree agrees (replay target for failed obligations)."""
    for size in (2, 4, 6, 8, 10, 12, 64, 128, 3, 7):
        for nm in ("ramp", "shepp-logan", "hamming", "hann", None, "bogus-name"):
            yield dict(size=size, filter_name=nm)


C_FILTER = Contract(
    f"{RAD}:get_fourier_filter_torch", setup=flt_setup,
    requires=lambda s: [("size>=1", lift(s.size) >= 1),
                        ("dtype-is-a-floating-dtype(the-kernel-holds-1/4-and--1/(pi*n)^2;an-integer-kernel-truncates-to-0)", _is_floating(s.__dict__.get("dtype", _torch.float32)))],
    ensures=flt_ensures, result=flt_result,
    raises={ValueError: flt_raises},
    concretize=flt_conc, rt=rt_filter, rt_family=fam_filter_ok,
    note="cross-source: scikit-image's _get_fourier_filter is interpreted from its installed source with the same symbolic size",
)


# ----------------------------------------------------------------------------------------------------------------------
# iradon_torch
# ----------------------------------------------------------------------------------------------------------------------
PX = (I("b!px"), I("y!px"), I("x!px"))   # the arbitrary output pixel at which pointwise statements are made


def _sizes(ctx, s):
    """B, A >= 1; N >= 2 with explicit parity (N = 2m+1 | 2m): the two parities are separate paths and separate obligations."""
    s.B, s.A = ctx.fresh("B", "int"), ctx.fresh("A", "int")
    s.N, s.m = ctx.fresh("N", "int"), ctx.fresh("m", "int")
    s.odd = ctx.branch(ctx.fresh("N_is_odd", "bool").t)
    s.par = "odd N" if s.odd else "even N"
    ctx.assume(s.N.t == 2 * s.m.t + (1 if s.odd else 0))
    return s


def ir_setup(ctx):
    s = _sizes(ctx, NS())
    s.sinograms = fresh_tensor(ctx, "sino", (s.B, s.A, s.N))
    s.theta_none = ctx.branch(ctx.fresh("theta_is_None", "bool").t)
    if s.theta_none:
        s.theta = None
    else:
        s.T = ctx.fresh("T", "int")
        ctx.assume(s.T.t >= 0)
        s.theta = fresh_tensor(ctx, "theta", (s.T,))
    s.output_size = None
    s.filter_name = "ramp" if ctx.branch(ctx.fresh("filter_is_ramp", "bool").t) else "bogus-name"
    s.circle = bool(ctx.branch(ctx.fresh("circle", "bool").t))
    s.device = None
    # value kind of the sinogram argument: float32, or detector counts in an integer tensor (scikit-image converts every input to float;
    # the port must build its filter in a floating dtype whatever the sinogram's dtype)
    s.sino_dtype = "float32"
    for dt in ("int64", "float64"):
        if ctx.branch(ctx.fresh(f"sinogram_dtype_is_{dt}", "bool").t):
            s.sino_dtype = dt
            break
    s.sinograms.dt = getattr(_torch, s.sino_dtype)
    ctx.ghost["c07_setup"] = s
    # explored configurations (each with both parities of N unless stated):
    #   explicit theta x circle in {True, False} x ramp | default theta x circle=True x ramp | odd N, explicit theta, circle=True, unknown filter name
    #   | odd N, explicit theta, circle=True, ramp, sinogram dtype in {int64, float64}
    ok = (s.filter_name == "ramp" and (not s.theta_none or s.circle)) or (s.filter_name != "ramp" and s.odd and not s.theta_none and s.circle)
    if s.sino_dtype != "float32":
        ok = s.filter_name == "ramp" and s.odd and not s.theta_none and s.circle
    if not ok:
        from pyvc.interp import PathEnd

        raise PathEnd("configuration not explored")
    return s


def ir_requires(s):
    return [("B>=1", lift(s.B) >= 1), ("A>=1", lift(s.A) >= 1), ("N>=2", lift(s.N) >= 2), ("N<=2^29", lift(s.N) <= 2 ** 29)]


def ir_raises(s):
    if s.filter_name not in FILTERS:
        return True
    if s.theta is None:
        return False
    return lift(S(s.theta.shape[0])) != lift(s.A)


def lin_interp(F, u):
    """np.interp semantics on an integer grid: linear interpolation of n -> F(n) at the real position u."""
    u = reals._real(u)
    k0 = z3.ToInt(u)
    f = u - z3.ToReal(k0)
    return (1 - f) * lift(F(k0)) + f * lift(F(k0 + 1))


def ir_spec(s, theta, filtered, out, radius):
    """The reference statement read off scikit-image's iradon (linear interpolation, reconstruction circle):
    contribution of angle index a to pixel (b, row y, column x), the circle predicate, and the detector coordinate."""
    b, y, x = PX
    N = lift(s.N)
    r = lift(S(radius)) if not V.is_z3(radius) else radius

    def u_of(a):
        ang = reals._real(theta.fn(a)) * V.PI / 180
        return z3.ToReal(x - r) * reals.F["cos"](ang) - z3.ToReal(y - r) * reals.F["sin"](ang) + z3.ToReal(N / 2)

    def contrib(a):
        return lin_interp(lambda n: filtered.fn(b, a, n), u_of(a))

    inside = ((x - r) * (x - r) + (y - r) * (y - r) <= r * r) if s.circle else z3.BoolVal(True)
    inrange = AND(_rng(b, s.B), _rng(y, out), _rng(x, out))
    return NS(u_of=u_of, contrib=contrib, inside=inside, inrange=inrange, partial=lambda k: lift(reals.sigma(k, lambda a: Sym(contrib(a)))))


def emit(ctx, name, goal, hyps=(), gen=(), kind="loop-body"):
    """Obligation with an explicit, minimal hypothesis set.  Every hypothesis handed in is a fact of the current path
    (precondition, parity, a definitional assumption, or the statement of an obligation emitted before it), so the
    obligation is at least as strong as the one the engine would generate with the whole path condition.
    `gen`: generalisation - sub-terms replaced by fresh constants in hypotheses and goal alike (validity of the
    generalised formula implies validity of the instance); keeps the queries linear."""
    from pyvc.path import Obligation

    hs = list(V.PI_FACTS) + [lift(h) for h in hyps]
    g = lift(goal)
    if gen:
        gen = [(a_, b_) for a_, b_ in gen]
        hs = [z3.substitute(h, *gen) for h in hs]
        g = z3.substitute(g, *gen)
    where = ctx.frames[-1] if ctx.frames else ""
    ctx.obligs.append(Obligation(name, hs, g, kind, where, {}))
    return lift(goal)


PS_IR = z3.Function("iradon_partial_sum", z3.IntSort(), z3.IntSort(), z3.IntSort(), z3.IntSort(), z3.RealSort())


def _find_local(s, want, shape_nd, args):
    """Name-independent access to a body temporary: the local tensor (of rank `shape_nd`) whose generic element is provably `want`."""
    ctx = s.ctx
    for name, v in sorted(s.__dict__.items()):
        if isinstance(v, SymArr) and v.ndim == shape_nd and name not in ("pre",):
            try:
                e = reals._real(v.fn(*args))
            except Exception:  # noqa: BLE001
                continue
            if e.eq(want) or ctx.entails(e == want):
                return e
    return None


def ir_inv(s):
    """Loop over the projection angles.  Invariant (at the arbitrary pixel PX, inside the reconstruction circle):
        recon[b,y,x] == PS(k; b,y,x),   PS(0) = 0,  PS(k+1) = PS(k) + interp(filtered[b,k,:], x*cos(th_k) - y*sin(th_k) + N//2)
    i.e. the partial sum of scikit-image's per-angle term.  The body obligations are emitted as a chain with explicit hypotheses.
    Only the accumulator `recon` and the parameters are referred to by name; temporaries are found by their role."""
    ctx = s.ctx
    su = ctx.ghost["c07_setup"]
    log = M7.fft_log(ctx)
    if not su.circle or len(log) != 2:
        # circle=False: only the structural postconditions are stated (see ASSUMPTIONS)
        ctx.ghost["c07_ir_sq"] = dict(out=s.__dict__.get("output_size"), theta=s.__dict__.get("theta"))
        return []
    par = su.par
    N, A, B = lift(su.N), lift(su.A), lift(su.B)
    r = N / 2                                            # reference: radius = output_size // 2, output_size = N
    filt = log[1]["out"].re                              # real(ifft(...)) BEFORE cropping: F(b, a, n) for every integer n
    theta = su.theta if isinstance(su.theta, SymArr) else s.theta     # the caller's angles (see rd_inv)
    sp = ir_spec(su, theta, filt, N, r)
    ctx.ghost["c07_ir"] = dict(spec=sp, theta=theta, out=N)
    b, y, x = PX
    k = lift(s.k)
    here = AND(sp.inrange, sp.inside)
    ctx.assume(PS_IR(z3.IntVal(0), b, y, x) == 0)   # definition of the partial sum
    body_done = len(ctx.ghost.get("c07_gather", [])) > 0
    if not body_done:
        inv = implies(here, lift(s.recon.fn(b, y, x)) == PS_IR(k, b, y, x))
        ctx.ghost["c07_ir_inv_k"] = (inv, reals._real(s.recon.fn(b, y, x)))
        return [(f"recon=partial-sum-of-interpolated-projections[{par}]", inv)]
    # ---- after the body (k = k0 + 1): chain of obligations about iteration kk = k - 1
    kk = z3.simplify(k - 1)
    lid = "iradon_torch@loop0:inv-preserved:"
    base = [B >= 1, A >= 1, N >= 2, N % 2 == (1 if par == "odd N" else 0), sp.inrange, kk >= 0, kk < A]
    z0 = z3.IntVal(0)
    u_spec = sp.u_of(kk)
    ang = reals._real(theta.fn(kk)) * V.PI / 180
    c_, s_ = reals.F["cos"](ang), reals.F["sin"](ang)
    X, Y = z3.ToReal(x - r), z3.ToReal(y - r)
    t = X * c_ - Y * s_
    U, U2, T = R("U!gen"), R("U2!gen"), R("T!gen")
    inv_k, recon_k = ctx.ghost["c07_ir_inv_k"]
    u_code = _find_local(s, u_spec, 3, (z0, y, x))
    if u_code is None:
        emit(ctx, lid + "detector-coordinate-is-x*cos-y*sin+N//2", False, base)
        return []
    g_u = emit(ctx, lid + "detector-coordinate-is-x*cos-y*sin+N//2", u_code == u_spec, base)
    # the samples the code can read without clamping: positions 0 .. M-1 of the filtered projection (M = N on the unchanged tree)
    M_ = lift(S(ctx.ghost["c07_gather"][0]["input"].shape[1]))
    hi = M_ - 1
    o1 = emit(ctx, lid + f"rotation-axis+-radius-lies-within-the-kept-filtered-samples[{par}]", AND(N / 2 + r <= hi, N / 2 - r >= 0, M_ <= N + 1),
              base + [N <= 2 ** 29])
    g_r0 = emit(ctx, lid + "radius>=0", r >= 0, base)
    Cc, Ss, Xg, Yg, Rg = R("cos!gen"), R("sin!gen"), I("X!gen"), I("Y!gen"), I("r!gen")
    l1 = emit(ctx, lid + "|x*cos-y*sin|<=radius-inside-the-circle", implies(sp.inside, AND(t <= z3.ToReal(r), -z3.ToReal(r) <= t)),
              [g_r0, c_ * c_ + s_ * s_ == 1],   # A4 instance sin^2+cos^2=1
              gen=[(c_, Cc), (s_, Ss), (x - r, Xg), (y - r, Yg), (r, Rg)])
    g_rng = emit(ctx, lid + f"detector-coordinate-within-the-kept-samples-inside-the-circle[{par}]",
                 implies(sp.inside, AND(u_spec >= 0, u_spec <= z3.ToReal(hi))), base + [o1, l1], gen=[(t, T)])
    facts = base + [g_u, g_rng]
    # this iteration's contribution = accumulator after - accumulator before
    pj, cn = reals._real(s.recon.fn(b, y, x)) - recon_k, sp.contrib(kk)
    g_lin = emit(ctx, lid + f"contribution-is-linear-interpolation-of-the-filtered-projection(weights-in-[0,1],no-clamping)[{par}]",
                 implies(sp.inside, pj == cn), facts + [N <= 2 ** 29], gen=[(u_code, U), (u_spec, U2)])
    Pj, Cn = R("proj!gen"), R("contrib!gen")
    unfold = PS_IR(k, b, y, x) == PS_IR(kk, b, y, x) + cn           # definition of the partial sum
    emit(ctx, lid + f"recon=partial-sum-of-interpolated-projections[{par}]",
         implies(here, lift(s.recon.fn(b, y, x)) == PS_IR(k, b, y, x)),
         base + [g_lin, unfold, inv_k], gen=[(cn, Cn)])
    return []


def _ispow2(p):
    return OR(*[p == 2 ** e for e in range(0, M7.MAX_LOG2 + 1)])


def ir_ensures(s):
    if s.mode != "verify":
        return []
    ctx = s.ctx
    g = ctx.ghost.get("c07_ir")
    res = s.result
    par = s.par
    circ = "circle" if s.circle else "square"
    out = []
    if not isinstance(res, SymArr):
        return [("returns-a-tensor", False)]
    if g is None:
        if s.circle:
            return [("loop-reached", False)]
        g = ctx.ghost.get("c07_ir_sq") or {}
    sp, outsz = g.get("spec"), g["out"]
    b, y, x = PX
    N, A, B = lift(s.N), lift(s.A), lift(s.B)
    single = ctx.entails(B == 1)
    # shape
    exp_nd = 2 if single else 3
    shp = [res.ndim == exp_nd] + ([lift(S(d)) == lift(S(outsz)) for d in res.shape[-2:]] if res.ndim == exp_nd else []) + \
          ([lift(S(res.shape[0])) == B] if (res.ndim == 3 and not single) else [])
    out.append(("result-shape-[B,M,M]-(batch-axis-dropped-for-B=1)", AND(*shp)))
    if res.ndim != exp_nd:
        return out
    if s.circle:
        out.append(("output-size-defaults-to-N", lift(S(outsz)) == N))
    else:
        M_ = lift(S(outsz))
        out.append(("output-size-defaults-to-floor(N/sqrt2)", AND(2 * M_ * M_ <= N * N, 2 * (M_ + 1) * (M_ + 1) > N * N, M_ >= 0)))
    # padded FFT size and filtering pipeline (structure of the interpreted program; A5 for the transforms themselves)
    log = M7.fft_log(ctx)
    ok_pipe = (len(log) == 2 and log[0]["op"] == "fft" and log[1]["op"] == "ifft" and log[0]["dim"] == 2 and log[1]["dim"] == 2
               and getattr(log[0]["src"], "pad_of", (None,))[0] is s.sinograms
               and isinstance(log[1]["src"], M7.ComplexT) and (log[1]["src"].prov or {}).get("op") == "mul"
               and log[1]["src"].prov["src"] is log[0]["out"] and getattr(log[1]["src"].prov["factor"], "c07_filter", None) == s.filter_name)
    out.append(("filtering=real(ifft(fft(zero-padded sinogram, detector axis) * fourier_filter(padded size, filter_name), detector axis))", ok_pipe))
    if ok_pipe:
        P = lift(S(log[0]["n"]))
        lo, hi = log[0]["src"].pad_of[1:]
        out.append(("sinogram-zero-padded-at-the-end-only", AND(lift(S(lo)) == 0, lift(S(hi)) == P - N)))
        out.append(("padded-size-is-a-power-of-two>=max(64,2N)-(no-circular-wrap-around,skimage's-minimum-64)", AND(P >= 64, P >= 2 * N, _ispow2(P))))
        mx = lambda p_, q_: z3.If(p_ >= q_, p_, q_)  # noqa: E731
        if s.circle:
            # scikit-image pads the sinogram to the diagonal D = ceil(sqrt(2) N) BEFORE choosing the FFT size (circle mode)
            D_ = I("D!diag")
            out.append(("padded-size=skimage's-size-in-circle-mode:max(64,nextpow2(2*ceil(sqrt2*N)))",
                        implies(AND(D_ >= 0, (D_ - 1) * (D_ - 1) < 2 * N * N, 2 * N * N <= D_ * D_), P == mx(64, M7.next_pow2(2 * D_)))))
        else:
            out.append(("padded-size=skimage's-size-for-circle=False:max(64,nextpow2(2N))", P == mx(64, M7.next_pow2(2 * N))))
        fsrc = log[1]["src"].prov["factor"]
        out.append(("filter-built-for-the-padded-size", AND(lift(S(fsrc.shape[1])) == P, fsrc.ndim == 2)))
    # value (circle mode): pi/(2A) * sum over the angles of scikit-image's interpolated term, zero outside the circle
    if s.circle:
        idx = (y, x) if res.ndim == 2 else (b, y, x)
        val = lift(res.fn(*idx))
        spec_val = z3.If(sp.inside, V.PI / (2 * z3.ToReal(A)) * PS_IR(A, b, y, x), z3.RealVal(0))
        rng = AND(sp.inrange, b == 0) if res.ndim == 2 else sp.inrange
        out.append((f"result=pi/(2A)*sum_a-interp(filtered[b,a,:],x*cos-y*sin+N//2)-inside-the-circle,-0-outside[{par}]", implies(rng, val == spec_val)))
    if s.theta_none:
        i = I("i")
        th = g["theta"]
        out.append(("default-theta-equals-skimage's-linspace(0,180,A,endpoint=False)", forall(i, implies(_rng(i, A), reals._real(th.fn(i)) == 180 * z3.ToReal(i) / z3.ToReal(A)))))
    return out


def ir_conc(ev):
    """Counter-models of these obligations are usually huge (N ~ 2^23) or involve uninterpreted cos/sin: replay a small input of the
    same class (parity of N, default/explicit theta, circle flag, filter)."""
    m, A, B, N = ev("m"), ev("A"), ev("B"), ev("N")
    odd = bool(ev("N_is_odd", True)) if N is None else bool(N % 2)
    N = N if N is not None else (None if m is None else 2 * m + (1 if odd else 0))
    if N is None or not 2 <= N <= 33:
        N = 9 if odd else 8
    A = A if (A is not None and 2 <= A <= 8) else 4
    B = B if (B is not None and 1 <= B <= 3) else 2
    th = None if ev("theta_is_None", False) else [round(7.0 + 173.0 * i / A, 3) for i in range(A)]
    dt = "int64" if ev("sinogram_dtype_is_int64", False) else ("float64" if ev("sinogram_dtype_is_float64", False) else "float32")
    return dict(N=N, A=A, B=B, theta=th, filter_name="ramp" if ev("filter_is_ramp", True) else "bogus-name", circle=bool(ev("circle", True)),
                kinds=["random", "delta", "smooth"], sino_dtype=dt)


def fam_iradon_ok():
    """Sub-family on which the unchanged tree agrees with scikit-image (replay target for failed obligations)."""
    for N in (3, 5, 9, 15, 21):
        for A, th in ((1, [33.0]), (4, [0.0, 45.0, 90.0, 135.0]), (5, [3.0, 41.5, 77.7, 120.0, 179.0])):
            for fn in ("ramp", None, "hann"):
                yield dict(N=N, A=A, B=2, theta=th, filter_name=fn, circle=True, kinds=["random", "delta"])
    for dt in ("int64", "uint8", "float64"):
        yield dict(N=9, A=4, B=2, theta=[0.0, 45.0, 90.0, 135.0], filter_name="ramp", circle=True, kinds=["random", "delta"], sino_dtype=dt)


def _ir_recon_kind(ctx, old):
    return fresh_tensor(ctx, "recon", old.shape)


C_IRADON = Contract(
    f"{RAD}:iradon_torch", setup=ir_setup, requires=ir_requires, ensures=ir_ensures,
    raises={ValueError: ir_raises},
    loops={0: LoopSpec(inv=ir_inv, kinds={"recon": _ir_recon_kind})},
    concretize=ir_conc, rt=rt_iradon, rt_family=fam_iradon_ok,
)


# ----------------------------------------------------------------------------------------------------------------------
# radon_torch
# ----------------------------------------------------------------------------------------------------------------------
PXR = (I("b!px"), I("a!px"), I("j!px"))   # arbitrary sinogram entry: image b, angle index a, detector pixel j
ROW = I("i!row")                          # arbitrary row of the rotated sampling grid


def rd_setup(ctx):
    s = _sizes(ctx, NS())
    del s.A
    s.images = fresh_tensor(ctx, "img", (s.B, s.N, s.N))
    s.theta_none = bool(ctx.branch(ctx.fresh("theta_is_None", "bool").t))
    if s.theta_none:
        # default angles: the body's `torch.arange(180)` is kept as the index function i -> i (library model), so the SAME loop contract
        # verifies the default at an arbitrary angle index; the postcondition states that the angles used are skimage's default arange(180)
        s.theta, s.T = None, S(180)
        ctx.ghost["c07_arange_as_index_function"] = True
    else:
        s.T = ctx.fresh("T", "int")
        s.theta = fresh_tensor(ctx, "theta", (s.T,))
    s.device = None
    return s


def rd_requires(s):
    return [("B>=1", lift(s.B) >= 1), ("N>=2", lift(s.N) >= 2), ("len(theta)>=0", lift(s.T) >= 0)]


def masked_pixel(images, N):
    """Element function of the disc-masked image (the property's reference input): image * [ (c-N//2)^2 + (r-N//2)^2 <= (N//2)^2 ]."""
    N = lift(N)
    cen = N / 2

    def pix(b, r, c):
        return reals._real(images.fn(b, r, c)) * z3.If((c - cen) * (c - cen) + (r - cen) * (r - cen) <= cen * cen, z3.RealVal(1), z3.RealVal(0))

    return pix


def sk_point(N, ang_deg, r, j):
    """scikit-image's radon: output pixel (row r, column j) of `warp(image, R)` samples the input at
       x = c + cos*(j-c) + sin*(r-c),  y = c - sin*(j-c) + cos*(r-c),   c = N//2   (checked against the real matrix by `spec-conformance`)."""
    N = lift(N)
    cen = z3.ToReal(N / 2)
    ang = reals._real(ang_deg) * V.PI / 180
    cs, sn = reals.F["cos"](ang), reals.F["sin"](ang)
    J, Rr = z3.ToReal(j) - cen, z3.ToReal(r) - cen
    return cen + cs * J + sn * Rr, cen - sn * J + cs * Rr


def rd_spec_sum(s_images, N, theta, b, a, j):
    """Reference sinogram entry: sum over the rows r of the rotated image of the bilinear, zero-padded sample (skimage warp order=1, cval=0)."""
    pix = masked_pixel(s_images, N)

    def summand(r):
        xs, ys = sk_point(N, theta.fn(a), r, j)
        return M7.bilinear_zero(lambda rr, cc: pix(b, rr, cc), N, N, xs, ys)

    return lift(reals.sigma(N, summand)), summand


def _valid(hyps, goal, gen=()):
    """Side query (deterministic resource limit, independent of machine load): is `goal` valid under `hyps`?  Only used to CHOOSE
    between candidate row permutations; the chosen statement is then emitted as an obligation."""
    sub = (lambda t: z3.substitute(lift(t), *gen)) if gen else lift
    fs = [sub(h) for h in hyps] + [z3.Not(sub(goal))]
    r = z3.unknown
    for rl in (8000000, 80000000):          # an inconclusive first attempt is repeated once with ten times the (deterministic) budget
        chk = z3.Solver()
        chk.set("rlimit", rl)
        chk.set("timeout", 600000)
        chk.add(*fs)
        r = chk.check()
        if r != z3.unknown:
            break
    return r == z3.unsat


QUARTER_COS, QUARTER_SIN = (1, 0, -1, 0), (0, 1, 0, -1)
GEO = "sampled-source-coordinate-of-(row-sigma(i),column-j)=skimage's-sample-point(rotation-about-pixel-N//2)"


def quarter_turn_facts(ctx, theta_deg):
    """A4 (ground instance): for an integer n, cos(n*pi/2), sin(n*pi/2) = (1,0), (0,1), (-1,0), (0,-1) for n = 0, 1, 2, 3 (mod 4).
    Instantiated at n = floor(theta/90) when the path condition says theta = 90*n; returns the list of hypotheses (empty when the
    angle of this iteration is not known to be a multiple of 90 degrees)."""
    th = reals._real(theta_deg)
    n = z3.ToInt(th / 90)
    ang = th * V.PI / 180
    quarter = th == 90 * z3.ToReal(n)
    if not ctx.entails(quarter):
        return []
    for c in range(4):
        if ctx.entails(n % 4 == c):
            return [quarter, n % 4 == c, reals.F["cos"](ang) == QUARTER_COS[c], reals.F["sin"](ang) == QUARTER_SIN[c]]
    return [quarter] + [implies(n % 4 == c, AND(reals.F["cos"](ang) == QUARTER_COS[c], reals.F["sin"](ang) == QUARTER_SIN[c])) for c in range(4)]


def rd_inv(s):
    """Loop over the angles.  Invariant at the arbitrary entry PXR: every finished row a < k of the sinogram buffer equals the reference
    sum.  Only the buffer `radon_images` and the parameter `theta` are referred to by name; everything else comes from the
    sampler call observed by the library model (its input, its source coordinates, its output): `grid_sample` (bilinear sampling of a
    rotated grid) or `rot90` (an exact index map)."""
    ctx = s.ctx
    su = ctx.ghost["c07_setup_rd"]
    par = su.par
    b, a, j = PXR
    k = lift(s.k)
    N, B, A = lift(su.N), lift(su.B), lift(S(s.theta.shape[0]))
    src = su.images                                   # the caller's tensor
    inrange = AND(_rng(b, B), _rng(j, N), a >= 0)
    # the reference statement is about the CALLER's angles (the argument), not about whatever tensor the body iterates over; for the
    # default (theta=None) it is the body's own tensor, tied to skimage's arange(180) by its postcondition
    th_ref = su.theta if isinstance(su.theta, SymArr) else s.theta
    spec_a, _ = rd_spec_sum(src, N, th_ref, b, a, j)
    ctx.ghost["c07_rd"] = dict(inrange=inrange, spec=spec_a, theta=s.theta)
    # which of the three evaluations of the invariant is this?  entry (k = 0) | arbitrary iteration (k fresh) | after the body (k + 1)
    kt = z3.simplify(k)
    after_body = (not z3.is_int_value(kt)) and "c07_rd_k" in ctx.ghost and not ctx.ghost["c07_rd_k"].eq(kt)
    if not after_body:
        if not z3.is_int_value(kt):
            ctx.ghost["c07_rd_k"] = kt
        inv = implies(AND(inrange, a < k), lift(s.radon_images.fn(b, a, j)) == spec_a)
        ctx.ghost["c07_rd_inv_k"] = inv
        return [(f"rows-done-equal-the-reference-sum", inv)]
    # ---- after the body: chain of obligations about iteration kk = k - 1
    gs, rl = M7.gs_log(ctx), M7.rot_log(ctx)
    kk = z3.simplify(k - 1)
    lid = "radon_torch@loop0:inv-preserved:"
    i = ROW
    base = [B >= 1, N >= 2, N % 2 == (1 if par == "odd N" else 0), _rng(b, B), _rng(j, N), _rng(i, N), kk >= 0, kk < A]
    one = emit(ctx, lid + "exactly-one-sampler-call-per-angle(grid_sample-or-exact-index-map)", z3.BoolVal(len(gs) + len(rl) == 1), base)
    if len(gs) + len(rl) != 1:
        return []
    z0, z1 = z3.IntVal(0), z3.IntVal(1)
    pix = masked_pixel(src, N)
    rr, cc = I("r!pix"), I("c!pix")
    spec_read = lambda r_, c_: M7.guarded_pixel(lambda r2, c2: pix(b, r2, c2), N, N, r_, c_)                  # noqa: E731
    _, summand = rd_spec_sum(src, N, th_ref, b, kk, j)
    th_k = th_ref.fn(kk)

    def geo(xsrc, ysrc, sig_i):
        xs_, ys_ = sk_point(N, th_k, sig_i, j)
        return xs_, ys_, AND(xsrc == xs_, ysrc == ys_)

    if gs:
        g = gs[0]
        xpix, ypix = lift(g["xpix"](b, i, j)), lift(g["ypix"](b, i, j))
        g_shape = emit(ctx, lid + "grid_sample-input-and-grid-are-[B,1,N,N]-and-[B,N,N,2]",
                       AND(g["input"].ndim == 4, g["grid"].ndim == 4, *[lift(S(d)) == e for d, e in zip(g["input"].shape, (B, z1, N, N))],
                           *[lift(S(d)) == e for d, e in zip(g["grid"].shape, (B, N, N, z3.IntVal(2)))]), base)
        D = R("Nm1!gen")
        Wm1, Hm1 = z3.ToReal(lift(S(g["input"].shape[3])) - 1), z3.ToReal(lift(S(g["input"].shape[2])) - 1)
        gen_d = [(Wm1, D), (Hm1, D), (z3.ToReal(N - 1), D)]
        # the rows sampled by the port must be a permutation sigma of the rows scikit-image samples: sigma = identity, or the reflection
        # i -> N-1-i (what the unchanged tree does: its rotation matrix has the second row negated)
        xs, ys, goal_id = geo(xpix, ypix, i)
        identity = _valid(base + [g_shape, D >= 1], goal_id, gen_d)   # the branch taken here must not depend on the load of the machine
        if identity:
            sigma_i = i
            o2 = emit(ctx, lid + f"sampled-rows-are-a-permutation-of-the-reference-rows(identity-or-reflection-about-N//2)[{par}]", z3.BoolVal(True), base)
        else:
            sigma_i = N - 1 - i
            xs, ys, _ = geo(xpix, ypix, sigma_i)
            o2 = emit(ctx, lid + f"sampled-rows-are-a-permutation-of-the-reference-rows(identity-or-reflection-about-N//2)[{par}]", 2 * (N / 2) == N - 1, base)
        g_geo = emit(ctx, lid + GEO, AND(xpix == xs, ypix == ys), base + [o2, g_shape, z3.ToReal(N - 1) >= 1], gen=gen_d)
        H_, W_ = g["input"].shape[2], g["input"].shape[3]
        code_read = lambda r_, c_: M7.guarded_pixel(lambda r2, c2: g["input"].fn(b, z0, r2, c2), H_, W_, r_, c_)   # noqa: E731
        g_in = emit(ctx, lid + "sampled-image-is-the-disc-masked-input-(zero-outside-the-frame)", code_read(rr, cc) == spec_read(rr, cc), base + [g_shape])
        # summand(i) of the code == summand(sigma(i)) of the reference
        code_val = reals._real(g["out"].fn(b, z0, i, j))
        via_spec_pixels = lift(M7.bilinear_zero(lambda r_, c_: pix(b, r_, c_), N, N, xpix, ypix))
        Xp, Yp = R("xpix!gen"), R("ypix!gen")
        y0_, x0_ = z3.ToInt(ypix), z3.ToInt(xpix)
        corners = [(ry, cx_) for ry in (y0_, y0_ + 1) for cx_ in (x0_, x0_ + 1)]
        inst = [z3.substitute(g_in, (rr, ry), (cc, cx_)) for ry, cx_ in corners]        # g_in holds for arbitrary integers (r, c)
        gen_reads = [(code_read(ry, cx_), R(f"code_read{q}!gen")) for q, (ry, cx_) in enumerate(corners)] + \
                    [(spec_read(ry, cx_), R(f"spec_read{q}!gen")) for q, (ry, cx_) in enumerate(corners)]
        g_s1 = emit(ctx, lid + "sampled-value=bilinear-zero-padded-sample-of-the-masked-image", code_val == via_spec_pixels, inst, gen=gen_reads)
        Xs, Ys = R("xs!gen"), R("ys!gen")
        g_s2 = emit(ctx, lid + "code-summand(i)=reference-summand(sigma(i))", code_val == lift(summand(sigma_i)),
                    base + [g_s1, g_geo], gen=[(xpix, Xp), (ypix, Yp), (xs, Xs), (ys, Ys)])
        # the same reduction applied to the tensor returned by grid_sample: sum over axis 1 (the rows i) of sampled[b, 0, i, j]
        code_sum = reals._real(g["out"].squeeze(1).sum(dim=1).fn(b, j))
    else:
        # ---- an exact index map (rot90) instead of interpolation: out[b, i, j] = input[b, row_src(i,j), col_src(i,j)]
        g = rl[0]
        inp, out_t = g["input"], g["out"]
        ok_shape = inp.ndim == 3 and out_t.ndim == 3 and tuple(g["dims"]) == (1, 2)
        g_shape = emit(ctx, lid + "index-map-input-and-output-are-[B,N,N]-rotated-in-the-image-plane",
                       AND(z3.BoolVal(ok_shape), *[lift(S(d)) == e for d, e in zip(inp.shape, (B, N, N))], *[lift(S(d)) == e for d, e in zip(out_t.shape, (B, N, N))])
                       if ok_shape else z3.BoolVal(False), base)
        if not ok_shape:
            return []
        row_src, col_src = (lift(t_) for t_ in g["source"](i, j))
        xsrc, ysrc = z3.ToReal(col_src), z3.ToReal(row_src)
        ang = reals._real(th_k) * V.PI / 180
        c_, s_ = reals.F["cos"](ang), reals.F["sin"](ang)
        Cc, Ss = R("cos!gen"), R("sin!gen")
        gen_t = [(c_, Cc), (s_, Ss)]
        trig = quarter_turn_facts(ctx, th_k)       # A4 ground instance; [] unless this iteration's angle is a known multiple of 90 degrees
        hyps_geo = base + [g_shape] + trig
        sigma_i = i
        xs, ys, goal = geo(xsrc, ysrc, i)
        if not _valid(hyps_geo, goal, gen_t):
            xs_r, ys_r, goal_r = geo(xsrc, ysrc, N - 1 - i)
            if _valid(hyps_geo, goal_r, gen_t):
                sigma_i, xs, ys, goal = N - 1 - i, xs_r, ys_r, goal_r
        # identity and reflection are both permutations of [0, N); if neither matches, the identity is kept and the geometry clause fails
        o2 = emit(ctx, lid + f"sampled-rows-are-a-permutation-of-the-reference-rows(identity-or-reflection-about-N//2)[{par}]", z3.BoolVal(True), base)
        g_geo = emit(ctx, lid + GEO, goal, hyps_geo, gen=gen_t)
        g_rng = emit(ctx, lid + "index-map-source-pixel-lies-inside-the-frame", AND(_rng(row_src, N), _rng(col_src, N)), base + [g_shape])
        code_read = lambda r_, c_: M7.guarded_pixel(lambda r2, c2: inp.fn(b, r2, c2), inp.shape[1], inp.shape[2], r_, c_)   # noqa: E731
        g_in = emit(ctx, lid + "sampled-image-is-the-disc-masked-input-(zero-outside-the-frame)", code_read(rr, cc) == spec_read(rr, cc), base + [g_shape])
        code_val = reals._real(out_t.fn(b, i, j))
        # bilinear sample at an integer position = the pixel itself (weights 1, 0, 0, 0)
        at_src = lift(M7.bilinear_zero(lambda r_, c_: pix(b, r_, c_), N, N, xsrc, ysrc))
        inst = [z3.substitute(g_in, (rr, row_src), (cc, col_src))]
        g_s1 = emit(ctx, lid + "sampled-value=bilinear-zero-padded-sample-of-the-masked-image", code_val == at_src, base + [g_shape, g_rng] + inst)
        Xs, Ys = R("xs!gen"), R("ys!gen")
        g_s2 = emit(ctx, lid + "code-summand(i)=reference-summand(sigma(i))", code_val == lift(summand(sigma_i)),
                    base + [g_s1, g_geo], gen=[(xs, Xs), (ys, Ys)])
        code_sum = reals._real(out_t.sum(dim=1).fn(b, j))
    g_sum = emit(ctx, lid + "row-k-of-the-sinogram=sum-over-the-rows-of-the-sampled-grid", reals._real(s.radon_images.fn(b, kk, j)) == code_sum, base)
    spec_k, _ = rd_spec_sum(src, N, th_ref, b, kk, j)
    # T2 (trusted Sigma re-indexing): sum_{i<N} f(i) = sum_{r<N} g(r) when f(i) = g(sigma(i)) for a permutation sigma of [0,N)  (premises: the obligations above)
    reindex = code_sum == spec_k
    emit(ctx, lid + f"rows-done-equal-the-reference-sum",
         implies(AND(inrange, a < k), lift(s.radon_images.fn(b, a, j)) == spec_a),
         base + [g_sum, reindex, ctx.ghost["c07_rd_inv_k"], implies(a == kk, spec_a == spec_k),
                 implies(a == kk, lift(s.radon_images.fn(b, a, j)) == lift(s.radon_images.fn(b, kk, j)))])
    return []


def rd_ensures(s):
    if s.mode != "verify":
        return []
    ctx = s.ctx
    res = s.result
    g = ctx.ghost.get("c07_rd")
    if not isinstance(res, SymArr) or g is None:
        return [("returns-a-tensor-after-the-angle-loop", False)]
    b, a, j = PXR
    N, B, T = lift(s.N), lift(s.B), lift(s.T)
    single = ctx.entails(B == 1)
    exp_nd = 2 if single else 3
    out = [("result-shape-[B,A,N]-(batch-axis-dropped-for-B=1)",
            AND(res.ndim == exp_nd, *([lift(S(res.shape[-2])) == T, lift(S(res.shape[-1])) == N] if res.ndim == exp_nd else []),
                *([lift(S(res.shape[0])) == B] if res.ndim == 3 and exp_nd == 3 else [])))]
    if res.ndim != exp_nd:
        return out
    idx = (a, j) if res.ndim == 2 else (b, a, j)
    rng = AND(g["inrange"], a < T, *([b == 0] if res.ndim == 2 else []))
    out.append((f"sinogram[b,a,j]=sum_r-bilinear(masked-image_b;skimage-sample-point(theta_a,r,j))[{s.par}]", implies(rng, reals._real(res.fn(*idx)) == g["spec"])))
    out.append(("input-images-not-modified", s.images.writes == 0))
    if s.theta_none:
        q = I("q!ang")
        th = g["theta"]
        out.append(("default-theta-is-skimage's-np.arange(180)", AND(lift(S(th.shape[0])) == 180, forall(q, implies(_rng(q, 180), reals._real(th.fn(q)) == z3.ToReal(q))))
                    if isinstance(th, SymArr) and th.ndim == 1 else False))
    return out


def rd_setup2(ctx):
    s = rd_setup(ctx)
    ctx.ghost["c07_setup_rd"] = s
    return s


def rd_conc(ev):
    m, T, B, N = ev("m"), ev("T"), ev("B"), ev("N")
    odd = bool(ev("N_is_odd", True)) if N is None else bool(N % 2)
    N = N if N is not None else (None if m is None else 2 * m + (1 if odd else 0))
    if N is None or not 2 <= N <= 33:
        N = 9 if odd else 8
    if N < 4:
        N += 4                      # same parity, non-degenerate disc
    T = T if (T is not None and 1 <= T <= 6) else 3
    B = B if (B is not None and 1 <= B <= 3) else 2
    theta = [round(11.0 + 160.0 * q / T, 3) for q in range(T)]
    # the angle of the iteration the counter-model is about (theta!0 at k!0), then the axis-aligned angles: obligations about an
    # angle-dependent branch of the loop body are replayed on an angle set that reaches that branch
    try:
        m, kv = ev.model, ev("k")
        for d in m.decls():
            if d.name().startswith("theta!") and d.arity() == 1 and kv is not None:
                v = m.eval(d(z3.IntVal(int(kv))), model_completion=True)
                if z3.is_rational_value(v):
                    v = float(v.numerator_as_long()) / float(v.denominator_as_long())
                    if 0.0 <= v <= 360.0 and v not in theta:
                        theta.append(round(v, 6))
    except Exception:  # noqa: BLE001
        pass
    theta += [t_ for t_ in (0.0, 90.0, 180.0) if t_ not in theta]
    if ev("theta_is_None", False):
        theta = None
    return dict(N=N, B=B, theta=theta, kinds=["random", "delta", "smooth"])


def fam_radon_ok():
    for N in (3, 5, 9, 15):
        for th in ([0.0], [33.0, 90.0], [7.5, 45.0, 120.0, 180.0]):
            yield dict(N=N, B=2, theta=th, kinds=["random", "delta"])


C_RADON = Contract(
    f"{RAD}:radon_torch", setup=rd_setup2, requires=rd_requires, ensures=rd_ensures,
    loops={0: LoopSpec(inv=rd_inv)},
    concretize=rd_conc, rt=rt_radon, rt_family=fam_radon_ok,
)

# ----------------------------------------------------------------------------------------------------------------------
# the caller: TomographyConv._sirt_run_epoch (tomography_conv.py), the only call site of the transforms in quantem
# ----------------------------------------------------------------------------------------------------------------------
TC = "quantem.tomography.tomography_conv"
OM = "quantem.tomography.object_models"
PXV = (I("b!vx"), I("y!vx"), I("x!vx"))     # arbitrary voxel of the volume
PXS = (I("b!sg"), I("a!sg"), I("j!sg"))     # arbitrary sinogram entry


def _caller(s):
    return s.ctx.ghost.get("c07_caller")


def sirt_setup(ctx):
    from quantem.tomography.object_models import ObjectVoxelwise
    from quantem.tomography.tomography_conv import TomographyConv

    s = NS()
    s.B, s.A, s.N = ctx.fresh("B", "int"), ctx.fresh("A", "int"), ctx.fresh("N", "int")
    s.vol_raw = fresh_tensor(ctx, "_obj", (s.B, s.N, s.N))
    s.volume_obj = V.Obj(ObjectVoxelwise, {"_obj": s.vol_raw})
    s.device_name = "cpu"
    s.self = V.Obj(TomographyConv, {"_volume_obj": s.volume_obj, "_device": s.device_name})
    s.tilt_series = fresh_tensor(ctx, "tilt", (s.B, s.A, s.N))
    s.proj_forward = fresh_tensor(ctx, "proj", (s.B, s.A, s.N))
    s.angles = fresh_tensor(ctx, "angles", (s.A,))
    s.inline_alignment = False              # the alignment pre-pass (phase cross-correlation) is outside C07
    s.filter_name = ctx.fresh("filter_name", "str")     # an arbitrary name: the caller only forwards it
    s.circle = ctx.fresh("circle", "bool")              # an arbitrary flag: the caller only forwards it
    s.gaussian_kernel = None
    s.ir_calls = []
    ctx.ghost["c07_caller"] = s
    return s


def sirt_requires(s):
    return [("B>=1", lift(s.B) >= 1), ("A>=1", lift(s.A) >= 1), ("N>=2", lift(s.N) >= 2), ("N<=2^29", lift(s.N) <= 2 ** 29),
            # scope: with circle=False the real function raises RuntimeError at `_obj += correction` (reconstruction [M,M], M=floor(N/sqrt2),
            # volume [N,N]) - recorded as a known finding of the bounded caller check, see ASSUMPTIONS
            ("circle=True", lift(s.circle))]


def _B(s, ok):
    """A decided call-site fact as an obligation: True, or - when it does NOT hold - a fresh unconstrained Boolean (refutable, so the
    named precondition fails with a model) instead of the literal `false`, which would make the rest of the caller's path vacuous."""
    return z3.BoolVal(True) if ok else s.ctx.fresh("call_site_fact_does_not_hold", "bool").t


def _same(s, a, b):
    """`a` is the caller's own value `b` in the data-flow sense: the same object; for scalars the same term, or a term equal to it for
    EVERY value of the caller's arguments (decided without the path condition: a literal that merely coincides with the caller's
    value on the current path is not the caller's value)."""
    if a is b:
        return z3.BoolVal(True)
    if isinstance(a, (SymArr, V.Obj)) or isinstance(b, (SymArr, V.Obj)) or a is None or b is None:
        return _B(s, False)
    try:
        ta, tb = lift(S(a)), lift(S(b))
        return _B(s, bool(ta.eq(tb) or (ta.sort() == tb.sort() and _valid([], ta == tb))))
    except Exception:  # noqa: BLE001
        return _B(s, bool(a == b))


# -- ObjectConstraints.apply_hard_constraints: ASSUMED shape-only contract (the object model is outside C07: whatever volume it
#    returns is "the caller's volume")
def hc_requires(s):
    return [("argument-is-the-object-model's-own-_obj", _B(s, s.obj is s.self.fields.get("_obj")))]


def hc_result(ctx, s):
    cs = _caller(s)
    r = fresh_tensor(ctx, "volume", s.obj.shape)
    if cs is not None:
        cs.vol = r
    return r


C_HARD = Contract(f"{OM}:ObjectConstraints.apply_hard_constraints", requires=hc_requires, result=hc_result, ensures=lambda s: [])


# -- call-site contracts of the two transforms (apply mode only; their bodies are verified by C_RADON / C_IRADON above)
def rdc_requires(s):
    cs = _caller(s)
    im = s.images
    ok3 = isinstance(im, SymArr) and im.ndim == 3 and isinstance(s.theta, SymArr) and s.theta.ndim == 1
    return [("images-is-the-volume-returned-by-the-caller's-object-model(self.volume_obj.obj)", _B(s, im is getattr(cs, "vol", None))),
            ("theta-is-the-caller's-angles", _same(s, s.theta, cs.angles)),
            ("device-is-the-caller's-device", _same(s, s.device, cs.device_name)),
            ("images-are-[B,N,N]-square-slices-with-B>=1,N>=2;theta-is-1-D", AND(lift(S(im.shape[0])) >= 1, lift(S(im.shape[1])) == lift(S(im.shape[2])), lift(S(im.shape[2])) >= 2) if ok3 else _B(s, False))]


def rdc_result(ctx, s):
    cs = _caller(s)
    im, th = s.images, s.theta
    Bq, Nq, Tq = im.shape[0], im.shape[2], th.shape[0]
    shape = (Tq, Nq) if ctx.branch(lift(S(Bq)) == 1) else (Bq, Tq, Nq)      # the batch axis is dropped for a single image (C_RADON's shape clause)
    r = fresh_tensor(ctx, "sinogram", shape)
    cs.sino = r
    return r


C_RADON_CALL = Contract(f"{RAD}:radon_torch", requires=rdc_requires, result=rdc_result, ensures=lambda s: [])


def _el(t, idx):
    """Generic element of a [B,..] tensor or of its batch-dropped form."""
    return reals._real(t.fn(*idx[-t.ndim:]))


def irc_requires(s):
    cs = _caller(s)
    n = len(cs.ir_calls)
    sg = s.sinograms
    b, a, j = PXS
    ok = isinstance(sg, SymArr) and sg.ndim in (2, 3) and isinstance(s.theta, SymArr) and s.theta.ndim == 1
    out = [("theta-is-the-caller's-angles", _same(s, s.theta, cs.angles)),
           ("circle-is-the-caller's-circle-flag", _same(s, s.circle, cs.circle)),
           ("device-is-the-caller's-device", _same(s, s.device, cs.device_name)),
           ("output_size-is-the-default-or-the-detector-width(the-volume's-slice-size)",
            z3.BoolVal(True) if s.output_size is None else (lift(S(s.output_size)) == lift(S(sg.shape[-1])) if isinstance(sg, SymArr) and not isinstance(s.output_size, SymArr) else _B(s, False))),
           ("sinograms-are-[B,A,N]-with-A=len(theta)>=1,N>=2", AND(lift(S(sg.shape[-2])) == lift(S(s.theta.shape[0])), lift(S(sg.shape[-2])) >= 1, lift(S(sg.shape[-1])) >= 2,
                                                                  lift(S(sg.shape[-1])) <= 2 ** 29, *([lift(S(sg.shape[0])) >= 1] if sg.ndim == 3 else [])) if ok else _B(s, False))]
    if not ok:
        return out
    rng = AND(*[_rng(q, d) for q, d in zip((b, a, j)[-sg.ndim:], sg.shape)])
    have_sino = isinstance(getattr(cs, "sino", None), SymArr)
    if n == 0:
        out.append(("first-call:filter_name-is-the-caller's-filter_name", _same(s, s.filter_name, cs.filter_name)))
        out.append(("first-call:sinogram-is-the-residual-tilt_series-minus-forward-projection-of-the-current-volume",
                    implies(rng, _el(sg, (b, a, j)) == _el(cs.tilt_series, (b, a, j)) - _el(cs.sino, (b, a, j))) if have_sino and sg.ndim == 3 else _B(s, False)))
    elif n == 1:
        first = cs.ir_calls[0]["sinograms"]
        out.append(("second-call:filter_name-is-None(the-unfiltered-back-projection-of-ones-normalises)", _B(s, s.filter_name is None)))
        out.append(("second-call:sinogram-is-all-ones-of-the-residual's-shape",
                    AND(_B(s, sg.ndim == first.ndim), *[lift(S(d)) == lift(S(e)) for d, e in zip(sg.shape, first.shape)], implies(rng, _el(sg, (b, a, j)) == 1))
                    if sg.ndim == first.ndim else _B(s, False)))
    else:
        out.append(("at-most-two-back-projections-per-epoch", _B(s, False)))
    return out


def irc_result(ctx, s):
    cs = _caller(s)
    sg = s.sinograms
    Nq = lift(S(sg.shape[-1]))
    c = lift(S(s.circle)) if not isinstance(s.circle, bool) else z3.BoolVal(s.circle)
    # output size: the one asked for, else that of C_IRADON's shape clauses - N in circle mode, floor(N/sqrt2) otherwise
    if s.output_size is not None:
        M_ = S(s.output_size)
    elif ctx.entails(c):
        M_ = S(sg.shape[-1])
    else:
        M_ = ctx.fresh("M", "int")
        ctx.assume(AND(M_.t >= 0, implies(c, M_.t == Nq), implies(NOT(c), AND(2 * M_.t * M_.t <= Nq * Nq, 2 * (M_.t + 1) * (M_.t + 1) > Nq * Nq))))
    single = sg.ndim == 2 or ctx.branch(lift(S(sg.shape[0])) == 1)
    r = fresh_tensor(ctx, "recon", (M_, M_) if single else (sg.shape[0], M_, M_))
    cs.ir_calls.append(dict(sinograms=sg, filter_name=s.filter_name, result=r, func=r.func, M=M_))
    return r


C_IRADON_CALL = Contract(f"{RAD}:iradon_torch", requires=irc_requires, result=irc_result, ensures=lambda s: [])


def sirt_ensures(s):
    if s.mode != "verify":
        return []
    ctx = s.ctx
    res = s.result
    b, y, x = PXV
    bs, a, j = PXS
    out = [("one-forward-projection-and-two-back-projections", z3.BoolVal(isinstance(getattr(s, "sino", None), SymArr) and len(s.ir_calls) == 2))]
    if not (isinstance(getattr(s, "sino", None), SymArr) and len(s.ir_calls) == 2):
        return out
    ok_t = isinstance(res, tuple) and len(res) == 2
    out.append(("returns-(forward-projection-of-the-volume-before-the-update,loss)", z3.BoolVal(ok_t and res[0] is s.sino and s.sino.writes == 0)))
    means = ctx.ghost.get("c07_mean", [])
    if ok_t and len(means) == 1 and isinstance(res[1], Sym) and lift(res[1]).eq(lift(means[0]["out"])) and means[0]["src"].ndim == 3:
        src = means[0]["src"]
        rng = AND(*[_rng(q, d) for q, d in zip((bs, a, j), src.shape)])
        d_ = _el(s.tilt_series, (bs, a, j)) - _el(s.sino, (bs, a, j))
        out.append(("loss=mean|tilt_series-forward-projection|", AND(*[lift(S(d)) == lift(e) for d, e in zip(src.shape, (s.B, s.A, s.N))],
                                                                    implies(rng, reals._real(src.fn(bs, a, j)) == z3.If(d_ >= 0, d_, -d_)))))
    else:
        out.append(("loss=mean|tilt_series-forward-projection|", z3.BoolVal(False)))
    # the volume update at an arbitrary voxel: _obj += correction / normalisation, zeros of the normalisation replaced by 1e-6
    new = s.volume_obj.fields.get("_obj")
    c1, c2 = s.ir_calls
    M_ = lift(c1["M"])
    if isinstance(new, SymArr) and new.ndim == 3:
        idx = lambda r_: (y, x) if r_["result"].ndim == 2 else (b, y, x)   # noqa: E731
        corr, norm = c1["func"](*idx(c1)), c2["func"](*idx(c2))
        rng = AND(_rng(b, s.B), _rng(y, s.N), _rng(x, s.N))
        out.append(("volume-update:_obj+=correction/normalisation-with-zeros-of-the-normalisation-replaced-by-1e-6",
                    AND(*[lift(S(d)) == lift(e) for d, e in zip(new.shape, (s.B, s.N, s.N))],
                        implies(AND(rng, M_ == lift(s.N), lift(c2["M"]) == lift(s.N)),
                                reals._real(new.fn(b, y, x)) == s.old.raw(b, y, x) + corr / z3.If(norm == 0, z3.RealVal("1e-6"), norm)))))
    else:
        out.append(("volume-update:_obj+=correction/normalisation-with-zeros-of-the-normalisation-replaced-by-1e-6", z3.BoolVal(False)))
    out.append(("tilt_series,angles-and-the-caller's-proj_forward-buffer-are-not-written", z3.BoolVal(s.tilt_series.writes == 0 and s.angles.writes == 0 and s.proj_forward.writes == 0)))
    return out


def rt_sirt(inp):
    """The caller on the REAL classes with the three transform calls recorded: every call receives the caller's own volume / angles /
    filter name / circle flag / residual, and the update is _obj + correction / normalisation."""
    import torch
    import quantem.tomography.tomography_conv as TCm
    from quantem.tomography.object_models import ObjectVoxelwise

    B, A, N = int(inp.get("B", 2)), int(inp.get("A", 3)), int(inp.get("N", 7))
    fn, circle = inp.get("filter_name", "hann"), bool(inp.get("circle", True))
    g = torch.Generator().manual_seed(int(inp.get("seed", 0)) + 17 * N)
    vol = ObjectVoxelwise(volume_shape=(B, N, N), device="cpu")
    vol._obj = torch.rand((B, N, N), generator=g) - 0.3      # some negative voxels: the object model's `obj` (positivity) differs from `_obj`
    vol._hard_constraints = {"positivity": True, "shrinkage": 0.0}
    me = TCm.TomographyConv.__new__(TCm.TomographyConv)
    me._volume_obj, me._device = vol, "cpu"
    tilt = torch.rand((B, A, N), generator=g)
    angles = torch.tensor([round(13.0 + 150.0 * q / A, 3) for q in range(A)])
    calls = []
    r0, i0 = TCm.radon_torch, TCm.iradon_torch

    def r_spy(images, theta=None, device=None):
        out = r0(images, theta=theta, device=device)
        calls.append(("radon", images.clone(), theta, device, out))
        return out

    def i_spy(sinograms, theta=None, output_size=None, filter_name="ramp", circle=True, device=None):
        out = i0(sinograms, theta=theta, output_size=output_size, filter_name=filter_name, circle=circle, device=device)
        calls.append(("iradon", sinograms.clone(), theta, output_size, filter_name, circle, device, out.clone()))
        return out

    before = vol._obj.clone()
    vol_seen = vol.obj.clone()
    TCm.radon_torch, TCm.iradon_torch = r_spy, i_spy
    try:
        proj, loss = me._sirt_run_epoch(tilt, torch.zeros_like(tilt), angles, False, fn, circle, None)
    except Exception as e:  # noqa: BLE001
        return _report([f"raised {type(e).__name__}: {str(e)[:160]}"], "no exception")
    finally:
        TCm.radon_torch, TCm.iradon_torch = r0, i0
    problems = []
    kinds = [c[0] for c in calls]
    if kinds != ["radon", "iradon", "iradon"]:
        return _report([f"calls {kinds}"], "radon_torch, iradon_torch, iradon_torch")
    rc, c1, c2 = calls
    if not torch.equal(rc[1], vol_seen) or rc[2] is not angles or rc[3] != "cpu":
        problems.append("radon_torch did not receive the caller's volume / angles / device")
    resid = tilt - rc[4].reshape(tilt.shape)
    if c1[1].shape != resid.shape or not torch.allclose(c1[1], resid) or c1[2] is not angles or c1[4] != fn or c1[5] is not circle or c1[3] not in (None, N):
        problems.append(f"first iradon_torch call: sinogram/theta/filter/circle = residual? {c1[1].shape == resid.shape and bool(torch.allclose(c1[1], resid))} / {c1[2] is angles} / {c1[4]!r} / {c1[5]!r}")
    if c2[1].shape != resid.shape or not bool((c2[1] == 1).all()) or c2[2] is not angles or c2[4] is not None or c2[5] is not circle or c2[3] not in (None, N):
        problems.append(f"second iradon_torch call: sinogram all ones? {bool((c2[1] == 1).all())}, theta {c2[2] is angles}, filter {c2[4]!r}, circle {c2[5]!r}")
    if circle:
        norm = c2[7].reshape(before.shape).clone()
        norm[norm == 0] = 1e-6
        exp = before + c1[7].reshape(before.shape) / norm
        if not torch.allclose(vol._obj, exp, rtol=1e-5, atol=1e-6):
            problems.append(f"volume update differs from _obj + correction/normalisation by {float((vol._obj - exp).abs().max()):.3e}")
    if not torch.allclose(proj.reshape(tilt.shape), rc[4].reshape(tilt.shape)) or abs(float(loss) - float(resid.abs().mean())) > 1e-6:
        problems.append("returned (projection, loss) are not (radon result, mean |residual|)")
    return _report(problems, "every transform call receives the caller's own volume/angles/filter/circle/residual; _obj += correction/normalisation")


rt_sirt = _never_crash(rt_sirt)


def fam_sirt(tier="quick", seed=0):
    for N, B, A in ((5, 2, 3), (8, 1, 2), (9, 3, 4)):
        for fn in ("ramp", "hann", None):
            # circle=True only: with circle=False the unchanged caller raises RuntimeError at `_obj += correction` ([M,M] reconstruction
            # against [N,N] slices). That is a defect of the SIRT driver, not of the transforms C07 speaks about (radon / filter /
            # iradon agree with scikit-image), so it is recorded as an observation in DESIGN.md 12.1e (candidate repair
            # proposed_fixes/C07_6.diff), not raised and not listed as a finding of C07.
            for circle in (True,):
                yield dict(N=N, B=B, A=A, filter_name=fn, circle=circle, seed=seed)


def sirt_conc(ev):
    return dict(N=7, B=2 if (ev("B") or 2) != 1 else 1, A=3, filter_name="hann", circle=True)


def klass_sirt(inp, res):
    return "circle=False" if not inp.get("circle", True) else f"circle=True, filter {inp.get('filter_name')}"


B_SIRT = "caller _sirt_run_epoch: the transform calls receive the caller's own data (real classes, calls recorded)"


C_SIRT = Contract(
    f"{TC}:TomographyConv._sirt_run_epoch", setup=sirt_setup, requires=sirt_requires, ensures=sirt_ensures,
    snapshot=lambda s: NS(raw=s.vol_raw.func),
    overrides={f"{RAD}:radon_torch": C_RADON_CALL, f"{RAD}:iradon_torch": C_IRADON_CALL, f"{OM}:ObjectConstraints.apply_hard_constraints": C_HARD},
    concretize=sirt_conc, rt=rt_sirt, rt_family=lambda: (i_ for i_ in fam_sirt() if i_["circle"]),   # circle=False is a listed finding: not a replay target
    note="call-site preconditions of radon_torch / iradon_torch at their only quantem call site; the callees are used through call-site contracts "
         "whose shape clauses are those proved for the bodies; inline_alignment=False, gaussian_kernel=None",
)

CONTRACTS = [C_FILTER, C_IRADON, C_RADON, C_SIRT]

# ======================================================================================================================
# property-level lemmas (proved from the contract statements alone)
# ======================================================================================================================


def lemma_zero_degree(ctx):
    """At 0 degrees the reference sample point of (row r, column j) is the pixel (r, j) itself and the bilinear sample returns that
    pixel of the disc-masked image: the contract's sum over r is the masked column sum (Sigma-congruence)."""
    img = z3.Function("img", z3.IntSort(), z3.IntSort(), z3.IntSort(), z3.RealSort())
    images = NS(fn=lambda b, r, c: Sym(img(b, r, c)))
    N, b, r, j = I("N"), I("b"), I("r"), I("j")
    th = R("theta_deg")
    xs, ys = sk_point(N, th, r, j)
    pix = masked_pixel(images, N)
    ang = th * V.PI / 180
    Cc, Ss = R("cos!gen"), R("sin!gen")
    gen = [(reals.F["cos"](ang), Cc), (reals.F["sin"](ang), Ss)]
    hyps = [N >= 2, r >= 0, r < N, j >= 0, j < N, Cc == 1, Ss == 0]    # theta = 0: cos = 1, sin = 0 (A4: cos 0 = 1, sin 0 = 0)
    sub = lambda t: z3.substitute(t, *gen)  # noqa: E731
    val = lift(M7.bilinear_zero(lambda rr, cc: pix(b, rr, cc), N, N, xs, ys))
    return [("sample-point-is-the-pixel-itself", hyps, sub(AND(xs == z3.ToReal(j), ys == z3.ToReal(r)))),
            ("summand-is-the-masked-pixel", hyps, sub(val == pix(b, r, j)))]


def lemma_linear(ctx):
    """Both contract statements are linear in the data: every summand is (data-independent weights) x (data)."""
    u_, v_ = (z3.Function(n, z3.IntSort(), z3.IntSort(), z3.IntSort(), z3.RealSort()) for n in ("U", "V"))
    al, be = R("alpha"), R("beta")
    N, b, x, y, r, c = I("N"), I("b"), R("x"), R("y"), I("r"), I("c")
    mk = lambda f: NS(fn=f)  # noqa: E731
    pu, pv = masked_pixel(mk(lambda b_, r_, c_: Sym(u_(b_, r_, c_))), N), masked_pixel(mk(lambda b_, r_, c_: Sym(v_(b_, r_, c_))), N)
    pw = masked_pixel(mk(lambda b_, r_, c_: Sym(al * u_(b_, r_, c_) + be * v_(b_, r_, c_))), N)
    read = lambda p, r_, c_: M7.guarded_pixel(lambda r2, c2: p(b, r2, c2), N, N, r_, c_)  # noqa: E731
    # (1) one zero-padded read of the masked image is linear (u, v generalised to constants)
    g1 = z3.substitute(read(pw, r, c) == al * read(pu, r, c) + be * read(pv, r, c), (u_(b, r, c), R("u0")), (v_(b, r, c), R("v0")))
    # (2) the bilinear combination of four reads is linear in the reads (reads and the fractional parts generalised: polynomial identity)
    y0, x0 = z3.ToInt(y), z3.ToInt(x)
    corners = [(y0, x0), (y0, x0 + 1), (y0 + 1, x0), (y0 + 1, x0 + 1)]
    bil = lambda p: lift(M7.bilinear_zero(lambda rr, cc: p(b, rr, cc), N, N, x, y))  # noqa: E731
    gen, hyps = [(x - z3.ToReal(x0), R("wx")), (y - z3.ToReal(y0), R("wy"))], []
    for q, (rr, cc) in enumerate(corners):
        gen += [(read(pw, rr, cc), R(f"gw{q}")), (read(pu, rr, cc), R(f"gu{q}")), (read(pv, rr, cc), R(f"gv{q}"))]
        hyps.append(R(f"gw{q}") == al * R(f"gu{q}") + be * R(f"gv{q}"))      # instance of (1) at corner q
    g2 = z3.substitute(bil(pw) == al * bil(pu) + be * bil(pv), *gen)
    F1, F2 = (z3.Function(n, z3.IntSort(), z3.RealSort()) for n in ("F1", "F2"))
    u = R("u")
    k0 = z3.ToInt(u)
    gen2 = [(F1(k0), R("f10")), (F1(k0 + 1), R("f11")), (F2(k0), R("f20")), (F2(k0 + 1), R("f21")), (u - z3.ToReal(k0), R("w"))]
    ir_goal = z3.substitute(lin_interp(lambda n: al * F1(n) + be * F2(n), u) == al * lin_interp(F1, u) + be * lin_interp(F2, u), *gen2)
    return [("zero-padded-read-of-the-masked-image-is-linear-in-the-image", [N >= 2], g1),
            ("radon-summand(bilinear-sample)-is-linear-in-the-reads", hyps, g2),
            ("iradon-term-linear-in-the-filtered-projection(filtering-itself-linear-by-A5)", [], ir_goal)]


def _apps_of(t, decl):
    out, seen, stack = [], set(), [t]
    while stack:
        e = stack.pop()
        if e.get_id() in seen:
            continue
        seen.add(e.get_id())
        if z3.is_quantifier(e):
            stack.append(e.body())
            continue
        if z3.is_app(e):
            if e.decl().eq(decl):
                out.append(e)
            stack.extend(e.children())
    return out


def lemma_batch(ctx):
    """Batched == per-image, read off the contract statements: entry b of the result mentions the data only at batch index b
    (dependence typing of the statement: every application of the data symbol has first argument b)."""
    img = z3.Function("img", z3.IntSort(), z3.IntSort(), z3.IntSort(), z3.RealSort())
    flt = z3.Function("filtered", z3.IntSort(), z3.IntSort(), z3.IntSort(), z3.RealSort())
    N, b, j, r, a = I("N"), I("b"), I("j"), I("r"), I("a")
    th = R("theta_deg")
    xs, ys = sk_point(N, th, r, j)
    pix = masked_pixel(NS(fn=lambda b_, r_, c_: Sym(img(b_, r_, c_))), N)
    t1 = lift(M7.bilinear_zero(lambda rr, cc: pix(b, rr, cc), N, N, xs, ys))
    t2 = lin_interp(lambda n: flt(b, a, n), R("u"))
    ok1 = all(e.arg(0).eq(b) for e in _apps_of(t1, img)) and len(_apps_of(t1, img)) == 4
    ok2 = all(e.arg(0).eq(b) and e.arg(1).eq(a) for e in _apps_of(t2, flt)) and len(_apps_of(t2, flt)) == 2
    return [("radon-entry-b-reads-only-image-b", [], z3.BoolVal(ok1)),
            ("iradon-entry-b-reads-only-filtered-projection-(b,a)(row-wise-FFT-along-the-detector-axis-by-the-pipeline-obligation)", [], z3.BoolVal(ok2))]


def lemma_padded_size(ctx):
    """iradon_torch pads N -> max(64, nextpow2(2N)) (proved above).  scikit-image's iradon in circle mode FIRST pads the sinogram to
    the diagonal D = ceil(sqrt(2) N) and then uses max(64, nextpow2(2D)); the windowed filters (shepp-logan, cosine, hamming, hann)
    are sampled on that size, so the two filters coincide only if the sizes do.  (ramp / None are size-independent once P >= 2N.)"""
    N, D = I("N"), I("D")
    mx = lambda p, q: z3.If(p >= q, p, q)  # noqa: E731
    P1 = mx(64, M7.next_pow2(2 * N))
    P2 = mx(64, M7.next_pow2(2 * D))
    hyps = [N >= 2, N <= 2 ** 20, D >= 0, (D - 1) * (D - 1) < 2 * N * N, 2 * N * N <= D * D]
    return [("max(64,nextpow2(2N))=skimage's-circle-mode-size-for-N<=22-and-33<=N<=45", hyps + [OR(N <= 22, AND(N >= 33, N <= 45))], P1 == P2),
            ("max(64,nextpow2(2N))=skimage's-size-for-circle=False(same-argument)", [N >= 2, N <= 2 ** 20], P1 == mx(64, M7.next_pow2(2 * N)))]


LEMMAS = [
    Lemma("0-degree-projection=masked-column-sums", lemma_zero_degree, uses=["radon_torch"]),
    Lemma("linearity", lemma_linear, uses=["radon_torch", "iradon_torch"]),
    Lemma("batched=per-image", lemma_batch, uses=["radon_torch", "iradon_torch"]),
    Lemma("padded-size-vs-skimage", lemma_padded_size, uses=["iradon_torch"]),
]

# ======================================================================================================================
# bounded stand-ins: the DECIDING part of C07 (agreement with another implementation can only be evaluated at run time)
# ======================================================================================================================
GRID = [7.5 * q for q in range(25)]      # 0, 7.5, ..., 180
KINDS = ("random", "smooth", "delta")
OBLIQUE = ([0.0, 30.0, 77.0, 120.0, 160.0], [3.0, 41.5, 90.0, 133.3, 179.0], [12.25, 45.0, 60.0, 101.0, 180.0])


def _sub(rng, k, lo=0.0, hi=180.0):
    return sorted(round(float(v), 3) for v in rng.uniform(lo, hi, size=k))


def fam_radon(tier="quick", seed=0):
    rng = np.random.default_rng(seed + 7)
    for N in range(3, 34):
        th = sorted(set([0.0, 180.0] + [GRID[(N * 5 + 3 * q) % 25] for q in range(5)]))
        yield dict(N=N, B=1 + N % 3, theta=th, kinds=[KINDS[(N + q) % 3] for q in range(3)], premask=bool(N % 2 == 0 or N % 5 == 0), seed=seed)
        th2 = sorted(set([90.0] + [GRID[(N * 7 + 4 * q + 1) % 25] for q in range(4)]))
        yield dict(N=N, B=3, theta=th2, kinds=list(KINDS), premask=False, seed=seed + 5)
    for N in range(3, 34):
        yield dict(N=N, B=1, theta=GRID, kind=KINDS[N % 3], seed=seed + 1)          # every singleton angle of the 7.5-degree grid
    for N in (6, 11, 33):
        yield dict(N=N, B=2, theta=_sub(rng, 4), kinds=["smooth", "random"], two_d=False, seed=seed + 2)
    yield dict(N=7, B=1, theta=None, kind="random", seed=seed)          # default theta = arange(180)
    yield dict(N=9, B=1, theta=[33.0], kind="delta", two_d=True, seed=seed)
    if tier == "thorough":
        for N in range(3, 34):
            for kind in KINDS:
                yield dict(N=N, B=1, theta=GRID, kind=kind, seed=seed + 3)
            for q in range(3):
                yield dict(N=N, B=3, theta=_sub(rng, 1 + (N + q) % 6), kinds=list(KINDS), seed=seed + 4 + q)
        for N in (41, 48, 64, 65):
            yield dict(N=N, B=1, theta=_sub(rng, 5), kind="random", seed=seed)


def klass_radon(inp, res):
    return "even N" if inp["N"] % 2 == 0 else "odd N"


def fam_zero(tier="quick", seed=0):
    for N in range(3, 34):
        yield dict(N=N, B=2, kinds=[KINDS[N % 3], "delta"], premask=bool(N % 3 == 0), seed=seed)


def fam_filter(tier="quick", seed=0):
    sizes = list(range(2, 22, 2)) + [32, 64, 128, 256, 512] + ([1024, 2048, 30, 66, 100] if tier == "thorough" else [])
    for size in sizes:
        for nm in FILTERS:
            yield dict(size=size, filter_name=nm)
    for size in (3, 7, 65):
        yield dict(size=size, filter_name="ramp")
    yield dict(size=64, filter_name="bogus-name")
    yield dict(size=64, filter_name="Ramp")


def klass_filter(inp, res):
    return "cosine filter" if inp.get("filter_name") == "cosine" and inp["size"] % 2 == 0 else f"filter {inp.get('filter_name')}"


def fam_iradon(tier="quick", seed=0):
    rng = np.random.default_rng(seed + 11)
    big = (45, 47, 63, 65)
    for N in list(range(3, 34)) + list(big):
        for q, nm in enumerate(FILTERS):
            if N in big and nm in ("ramp", None) and N != 45:
                continue
            th = OBLIQUE[(N + q) % 3]
            yield dict(N=N, A=len(th), B=1 + (N + q) % 3, theta=th, filter_name=nm, circle=True, kinds=[KINDS[(N + q + z) % 3] for z in range(3)], seed=seed)
    for N in (3, 5, 8, 9, 16, 21, 33):
        yield dict(N=N, A=6, B=1, theta=None, filter_name="ramp", circle=True, kind="random", seed=seed)       # default theta
        yield dict(N=N, A=1, B=1, theta=None, filter_name="ramp", circle=True, kind="random", seed=seed)       # one projection: default theta = [0] in both
    for N in range(3, 34, 2):
        yield dict(N=N, A=5, B=1, theta=OBLIQUE[N % 3], filter_name="ramp", circle=False, kind="random", seed=seed)
    # value kinds of the sinogram: integer detector counts (int64 / int32 / int16 / uint8) and float64, every filter
    for z, N in enumerate((3, 5, 9, 11, 15, 21, 33)):
        for q, nm in enumerate(FILTERS):
            dt = SINO_DTYPES[1 + (z + q) % 5]
            yield dict(N=N, A=5, B=1 + (z + q) % 2, theta=OBLIQUE[(z + q) % 3], filter_name=nm, circle=True, kinds=["random", "smooth"], sino_dtype=dt, seed=seed)
    for dt in SINO_DTYPES[1:]:
        yield dict(N=7, A=4, B=2, theta=[0.0, 45.0, 90.0, 135.0], filter_name="ramp", circle=True, kinds=["random", "delta"], sino_dtype=dt, seed=seed)
        yield dict(N=13, A=3, B=1, theta=[20.0, 80.0, 140.0], filter_name="hamming", circle=True, kind="random", sino_dtype=dt, two_d=True, seed=seed)
    for N in (5, 9, 12):
        yield dict(N=N, A=3, B=1, theta=[10.0, 20.0], filter_name="ramp", circle=True, kind="random")              # theta mismatch -> ValueError
        yield dict(N=N, A=4, B=1, theta=_sub(rng, 4), filter_name="hann", circle=True, kind="smooth", two_d=True)
    if tier == "thorough":
        for N in range(3, 34):
            for nm in FILTERS:
                for q in range(2):
                    A = 1 + (N + q) % 7
                    yield dict(N=N, A=A, B=2, theta=_sub(rng, A), filter_name=nm, circle=True, kinds=["random", "delta"], seed=seed + q)
        for N in (64, 91, 92, 128):
            for nm in FILTERS:
                yield dict(N=N, A=4, B=1, theta=_sub(rng, 4), filter_name=nm, circle=True, kind="random", seed=seed)


def _detector_out_of_range(inp):
    """circle=False: does some output pixel have a detector coordinate outside [0, N-1] at some angle? (scikit-image returns 0 there)"""
    N = inp["N"]
    M = int(math.floor(math.sqrt(N * N / 2.0)))
    rad = M // 2
    c = np.arange(M) - rad
    X, Y = np.meshgrid(c, c)
    for th in inp["theta"]:
        a = math.radians(th)
        t = X * math.cos(a) - Y * math.sin(a) + N // 2
        if t.min() < -1e-9 or t.max() > N - 1 + 1e-9:
            return True
    return False


def klass_iradon(inp, res):
    N, nm = inp["N"], inp.get("filter_name", "ramp")
    circle = bool(inp.get("circle", True))
    if N % 2 == 0:
        return "even N"
    if inp.get("theta") is None and inp["A"] > 1:
        return "default theta"
    if inp.get("theta") is not None and len(inp["theta"]) != inp["A"]:
        return "theta mismatch must raise ValueError"
    if nm in WINDOWED + ("cosine",) and circle and torch_padded_size(N) != skimage_padded_size(N, True):
        return "windowed filter, padded size differs from skimage (circle mode)"
    if nm == "cosine":
        return "cosine filter"
    if not circle and _detector_out_of_range(inp):
        return "circle=False, detector coordinate outside [0,N-1]"
    dt = inp.get("sino_dtype") or "float32"
    return f"odd N, filter {nm}, circle={circle}" + ("" if dt == "float32" else f", {dt} sinogram")


def fam_batched(tier="quick", seed=0):
    for which in ("radon", "iradon"):
        for N in (3, 4, 5, 8, 9, 16, 17, 32, 33) + ((6, 7, 12, 25, 31) if tier == "thorough" else ()):
            yield dict(which=which, N=N, B=3, A=4, theta=OBLIQUE[N % 3][:4], kinds=list(KINDS), filter_name=FILTERS[N % 6], seed=seed)
            yield dict(which=which, N=N, B=2, A=2, theta=[0.0, 90.0], kinds=["delta", "random"], filter_name="ramp", circle=bool(N % 2), seed=seed)


def fam_linear(tier="quick", seed=0):
    for which in ("radon", "iradon"):
        for N in (3, 4, 5, 8, 9, 16, 17, 32, 33) + ((6, 7, 12, 25, 31) if tier == "thorough" else ()):
            yield dict(which=which, N=N, A=4, theta=OBLIQUE[(N + 1) % 3][:4], filter_name=FILTERS[(N + 2) % 6], alpha=1.5, beta=-0.75, seed=seed)
            yield dict(which=which, N=N, A=3, theta=[0.0, 45.0, 180.0], filter_name="ramp", alpha=-2.0, beta=0.5, circle=bool(N % 2), seed=seed + 1)


def fam_conformance(tier="quick", seed=0):
    for N in (3, 4, 8, 9, 32, 33):
        for th in (0.0, 33.0, 90.0, 135.0, 180.0):
            yield dict(N=N, theta=th)


def rt_models(inp):
    """Conformance of the TRUSTED library models (pyvc/lib/c07_models.py) with the real libraries on small concrete inputs."""
    bad = [f"{n}: {d}" for n, v, d in M7.conformance_cases() if v]
    return _report(bad, "model formulas == torch / numpy / scipy on small inputs")


B_RADON, B_IRADON, B_FILTER = "radon_torch == skimage.radon (circle)", "iradon_torch == skimage.iradon", "get_fourier_filter_torch == skimage._get_fourier_filter"


def _replay_oracle(rt, klass, bounded_name):
    """Oracle used to REPLAY failed obligations: a disagreement that belongs to a class recorded in known_findings.jsonl for the
    corresponding bounded check is a baseline defect, not evidence for the obligation under replay, and is not counted."""
    def f(inp):
        res = rt(inp)
        if res.get("violated"):
            from pyvc.runner import load_known

            k = klass(inp, res)
            if any(e.get("bounded") == bounded_name and e.get("class") == k for e in load_known("C07")):
                return dict(violated=False, observed=f"(known baseline disagreement of class '{k}' ignored in replay) " + str(res.get("observed")), expected=res.get("expected"))
        return res
    return f


C_FILTER.rt = _replay_oracle(rt_filter, klass_filter, B_FILTER)
C_IRADON.rt = _replay_oracle(rt_iradon, klass_iradon, B_IRADON)
C_RADON.rt = _replay_oracle(rt_radon, klass_radon, B_RADON)

BOUNDED = [
    Bounded.from_rt("radon_torch == skimage.radon (circle)", rt_radon, fam_radon,
                    "N=3..33 (odd and even), batch 1..3, the full 7.5-degree grid 0..180 for every size + oblique subsets + random subsets + default theta; random/smooth/delta images non-zero on the rim; pre-masked and unmasked", klass=klass_radon),
    Bounded.from_rt("iradon_torch == skimage.iradon", rt_iradon, fam_iradon,
                    "N=3..33 and 45,47,63,65; six filters; 5 oblique angles; batch 1..3; default theta; circle=False for odd N; theta mismatch; sinogram dtypes float32/float64/int64/int32/int16/uint8 (integer counts == float copy)", klass=klass_iradon),
    Bounded.from_rt("get_fourier_filter_torch == skimage._get_fourier_filter", rt_filter, fam_filter,
                    "even sizes 2..20, 32..512, six filters; odd sizes and unknown names must raise", klass=klass_filter),
    Bounded.from_rt("0-degree projection == masked column sums", rt_zero_degree, fam_zero, "N=3..33, batch 2", klass=klass_radon),
    Bounded.from_rt("batched == per-image", rt_batched, fam_batched, "both transforms, N in {3,4,5,8,9,16,17,32,33}, batch 2..3, all filters", klass=lambda i, r: f"{i['which']} N={i['N']}"),
    Bounded.from_rt("linearity", rt_linear, fam_linear, "both transforms, N in {3,4,5,8,9,16,17,32,33}", klass=lambda i, r: f"{i['which']} N={i['N']}"),
    Bounded.from_rt(B_SIRT, rt_sirt, fam_sirt, "N in {5,8,9}, batch 1..3, filters ramp/hann/None, circle True and False", klass=klass_sirt),
    Bounded.from_rt("spec-conformance: contract geometry == matrix passed to skimage warp", rt_spec_conformance, fam_conformance, "6 sizes x 5 angles"),
    Bounded.from_rt("library-model conformance", rt_models, lambda: [dict()], "fftfreq/fftshift/windows/linspace/2**ceil(log2)/arange/grid_sample/rot90 on small inputs"),
]

TRUSTED = [
    "scikit-image 0.26 (skimage.transform.radon / iradon / _get_fourier_filter) is the reference; its source is read (filter) or its calls are observed (warp matrix), never re-implemented",
    "A5: torch.fft.fft/ifft and scipy.fft.fft are functions of their input (equal inputs give equal outputs) and linear; their values are uninterpreted",
    "A6 models in pyvc/lib/c07_models.py: arange/linspace/zeros/cat/stack/meshgrid/matmul/gather/pad/clamp/floor/view/expand/squeeze/transpose/slice assignment; "
    "grid_sample(mode='bilinear', padding_mode='zeros', align_corners=True) = bilinear interpolation with zeros outside at x=(g+1)/2*(W-1); "
    "fftfreq, fftshift (out[i]=in[(i-n//2) mod n]), hamming/hann windows 0.54-0.46cos(2 pi k/(n-1)) / 0.5-0.5cos(...); 2**ceil(log2 x) = smallest power of two >= x (1<=x<=2^31); "
    "C-order flatten followed by view to the original shape is the identity (each checked numerically against the real library by the bounded check `library-model conformance`)",
    "A4: cos^2+sin^2=1, cos 0=1, sin 0=0 (ground instances); cos(n*pi/2), sin(n*pi/2) = (1,0),(0,1),(-1,0),(0,-1) for an integer n = 0,1,2,3 mod 4 "
    "(ground instance at n = floor(theta/90), used only on paths of radon_torch whose angle is known to be a multiple of 90 degrees - no such path exists on the unchanged tree)",
    "A6 (added): torch.rot90 / Tensor.flip = exact index maps (rot90: k mod 4 decides among (i,j), (j,n1-1-i), (n0-1-i,n1-1-j), (n0-1-j,i); checked for every k mod 4, "
    "negative k, non-square planes by `library-model conformance`); ones_like / zeros_like / abs elementwise; torch.mean(x) = an uninterpreted scalar that is a function of x; "
    "torch.arange(integer literals) as the index function i -> start+i*step (so the default-theta loop is verified by its invariant instead of 180 unrollings)",
    "T2 Sigma re-indexing: sum_{i<N} f(i) = sum_{r<N} g(r) whenever f(i) = g(N-1-i) on [0,N); Sigma-congruence; definition of partial sums PS(0)=0, PS(k+1)=PS(k)+term(k)",
    "skimage.transform.warp(order=1, mode='constant', cval=0) = bilinear interpolation with zeros outside (same element function as grid_sample zeros) - compared numerically by the bounded radon check only",
    "pyvc engine (AST interpreter, loop rule, path exploration), z3, cvc5",
]
ASSUMPTIONS = [
    "A1 floats are reals: float32 rounding (grid coordinates, log2, filter) is ignored in the deductive part; tolerances 1e-5*max|ref| appear only in the bounded checks",
    "deductive scope: square images [B,N,N] with N>=2, explicit theta of symbolic length AND theta=None (radon_torch: the default arange(180) goes through the same loop contract, "
    "with the clause `default-theta-is-skimage's-np.arange(180)`); "
    "iradon_torch: output_size=None, filter_name in {ramp, unknown} (the filter is used through its contract), circle=True for the value statement - for circle=False only shape/padding/pipeline are proved",
    "non-square inputs (crop branch of radon_torch) and device handling are outside the stated quantifier and not covered",
    "caller TomographyConv._sirt_run_epoch (the only quantem call site of the transforms) is verified from source with inline_alignment=False, gaussian_kernel=None, arbitrary "
    "filter_name, and circle=True: with circle=False the real function raises RuntimeError at `_obj += correction` ([M,M] reconstruction, [N,N] volume) - listed known finding of "
    "the bounded caller check, candidate fix proposed_fixes/C07_6.diff; inside it the transforms are used through call-site contracts (preconditions = the caller's own volume / "
    "angles / device / filter name / circle flag / residual, result shapes = the shape clauses proved for the bodies) and ObjectConstraints.apply_hard_constraints through an "
    "ASSUMED shape-only contract (returns a new tensor of the shape of its argument; the object model is outside C07)",
    "statements are made at one arbitrary output entry (Skolem constants b!px, y!px, x!px / b!px, a!px, j!px): this is universal quantification over the entry",
]
EXPLANATION = ("VCs generated from the real source of radon_torch / iradon_torch / get_fourier_filter_torch (and of scikit-image's _get_fourier_filter) "
               "discharged by z3/cvc5; agreement with scikit-image itself is decided by the run-time contracts over the bounded families (level 'other')")
REPLAY = {}
