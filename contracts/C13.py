"""C13 - image registration returns the applied shift with a consistent sign convention.

LEVEL "other": peak finding by FFT cross-correlation + argmax + matrix-multiply DFT is numerical search.  The DECIDING part is
the run-time contract (BOUNDED below).  The deductive part generates VCs from the real source of the six functions of
imaging_utils.py for everything around the search: centred wrap, parabolic vertex, index vectors of the matrix-multiply DFT,
phase-ramp sign, which spectrum is conjugated, how the local peak index is turned into a shift, frames (inputs not written).
"""
from __future__ import annotations

import math

import z3

from pyvc import values as V
from pyvc.values import Sym, SymArr, S, lift
from pyvc.interp import NS
from pyvc.registry import Contract
from pyvc.runner import Lemma, Bounded
from pyvc.lib import torch_ as tm
from pyvc.lib import c13_models as cm
from pyvc.lib.c13_models import CArr, R, cfreq, norm
from .common import registry, forall, implies, AND, OR, NOT

LEVEL = "other"
IU = "quantem.core.utils.imaging_utils"
I, Rl = z3.Int, z3.Real
PI = V.PI
HALF = z3.RealVal("1/2")


def make_registry():
    reg = registry()
    tm.install(reg)
    cm.install(reg)
    for c in CONTRACTS:
        reg.add_contract(c)
    return reg


# ------------------------------------------------------------------------------------------------
# specification vocabulary (from the property statement)
# ------------------------------------------------------------------------------------------------


def in_cell(r, n):
    """r lies in the centred periodic cell [-n/2, n/2)."""
    r, n = R(r), R(n)
    return AND(r >= -n / 2, r < n / 2)


def congruent(r, x, n, tag="m"):
    """r = x (mod n)."""
    m = I("m!" + tag)
    return z3.Exists([m], R(r) == R(x) - z3.ToReal(m) * R(n))


def curvature(v0, v1, v2):
    return 4 * R(v1) - 2 * R(v2) - 2 * R(v0)


def vertex(v0, v1, v2):
    """abscissa of the vertex of the parabola through (-1, v0), (0, v1), (1, v2) (closed form; lemma `parabola` proves it)."""
    return (R(v2) - R(v0)) / curvature(v0, v1, v2)


def wrap_idx(i, n):
    """circular neighbour index i mod n."""
    return V.py_mod(lift(i), lift(n))


def ghost_argmax(s, k):
    log = s.ctx.ghost.get("c13_argmax", [])
    return log[k] if k < len(log) else None


def pybool(b):
    return z3.BoolVal(bool(b))


def sizes(ctx):
    Mx, Nx = ctx.fresh("M", "int"), ctx.fresh("N", "int")
    ctx.assume(AND(Mx.t >= 1, Nx.t >= 1))
    return Mx, Nx


# ------------------------------------------------------------------------------------------------
# torch: dftUpsample_torch  (matrix-multiply DFT on a small window)
# ------------------------------------------------------------------------------------------------


def window_len(up):
    """ceil(1.5 * up): number of samples covering 1.5 pixels at 1/up spacing."""
    return -z3.ToInt(-(3 * R(up)) / 2)


def kernels_of(res):
    """(row kernel, middle operand term, column kernel) of result = real(KR @ X @ KC), or None."""
    ro = getattr(res, "real_of", None)
    if not isinstance(ro, CArr):
        return None
    e = ro.expr
    if e[0] != "matmul" or e[1][0] != "matmul":
        return None
    kr, mid, kc = e[1][1], e[1][2], e[2]
    if kr[0] != "ramp" or kc[0] != "ramp":
        return None
    return ro.parts[kr[1]], mid, ro.parts[kc[1]]


def dftt_setup(ctx):
    Mx, Nx = sizes(ctx)
    up = ctx.fresh("up", "int")
    xy = ctx.fresh_arr("centre", (2,), "real")
    return NS(imageCorr=CArr((Mx, Nx), ("sym", "C")), upsampleFactor=up, xyShift=xy, M=Mx, N=Nx)


def int_ite_subterms(t):
    """maximal Int-sorted subterms containing an if-then-else that sit directly under a to_real (index vectors such as
    ifftshift(arange(n)) - n//2 inside a real-valued phase)."""
    out, seen, stack = [], set(), [t]

    def has_ite(e):
        st, sn = [e], set()
        while st:
            x = st.pop()
            if x.get_id() in sn:
                continue
            sn.add(x.get_id())
            if z3.is_app(x) and x.decl().kind() == z3.Z3_OP_ITE:
                return True
            st.extend(x.children())
        return False

    while stack:
        e = stack.pop()
        if e.get_id() in seen:
            continue
        seen.add(e.get_id())
        if z3.is_app(e) and e.decl().kind() == z3.Z3_OP_TO_REAL and has_ite(e.arg(0)):
            out.append(e.arg(0))
            continue
        stack.extend(e.children())
    return out


def frequency_index_lemmas(s, label, phase, idx, n):
    """Named integer obligations `index vector used inside the phase == centred frequency` (odd AND even n); once proved they
    are available to the (nonlinear) phase obligation that follows."""
    cands = int_ite_subterms(phase) + int_ite_subterms(z3.simplify(phase))
    if not cands:
        return
    rng = AND(idx >= 0, idx < lift(n))

    def quick(X):
        sv = z3.Solver()
        sv.set("timeout", 2000)
        for h in s.ctx.pc:
            if not z3.is_quantifier(h):
                sv.add(h)
        sv.add(rng, X != cfreq(idx, n))
        return sv.check() == z3.unsat

    X = next((c for c in cands if quick(c)), cands[0])
    s.ctx.prove(f"post:{label}:integer-frequency-index=centred-frequency(odd-and-even-n)", implies(rng, X == cfreq(idx, n)), kind="post")


def dft_kernel_clauses(s, res, Mx, Nx, nrow, ncol, pos_row, pos_col, operand):
    """result = Re( KR @ operand @ KC ),  KR[a,k] = exp(-2 pi i cf(k) X_a / M),  KC[l,b] = exp(-2 pi i cf(l) Y_b / N)."""
    ks = kernels_of(res)
    out = [("result-is-real-part-of-rowkernel@operand@colkernel", pybool(ks is not None and norm(ks[1]) == norm(operand)))]
    if ks is None:
        return out
    KR, _, KC = ks
    a, k, l, b = (s.ctx.fresh(n, "int").t for n in ("a", "k", "l", "b"))
    Mr, Nr = R(Mx), R(Nx)
    s.ctx.assume(AND(k >= 0, k < lift(Mx), l >= 0, l < lift(Nx)))
    frequency_index_lemmas(s, "row-kernel", R(KR.ramp_phase(a, k)), k, Mx)
    frequency_index_lemmas(s, "col-kernel", R(KC.ramp_phase(l, b)), l, Nx)
    out += [
        ("row-kernel-shape", AND(lift(KR.shape[0]) == nrow, lift(KR.shape[1]) == lift(Mx))),
        ("col-kernel-shape", AND(lift(KC.shape[0]) == lift(Nx), lift(KC.shape[1]) == ncol)),
        ("row-kernel-phase=-2pi*centred-frequency*sample-position/M",
         implies(AND(a >= 0, a < nrow, k >= 0, k < lift(Mx)), R(KR.ramp_phase(a, k)) == -2 * PI * z3.ToReal(cfreq(k, Mx)) * pos_row(a) / Mr)),
        ("col-kernel-phase=-2pi*centred-frequency*sample-position/N",
         implies(AND(l >= 0, l < lift(Nx), b >= 0, b < ncol), R(KC.ramp_phase(l, b)) == -2 * PI * z3.ToReal(cfreq(l, Nx)) * pos_col(b) / Nr)),
    ]
    return out


def dftt_ensures(s):
    if s.mode == "apply":
        return []
    up = R(s.upsampleFactor)
    n = window_len(s.upsampleFactor)
    xy = s.xyShift
    out = dft_kernel_clauses(s, s.result, s.M, s.N, n, n,
                             lambda a: (z3.ToReal(a) - R(xy.fn(z3.IntVal(0)))) / up,
                             lambda b: (z3.ToReal(b) - R(xy.fn(z3.IntVal(1)))) / up, ("sym", "C"))
    out.append(("frame:inputs-not-written", pybool(s.imageCorr.writes == 0 and s.xyShift.writes == 0)))
    return out


def dftt_result(ctx, s):
    n = Sym(window_len(s.upsampleFactor))
    P = ctx.fresh_arr("upsampled", (n, n), "real")
    P.callee = "dftUpsample_torch"
    ctx.ghost.setdefault("c13_dft_calls", []).append(dict(operand=s.imageCorr, up=s.upsampleFactor, centre=s.xyShift, result=P))
    return P


C_DFTT = Contract(f"{IU}:dftUpsample_torch", setup=dftt_setup, requires=lambda s: [("upsampleFactor>=1", s.upsampleFactor >= 1)],
                  ensures=dftt_ensures, result=dftt_result)


# ------------------------------------------------------------------------------------------------
# torch: upsampled_correlation_torch
# ------------------------------------------------------------------------------------------------


def local_vertex(P, px, py, nrow, ncol, axis):
    """parabolic offset of the local peak (px, py) of the upsampled patch P along `axis`; 0 when the 3x3 neighbourhood
    does not fit into the patch (the code's documented fallback)."""
    px, py = lift(px), lift(py)
    inside = AND(px >= 1, px <= lift(nrow) - 2, py >= 1, py <= lift(ncol) - 2)
    if axis == 0:
        v = vertex(P(px - 1, py), P(px, py), P(px + 1, py))
    else:
        v = vertex(P(px, py - 1), P(px, py), P(px, py + 1))
    return z3.If(inside, v, z3.RealVal(0))


def ups_setup(ctx):
    Mx, Nx = sizes(ctx)
    up = ctx.fresh("up", "int")
    xy = ctx.fresh_arr("xyShift", (2,), "real")
    xy.as_type = __import__("torch").Tensor
    return NS(imageCorr=CArr((Mx, Nx), ("sym", "C")), upsampleFactor=up, xyShift=xy, M=Mx, N=Nx)


def ups_ensures(s):
    if s.mode == "apply":
        return []
    calls = s.ctx.ghost.get("c13_dft_calls", [])
    g = ghost_argmax(s, 0)
    out = [("calls-dftUpsample_torch-once-and-searches-its-result", pybool(len(calls) == 1 and g is not None and g["arr"] is calls[0]["result"]))]
    if not (len(calls) == 1 and g is not None and g["arr"] is calls[0]["result"]):
        return out
    c = calls[0]
    up = R(s.upsampleFactor)
    P = lambda i, j: R(g["fn"](i, j))
    nrow, ncol = g["shape"]
    res = s.result
    out += [
        # forward-DFT kernel on conj(cc), conjugated back (real part unchanged): samples Re ifft of cc at +position
        ("upsamples-the-conjugate-correlation(forward-kernel-convention)", pybool(norm(c["operand"].expr) == ("conj", ("sym", "C")))),
        ("same-upsample-factor", lift(c["up"]) == lift(s.upsampleFactor)),
        ("result-is-2-vector", pybool(isinstance(res, SymArr) and res.ndim == 1 and V._dim_lit(res.shape[0]) == 2)),
    ]
    for ax, (pk, n) in enumerate(((g["x0"], nrow), (g["y0"], ncol))):
        centre = R(c["centre"].fn(z3.IntVal(ax)))
        pos_peak = (R(pk) - centre) / up                      # position of patch index pk (callee contract: X_a = (a - centre)/up)
        tv = local_vertex(P, g["x0"], g["y0"], nrow, ncol, ax)
        mid = z3.ToReal(z3.ToInt(R(n) / 2))
        est = R(s.xyShift.fn(z3.IntVal(ax)))
        out += [
            (f"axis{ax}:result=position-of-local-peak+vertex/up", R(res.fn(z3.IntVal(ax))) == pos_peak + tv / up),
            (f"axis{ax}:window-centre-sample-within-half-an-upsampled-pixel-of-the-input-estimate",
             AND((mid - centre) / up - est <= 1 / (2 * up), est - (mid - centre) / up <= 1 / (2 * up))),
        ]
    out.append(("frame:inputs-not-written", pybool(s.imageCorr.writes == 0 and s.xyShift.writes == 0)))
    return out


def ups_result(ctx, s):
    r = ctx.fresh_arr("refined", (2,), "real")
    r.as_type = __import__("torch").Tensor
    ctx.ghost.setdefault("c13_ups_calls", []).append(dict(imageCorr=s.imageCorr, up=s.upsampleFactor, xyShift=s.xyShift, result=r))
    return r


C_UPS = Contract(f"{IU}:upsampled_correlation_torch", setup=ups_setup,
                 requires=lambda s: [("estimate-has-half-pixel-precision", AND(z3.IsInt(2 * R(s.xyShift.fn(z3.IntVal(0)))), z3.IsInt(2 * R(s.xyShift.fn(z3.IntVal(1))))))],
                 ensures=ups_ensures, result=ups_result, raises={AssertionError: lambda s: s.upsampleFactor <= 2})


# ------------------------------------------------------------------------------------------------
# torch: align_images_fourier_torch
# ------------------------------------------------------------------------------------------------


def corr_term(ref, im):
    """Re ifft2( F_ref * conj(F_im) ): its peak sits at the translation that maps im onto ref (lemma `sign-convention`)."""
    return norm(("ifft2", ("mul", ref, ("conj", im))))


def coarse_samples(g, Mx, Nx, axis):
    """the three correlation samples around the coarse peak along `axis`, with circular neighbours."""
    A = lambda i, j: R(g["fn"](i, j))
    x0, y0 = lift(g["x0"]), lift(g["y0"])
    if axis == 0:
        return A(wrap_idx(x0 - 1, Mx), y0), A(x0, y0), A(wrap_idx(x0 + 1, Mx), y0)
    return A(x0, wrap_idx(y0 - 1, Nx)), A(x0, y0), A(x0, wrap_idx(y0 + 1, Nx))


def align_setup(ctx):
    Mx, Nx = sizes(ctx)
    up = ctx.fresh("up", "int")
    return NS(G1=CArr((Mx, Nx), ("sym", "G1")), G2=CArr((Mx, Nx), ("sym", "G2")), upsample_factor=up, M=Mx, N=Nx)


def align_ensures(s):
    if s.mode == "apply":
        return []
    g = ghost_argmax(s, 0)
    ro = g and g["real_of"]
    ok = g is not None and isinstance(ro, CArr)
    out = [("coarse-peak-is-argmax-of-Re-ifft2(G1*conj(G2))", pybool(ok and norm(ro.expr) == corr_term(("sym", "G1"), ("sym", "G2"))))]
    if not ok:
        return out
    calls = s.ctx.ghost.get("c13_ups_calls", [])
    res = s.result
    refine = lift(s.upsample_factor) > 2
    if calls:
        c = calls[0]
        est = c["xyShift"]
        out += [
            ("refinement-only-for-upsample>2", refine),
            ("refines-the-same-correlation", pybool(norm(c["imageCorr"].expr) == norm(("mul", ("sym", "G1"), ("conj", ("sym", "G2")))))),
            ("refines-with-the-requested-factor", lift(c["up"]) == lift(s.upsample_factor)),
            ("returns-the-refined-estimate", pybool(res is c["result"])),
        ]
    else:
        est = res
        out.append(("no-refinement-only-for-upsample<=2", NOT(refine)))
    out.append(("estimate-is-2-vector", pybool(isinstance(est, SymArr) and est.ndim == 1 and V._dim_lit(est.shape[0]) == 2)))
    for ax, (pk, n) in enumerate(((g["x0"], s.M), (g["y0"], s.N))):
        v0, v1, v2 = coarse_samples(g, s.M, s.N, ax)
        e = R(est.fn(z3.IntVal(ax)))
        cv = curvature(v0, v1, v2)
        target = R(pk) + vertex(v0, v1, v2)
        out += [
            (f"axis{ax}:half-pixel-estimate-is-a-multiple-of-1/2", z3.IsInt(2 * e)),
            (f"axis{ax}:half-pixel-estimate-within-1/4-of-coarse-peak+parabolic-vertex(circular-neighbours)",
             implies(cv != 0, AND(e - target <= z3.RealVal("1/4"), target - e <= z3.RealVal("1/4")))),
            (f"axis{ax}:flat-neighbourhood-keeps-the-coarse-peak", implies(cv == 0, e == R(pk))),
        ]
    out.append(("frame:inputs-not-written", pybool(s.G1.writes == 0 and s.G2.writes == 0)))
    return out


def align_result(ctx, s):
    r = ctx.fresh_arr("xy_shift", (2,), "real")
    r.as_type = __import__("torch").Tensor
    ctx.ghost.setdefault("c13_align_calls", []).append(dict(G1=s.G1, G2=s.G2, up=s.upsample_factor, result=r))
    return r


C_ALIGN = Contract(f"{IU}:align_images_fourier_torch", setup=align_setup, ensures=align_ensures, result=align_result)

# ------------------------------------------------------------------------------------------------
# torch: cross_correlation_shift_torch
# ------------------------------------------------------------------------------------------------


def cct_setup(ctx):
    Mx, Nx = sizes(ctx)
    up = ctx.fresh("up", "int")
    a, b = ctx.fresh_arr("im_ref", (Mx, Nx), "real"), ctx.fresh_arr("im", (Mx, Nx), "real")
    a.name, b.name = "im_ref", "im"
    return NS(im_ref=a, im=b, upsample_factor=up, M=Mx, N=Nx)


def cct_ensures(s):
    calls = s.ctx.ghost.get("c13_align_calls", [])
    out = [("estimates-through-align_images_fourier_torch-once", pybool(len(calls) == 1))]
    if len(calls) != 1:
        return out
    c = calls[0]
    res = s.result
    out += [
        ("reference-spectrum-first,image-spectrum-second", pybool(c["G1"].expr == ("fft2", "im_ref") and c["G2"].expr == ("fft2", "im"))),
        ("same-upsample-factor", lift(c["up"]) == lift(s.upsample_factor)),
        ("result-is-2-vector", pybool(isinstance(res, SymArr) and res.ndim == 1 and V._dim_lit(res.shape[0]) == 2)),
    ]
    for ax, n in enumerate((s.M, s.N)):
        r, x = res.fn(z3.IntVal(ax)), c["result"].fn(z3.IntVal(ax))
        out += [(f"axis{ax}:in-centred-cell[-n/2,n/2)", in_cell(r, n)),
                (f"axis{ax}:congruent-to-the-estimate-mod-n", congruent(r, x, n, f"t{ax}"))]
    out.append(("frame:inputs-not-written", pybool(s.im_ref.writes == 0 and s.im.writes == 0)))
    return out


C_CCT = Contract(f"{IU}:cross_correlation_shift_torch", setup=cct_setup, ensures=cct_ensures)


# ------------------------------------------------------------------------------------------------
# numpy: dft_upsample
# ------------------------------------------------------------------------------------------------


def dftn_setup(ctx):
    Mx, Nx = sizes(ctx)
    up = ctx.fresh("up", "int")
    sx, sy = ctx.fresh("shift_row", "real"), ctx.fresh("shift_col", "real")
    return NS(F=CArr((Mx, Nx), ("sym", "C")), up=up, shift=(sx, sy), device="cpu", M=Mx, N=Nx)


def dftn_ensures(s):
    if s.mode == "apply":
        return []
    up = R(s.up)
    du = window_len(s.up)
    n = 2 * du + 1
    sx, sy = s.shift
    # window of 2*ceil(1.5 up)+1 samples at spacing 1/up, CENTRED on `shift`: sample a sits at shift + (a - du)/up
    out = dft_kernel_clauses(s, s.result, s.M, s.N, n, n,
                             lambda a: R(sx) + (z3.ToReal(a) - z3.ToReal(du)) / up,
                             lambda b: R(sy) + (z3.ToReal(b) - z3.ToReal(du)) / up, ("sym", "C"))
    out.append(("frame:input-not-written", pybool(s.F.writes == 0)))
    return out


def dftn_result(ctx, s):
    du = window_len(s.up)
    n = Sym(2 * du + 1)
    L = ctx.fresh_arr("local", (n, n), "real")
    L.callee = "dft_upsample"
    ctx.ghost.setdefault("c13_dft_calls", []).append(dict(operand=s.F, up=s.up, shift=s.shift, centre_index=du, result=L))
    return L


C_DFTN = Contract(f"{IU}:dft_upsample", setup=dftn_setup, requires=lambda s: [("up>=1", s.up >= 1)], ensures=dftn_ensures, result=dftn_result)

# ------------------------------------------------------------------------------------------------
# numpy: cross_correlation_shift
# ------------------------------------------------------------------------------------------------


def ccs_setup(ctx):
    Mx, Nx = sizes(ctx)
    up = ctx.fresh("up", "int")
    fft_input = ctx.branch(ctx.fresh("fft_input", "bool").t)
    ret = ctx.branch(ctx.fresh("return_shifted_image", "bool").t)
    fft_output = ctx.branch(ctx.fresh("fft_output", "bool").t) if ret else False
    if ctx.branch(ctx.fresh("max_shift_is_none", "bool").t):
        ms = None
    else:
        ms = ctx.fresh("max_shift", "real")
    if fft_input:
        a, b = CArr((Mx, Nx), ("sym", "F_ref")), CArr((Mx, Nx), ("sym", "F_im"))
    else:
        a, b = ctx.fresh_arr("im_ref", (Mx, Nx), "real"), ctx.fresh_arr("im", (Mx, Nx), "real")
        a.name, b.name = "im_ref", "im"
    return NS(im_ref=a, im=b, upsample_factor=up, max_shift=ms, return_shifted_image=ret, fft_input=fft_input,
              fft_output=fft_output, device="cpu", M=Mx, N=Nx)


def ccs_ensures(s):
    ctx = s.ctx
    Fref = ("sym", "F_ref") if s.fft_input else ("fft2", "im_ref")
    Fim = ("sym", "F_im") if s.fft_input else ("fft2", "im")
    log = ctx.ghost.get("c13_argmax", [])
    g = log[0] if log else None
    ok = g is not None and isinstance(g["real_of"], CArr)
    out = [("coarse-peak-is-argmax-of-Re-ifft2(F_ref*conj(F_im))", pybool(ok and norm(g["real_of"].expr) == corr_term(Fref, Fim)))]
    if not ok:
        return out
    res = s.result
    shifts, image = (res if isinstance(res, tuple) and len(res) == 2 else (res, None))
    out.append(("returns-(shifts,image)-exactly-when-requested", pybool((image is not None) == bool(s.return_shifted_image))))
    out.append(("shifts-is-2-vector", pybool(isinstance(shifts, SymArr) and shifts.ndim == 1 and V._dim_lit(shifts.shape[0]) == 2)))
    if not (isinstance(shifts, SymArr) and shifts.ndim == 1 and V._dim_lit(shifts.shape[0]) == 2):
        return out
    # -- the searched array: correlation with shift vectors of length >= max_shift (centred cell) excluded
    i, j = ctx.fresh("i", "int").t, ctx.fresh("j", "int").t
    inr = AND(i >= 0, i < lift(s.M), j >= 0, j < lift(s.N))
    raw = g["arr"].func(i, j)
    if s.max_shift is None:
        out.append(("searched-array-is-the-correlation", implies(inr, R(g["fn"](i, j)) == raw)))
    else:
        ci, cj, ms = z3.ToReal(cfreq(i, s.M)), z3.ToReal(cfreq(j, s.N)), R(s.max_shift)
        out.append(("searched-array-is-the-correlation-with-centred-shifts-of-length>=max_shift-zeroed",
                    implies(inr, R(g["fn"](i, j)) == z3.If(ci * ci + cj * cj >= ms * ms, z3.RealVal(0), raw))))
    calls = ctx.ghost.get("c13_dft_calls", [])
    up = R(s.upsample_factor)
    for ax, (pk, n) in enumerate(((g["x0"], s.M), (g["y0"], s.N))):
        v0, v1, v2 = coarse_samples(g, s.M, s.N, ax)
        cv = curvature(v0, v1, v2)
        target = R(pk) + vertex(v0, v1, v2)
        r = shifts.fn(z3.IntVal(ax))
        out.append((f"axis{ax}:in-centred-cell[-n/2,n/2)", in_cell(r, n)))
        if not calls:
            out.append((f"axis{ax}:congruent-to-coarse-peak+parabolic-vertex(circular-neighbours)-mod-n", implies(cv != 0, congruent(r, target, n, f"c{ax}"))))
        else:
            c = calls[0]
            g1 = log[1] if len(log) > 1 else None
            centre = R(c["shift"][ax])
            out.append((f"axis{ax}:upsampling-window-centred-on-coarse-peak+vertex(mod-n)", implies(cv != 0, congruent(centre, target, n, f"w{ax}"))))
            if g1 is not None and g1["arr"] is c["result"]:
                P = lambda a, b, _g=g1: R(_g["fn"](a, b))
                nrow, ncol = g1["shape"]
                lp = (g1["x0"], g1["y0"])[ax]
                # callee contract: sample a of the window sits at centre + (a - centre_index)/up
                pos = centre + (R(lp) - z3.ToReal(c["centre_index"])) / up
                tv = local_vertex(P, g1["x0"], g1["y0"], nrow, ncol, ax)
                out.append((f"axis{ax}:congruent-to-position-of-local-peak+vertex/up(mod-n)", congruent(r, pos + tv / up, n, f"u{ax}")))
    if not calls:
        out.append(("no-upsampling-only-for-upsample<=1", lift(s.upsample_factor) <= 1))
    else:
        c = calls[0]
        g1 = log[1] if len(log) > 1 else None
        out += [
            ("upsampling-only-for-upsample>1", lift(s.upsample_factor) > 1),
            ("local-search-on-the-upsampled-window", pybool(g1 is not None and g1["arr"] is c["result"])),
            ("same-upsample-factor", lift(c["up"]) == lift(s.upsample_factor)),
            # dft_upsample uses the forward kernel exp(-2 pi i k x/n); Re ifft of cc at +x is Re of the forward kernel on conj(cc)
            ("upsamples-the-conjugate-correlation(forward-kernel-convention)",
             pybool(norm(c["operand"].expr) == norm(("conj", ("mul", Fref, ("conj", Fim)))))),
        ]
    # -- aligned image: second image translated by the returned shift (shift theorem: spectrum * exp(-2 pi i k.s/n))
    if image is not None:
        term = image.expr if isinstance(image, CArr) else getattr(getattr(image, "real_of", None), "expr", None)
        owner = image if isinstance(image, CArr) else getattr(image, "real_of", None)
        prod = None
        if term is not None:
            t = norm(term)
            if not s.fft_output and t[0] == "ifft2":
                prod = t[1]
            elif s.fft_output:
                prod = t
        ramp = None
        if prod is not None and prod[0] == "mul" and len(prod) == 3:
            fs = [f for f in prod[1:] if f != norm(Fim)]
            if len(fs) == 1 and fs[0][0] == "ramp":
                ramp = owner.parts[fs[0][1]]
        out.append(("aligned-image-is-" + ("" if s.fft_output else "Re-ifft2-of-") + "F_im*unit-modulus-ramp" + ("(spectrum-returned)" if s.fft_output else ""),
                    pybool(ramp is not None and isinstance(image, CArr) == bool(s.fft_output))))
        if ramp is not None:
            ph = R(ramp.ramp_phase(i, j))
            r0, r1 = R(shifts.fn(z3.IntVal(0))), R(shifts.fn(z3.IntVal(1)))
            want = -2 * PI * (z3.ToReal(cfreq(i, s.M)) * r0 / R(s.M) + z3.ToReal(cfreq(j, s.N)) * r1 / R(s.N))
            out.append(("ramp-phase=-2pi*(k_row*shift_row/M+k_col*shift_col/N):translates-the-second-image-BY-the-returned-shift", implies(inr, ph == want)))
        out.append(("aligned-image-is-a-new-array", pybool(image is not s.im and image is not s.im_ref and getattr(image, "base", None) is not getattr(s.im, "base", s.im))))
    out.append(("frame:inputs-not-written", pybool(s.im_ref.writes == 0 and s.im.writes == 0)))
    return out


C_CCS = Contract(f"{IU}:cross_correlation_shift", setup=ccs_setup, ensures=ccs_ensures)

CONTRACTS = [C_DFTT, C_UPS, C_ALIGN, C_CCT, C_DFTN, C_CCS]
