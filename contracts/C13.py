"""C13 - image registration returns the applied shift with a consistent sign convention.

LEVEL "other": peak finding by FFT cross-correlation + argmax + matrix-multiply DFT is numerical search.  The DECIDING part is
the run-time contract (BOUNDED below).  The deductive part generates VCs from the real source of the six functions of
imaging_utils.py for everything around the search: centred wrap, parabolic vertex, index vectors of the matrix-multiply DFT,
phase-ramp sign, which spectrum is conjugated, how the local peak index is turned into a shift, frames (inputs not written).
"""
from __future__ import annotations

import math

import z3

from pyvc import values as V
from pyvc.values import Sym, SymArr, lift
from pyvc.interp import NS, LoopSpec
from pyvc.registry import Contract
from pyvc.runner import Lemma, Bounded
from pyvc.lib import torch_ as tm
from pyvc.lib import c13_models as cm
from pyvc.lib.c13_models import CArr, R, cfreq, norm
from .common import registry, implies, AND, OR, NOT

# evidence strings only: the Python pretty-printer of z3 is quadratic on the large wrap / slice terms of this module
z3.set_option(max_visited=150, max_depth=12, max_args=8, max_lines=40)

LEVEL = "other"
IU = "quantem.core.utils.imaging_utils"
I, Rl = z3.Int, z3.Real
PI = V.PI
HALF = z3.RealVal("1/2")


def make_registry():
    reg = registry()
    tm.install(reg)
    cm.install(reg)
    cm.install_translation_model(reg)
    cm.install_stack_models(reg)
    for c in CONTRACTS:
        reg.add_contract(c)
    return reg


# ------------------------------------------------------------------------------------------------
# specification vocabulary (from the property statement)
# ------------------------------------------------------------------------------------------------


def in_cell(r, n):
    """r lies in the centred periodic cell [-n/2, n/2)."""
    r, n = R(r), R(n)
    return AND(r >= -n / 2, r < n / 2)


def _subterms(t, pred):
    out, seen, stack = [], set(), [t]
    while stack:
        e = stack.pop()
        if e.get_id() in seen:
            continue
        seen.add(e.get_id())
        if pred(e):
            out.append(e)
        stack.extend(e.children())
    return out


def _is_to_int(e):
    return z3.is_app(e) and e.decl().kind() == z3.Z3_OP_TO_INT


def congruent(r, x, n, tag="m"):
    """r = x (mod n):  r = x - m*n for an integer m.  The existential is discharged by instantiation: the candidate
    witnesses are the sums of the floor terms occurring in r (plus) and x (minus) - a disjunction of instances, which
    implies the existential statement."""
    r, x, n = R(r), R(x), R(n)
    pos = _subterms(r, _is_to_int)[:3]
    neg = [t for t in _subterms(x, _is_to_int) if all(not t.eq(p) for p in pos)][:2]
    cands = [z3.IntVal(0)]
    for t in pos:
        cands = cands + [c + t for c in cands]
    for t in neg:
        cands = cands + [c - t for c in cands]
    return z3.Or(*[r == x - z3.ToReal(m) * n for m in cands])


def generalise(goal, pred):
    """replace every maximal subterm satisfying `pred` by a fresh constant (valid for the fresh constant => valid for the term)."""
    ts = _subterms(goal, pred)
    ts.sort(key=lambda e: -len(e.sexpr()))
    subs = []
    for k, t in enumerate(ts):
        subs.append((t, z3.Const(f"gen!{k}!{abs(hash(t.sexpr())) % 10**8}", t.sort())))
    return z3.substitute(goal, *subs) if subs else goal


def G(goal, only=None):
    """goal with the parabolic offsets (quotients whose denominator mentions array samples [of the function named `only`])
    generalised to fresh reals; simplification first, so that equal offsets written differently become the same term."""
    if only is None:
        return generalise(z3.simplify(goal), _has_uf_real_app)

    def pred(e):
        if not (z3.is_app(e) and e.decl().kind() == z3.Z3_OP_DIV):
            return False
        return bool(_subterms(e.arg(1), lambda x: z3.is_app(x) and x.num_args() > 0 and x.decl().name() == only))

    return generalise(z3.simplify(goal), pred)


def _has_uf_real_app(e):
    """a real division whose denominator mentions array samples (uninterpreted applications): the parabolic offsets."""
    if not (z3.is_app(e) and e.decl().kind() == z3.Z3_OP_DIV):
        return False
    return bool(_subterms(e.arg(1), lambda x: z3.is_app(x) and x.num_args() > 0 and x.decl().kind() == z3.Z3_OP_UNINTERPRETED))


def curvature(v0, v1, v2):
    return 4 * R(v1) - 2 * R(v2) - 2 * R(v0)


def vertex(v0, v1, v2):
    """abscissa of the vertex of the parabola through (-1, v0), (0, v1), (1, v2) (closed form; lemma `parabola` proves it)."""
    return (R(v2) - R(v0)) / curvature(v0, v1, v2)


def wrap_idx(i, n):
    """circular neighbour index i mod n."""
    return V.py_mod(lift(i), lift(n))


def ghost_argmax(s, k):
    log = s.ctx.ghost.get("c13_argmax", [])
    return log[k] if k < len(log) else None


def pybool(b):
    return z3.BoolVal(bool(b))


def sizes(ctx):
    Mx, Nx = ctx.fresh("M", "int"), ctx.fresh("N", "int")
    ctx.assume(AND(Mx.t >= 1, Nx.t >= 1))
    return Mx, Nx


# ------------------------------------------------------------------------------------------------
# torch: dftUpsample_torch  (matrix-multiply DFT on a small window)
# ------------------------------------------------------------------------------------------------


def window_len(up):
    """ceil(1.5 * up): number of samples covering 1.5 pixels at 1/up spacing."""
    return -z3.ToInt(-(3 * R(up)) / 2)


def kernels_of(res):
    """(row kernel, middle operand term, column kernel) of result = real(KR @ X @ KC), or None."""
    ro = getattr(res, "real_of", None)
    if not isinstance(ro, CArr):
        return None
    e = ro.expr
    if e[0] != "matmul" or e[1][0] != "matmul":
        return None
    kr, mid, kc = e[1][1], e[1][2], e[2]
    if kr[0] != "ramp" or kc[0] != "ramp":
        return None
    return ro.parts[kr[1]], mid, ro.parts[kc[1]]


def dftt_setup(ctx):
    Mx, Nx = sizes(ctx)
    up = ctx.fresh("up", "int")
    xy = ctx.fresh_arr("centre", (2,), "real")
    return NS(imageCorr=CArr((Mx, Nx), ("sym", "C")), upsampleFactor=up, xyShift=xy, M=Mx, N=Nx)


def int_ite_subterms(t):
    """maximal Int-sorted subterms containing an if-then-else that sit directly under a to_real (index vectors such as
    ifftshift(arange(n)) - n//2 inside a real-valued phase)."""
    out, seen, stack = [], set(), [t]

    def has_ite(e):
        st, sn = [e], set()
        while st:
            x = st.pop()
            if x.get_id() in sn:
                continue
            sn.add(x.get_id())
            if z3.is_app(x) and x.decl().kind() == z3.Z3_OP_ITE:
                return True
            st.extend(x.children())
        return False

    while stack:
        e = stack.pop()
        if e.get_id() in seen:
            continue
        seen.add(e.get_id())
        if z3.is_app(e) and e.decl().kind() == z3.Z3_OP_TO_REAL and has_ite(e.arg(0)):
            out.append(e.arg(0))
            continue
        stack.extend(e.children())
    return out


def frequency_index_lemmas(s, label, phase, idx, n):
    """Named integer obligations `index vector used inside the phase == centred frequency` (odd AND even n); once proved they
    are available to the (nonlinear) phase obligation that follows."""
    cands = int_ite_subterms(phase) + int_ite_subterms(z3.simplify(phase))
    if not cands:
        return
    rng = AND(idx >= 0, idx < lift(n))

    def quick(X):
        sv = z3.Solver()
        sv.set("rlimit", 8000000)   # deterministic resource limit (a wall-clock limit made the chosen candidate depend on machine load)
        sv.set("timeout", 600000)
        for h in s.ctx.pc:
            if not z3.is_quantifier(h):
                sv.add(h)
        sv.add(rng, X != cfreq(idx, n))
        return sv.check() == z3.unsat

    X = next((c for c in cands if quick(c)), cands[0])
    s.ctx.prove(f"post:{label}:integer-frequency-index=centred-frequency(odd-and-even-n)", implies(rng, X == cfreq(idx, n)), kind="post")


def dft_kernel_clauses(s, res, Mx, Nx, nrow, ncol, pos_row, pos_col, operand):
    """result = Re( KR @ operand @ KC ),  KR[a,k] = exp(-2 pi i cf(k) X_a / M),  KC[l,b] = exp(-2 pi i cf(l) Y_b / N)."""
    ks = kernels_of(res)
    out = [("result-is-real-part-of-rowkernel@operand@colkernel", pybool(ks is not None and norm(ks[1]) == norm(operand)))]
    if ks is None:
        return out
    KR, _, KC = ks
    a, k, l, b = (s.ctx.fresh(n, "int").t for n in ("a", "k", "l", "b"))
    Mr, Nr = R(Mx), R(Nx)
    s.ctx.assume(AND(k >= 0, k < lift(Mx), l >= 0, l < lift(Nx)))
    frequency_index_lemmas(s, "row-kernel", R(KR.ramp_phase(a, k)), k, Mx)
    frequency_index_lemmas(s, "col-kernel", R(KC.ramp_phase(l, b)), l, Nx)
    out += [
        ("row-kernel-shape", AND(lift(KR.shape[0]) == nrow, lift(KR.shape[1]) == lift(Mx))),
        ("col-kernel-shape", AND(lift(KC.shape[0]) == lift(Nx), lift(KC.shape[1]) == ncol)),
        ("row-kernel-phase=-2pi*centred-frequency*sample-position/M",
         implies(AND(a >= 0, a < nrow, k >= 0, k < lift(Mx)), R(KR.ramp_phase(a, k)) == -2 * PI * z3.ToReal(cfreq(k, Mx)) * pos_row(a) / Mr)),
        ("col-kernel-phase=-2pi*centred-frequency*sample-position/N",
         implies(AND(l >= 0, l < lift(Nx), b >= 0, b < ncol), R(KC.ramp_phase(l, b)) == -2 * PI * z3.ToReal(cfreq(l, Nx)) * pos_col(b) / Nr)),
    ]
    return out


def dftt_ensures(s):
    if s.mode == "apply":
        return []
    up = R(s.upsampleFactor)
    n = window_len(s.upsampleFactor)
    xy = s.xyShift
    out = dft_kernel_clauses(s, s.result, s.M, s.N, n, n,
                             lambda a: (z3.ToReal(a) - R(xy.fn(z3.IntVal(0)))) / up,
                             lambda b: (z3.ToReal(b) - R(xy.fn(z3.IntVal(1)))) / up, ("sym", "C"))
    out.append(("frame:inputs-not-written", pybool(s.imageCorr.writes == 0 and s.xyShift.writes == 0)))
    return out


def dftt_result(ctx, s):
    n = Sym(window_len(s.upsampleFactor))
    P = ctx.fresh_arr("upsampled", (n, n), "real")
    P.callee = "dftUpsample_torch"
    ctx.ghost.setdefault("c13_dft_calls", []).append(dict(operand=s.imageCorr, up=s.upsampleFactor, centre=s.xyShift, result=P))
    return P


C_DFTT = Contract(f"{IU}:dftUpsample_torch", setup=dftt_setup, requires=lambda s: [("upsampleFactor>=1", s.upsampleFactor >= 1)],
                  ensures=dftt_ensures, result=dftt_result)


# ------------------------------------------------------------------------------------------------
# torch: upsampled_correlation_torch
# ------------------------------------------------------------------------------------------------


def local_vertex(P, px, py, nrow, ncol, axis):
    """parabolic offset of the local peak (px, py) of the upsampled patch P along `axis`; 0 when the 3x3 neighbourhood
    does not fit into the patch (the code's documented fallback)."""
    px, py = lift(px), lift(py)
    inside = AND(px >= 1, px <= lift(nrow) - 2, py >= 1, py <= lift(ncol) - 2)
    if axis == 0:
        v = vertex(P(px - 1, py), P(px, py), P(px + 1, py))
    else:
        v = vertex(P(px, py - 1), P(px, py), P(px, py + 1))
    return z3.If(inside, v, z3.RealVal(0))


def patch_clauses(s, g, tag=""):
    """Index bookkeeping of the 3x3 patch handed to the parabolic refinement (ghost log of the slices cut out of the searched
    window): it is cut out of the window that argmax searched, with WINDOW indices; it is complete (3x3) exactly when the 3x3
    neighbourhood of the argmax position fits into the window, and then its centre element patch[1,1] IS the argmax sample
    (rows argmax-1 .. argmax+1, columns argmax-1 .. argmax+1).  Nothing is stated when the function cuts no slice out of the
    searched window (another way of reading the neighbours): the value-level clause `...+vertex/up` decides then."""
    ps = [p for p in s.ctx.ghost.get("c13_patches", []) if p["arr"] is g["arr"]]
    if not ps:
        return []
    p = ps[0]
    nrow, ncol = g["shape"]
    x0, y0 = lift(g["x0"]), lift(g["y0"])
    inside = AND(x0 >= 1, x0 <= lift(nrow) - 2, y0 >= 1, y0 <= lift(ncol) - 2)
    shp = p["shape"]
    ok = shp is not None and len(shp) == 2 and p["step"] == (1, 1)
    out = [(f"{tag}refinement-patch-is-one-contiguous-2d-slice-of-the-searched-window", pybool(ok and len(ps) == 1))]
    if not ok:
        return out
    is3 = AND(lift(shp[0]) == 3, lift(shp[1]) == 3)
    (a0, a1), (b0, b1) = p["asked"]
    asked = [t for t in (a0, a1, b0, b1)]
    out += [
        (f"{tag}refinement-patch-is-complete(3x3)-exactly-when-the-neighbourhood-of-the-argmax-fits-the-window", is3 == inside),
        (f"{tag}refinement-patch-centre-element[1,1]-is-the-argmax-sample(rows-argmax-1..argmax+1,cols-argmax-1..argmax+1)",
         implies(is3, AND(lift(p["lo"][0]) + 1 == x0, lift(p["lo"][1]) + 1 == y0))),
        (f"{tag}refinement-patch-bounds-are-window-indices:[argmax-1,argmax+2)-on-both-axes",
         pybool(all(t is not None for t in asked)) if any(t is None for t in asked) else
         AND(lift(a0) == x0 - 1, lift(a1) == x0 + 2, lift(b0) == y0 - 1, lift(b1) == y0 + 2)),
    ]
    return out


def ups_setup(ctx):
    Mx, Nx = sizes(ctx)
    up = ctx.fresh("up", "int")
    xy = ctx.fresh_arr("xyShift", (2,), "real")
    xy.as_type = __import__("torch").Tensor
    return NS(imageCorr=CArr((Mx, Nx), ("sym", "C")), upsampleFactor=up, xyShift=xy, M=Mx, N=Nx)


def ups_ensures(s):
    if s.mode == "apply":
        return []
    calls = s.ctx.ghost.get("c13_dft_calls", [])
    g = ghost_argmax(s, 0)
    out = [("calls-dftUpsample_torch-once-and-searches-its-result", pybool(len(calls) == 1 and g is not None and g["arr"] is calls[0]["result"]))]
    if not (len(calls) == 1 and g is not None and g["arr"] is calls[0]["result"]):
        return out
    c = calls[0]
    up = R(s.upsampleFactor)
    P = lambda i, j: R(g["fn"](i, j))
    nrow, ncol = g["shape"]
    res = s.result
    out += [
        # forward-DFT kernel on conj(cc), conjugated back (real part unchanged): samples Re ifft of cc at +position
        ("upsamples-the-conjugate-correlation(forward-kernel-convention)", pybool(norm(c["operand"].expr) == ("conj", ("sym", "C")))),
        ("same-upsample-factor", lift(c["up"]) == lift(s.upsampleFactor)),
        ("result-is-2-vector", pybool(isinstance(res, SymArr) and res.ndim == 1 and V._dim_lit(res.shape[0]) == 2)),
    ]
    for ax, (pk, n) in enumerate(((g["x0"], nrow), (g["y0"], ncol))):
        centre = R(c["centre"].fn(z3.IntVal(ax)))
        pos_peak = (R(pk) - centre) / up                      # position of patch index pk (callee contract: X_a = (a - centre)/up)
        tv = local_vertex(P, g["x0"], g["y0"], nrow, ncol, ax)
        mid = z3.ToReal(z3.ToInt(R(n) / 2))
        est = R(s.xyShift.fn(z3.IntVal(ax)))
        out += [
            (f"axis{ax}:result=position-of-local-peak+vertex/up", R(res.fn(z3.IntVal(ax))) == pos_peak + tv / up),
            (f"axis{ax}:window-centre-sample-within-half-an-upsampled-pixel-of-the-input-estimate",
             AND((mid - centre) / up - est <= 1 / (2 * up), est - (mid - centre) / up <= 1 / (2 * up))),
        ]
    # -- index bookkeeping, each step a named obligation (symbolic upsample factor and shapes)
    gs = z3.ToInt(z3.ToReal(window_len(s.upsampleFactor)) / 2)      # centre index of the window: floor(ceil(1.5 up) / 2)
    out.append(("window-centre-index=floor(ceil(1.5*up)/2)-is-an-index-of-the-searched-window",
                AND(gs >= 0, gs < lift(nrow), gs < lift(ncol), lift(nrow) == window_len(s.upsampleFactor), lift(ncol) == window_len(s.upsampleFactor))))
    out += patch_clauses(s, g)
    for ax, pk in enumerate((g["x0"], g["y0"])):
        centre = R(c["centre"].fn(z3.IntVal(ax)))
        snapped = (z3.ToReal(gs) - centre) / up         # position of the window's centre sample (callee contract: X_a = (a - centre)/up)
        est = R(s.xyShift.fn(z3.IntVal(ax)))
        tv = local_vertex(P, g["x0"], g["y0"], nrow, ncol, ax)
        # (that the centre sample sits within half an upsampled pixel of the input estimate is the clause
        #  `window-centre-sample-within-half-an-upsampled-pixel-of-the-input-estimate` above)
        out.append((f"axis{ax}:returned-shift=position-of-window-centre-sample+(argmax-index-window-centre-index)/up+parabolic-correction/up",
                    R(res.fn(z3.IntVal(ax))) == snapped + (R(pk) - z3.ToReal(gs)) / up + tv / up))
    out.append(("frame:inputs-not-written", pybool(s.imageCorr.writes == 0 and s.xyShift.writes == 0)))
    return out


def ups_result(ctx, s):
    r = ctx.fresh_arr("refined", (2,), "real")
    r.as_type = __import__("torch").Tensor
    ctx.ghost.setdefault("c13_ups_calls", []).append(dict(imageCorr=s.imageCorr, up=s.upsampleFactor, xyShift=s.xyShift, result=r))
    return r


C_UPS = Contract(f"{IU}:upsampled_correlation_torch", setup=ups_setup,
                 requires=lambda s: [("estimate-has-half-pixel-precision", AND(z3.IsInt(2 * R(s.xyShift.fn(z3.IntVal(0)))), z3.IsInt(2 * R(s.xyShift.fn(z3.IntVal(1))))))],
                 ensures=ups_ensures, result=ups_result, raises={AssertionError: lambda s: s.upsampleFactor <= 2})


# ------------------------------------------------------------------------------------------------
# torch: align_images_fourier_torch
# ------------------------------------------------------------------------------------------------


def corr_term(ref, im):
    """Re ifft2( F_ref * conj(F_im) ): its peak sits at the translation that maps im onto ref (lemma `sign-convention`)."""
    return norm(("ifft2", ("mul", ref, ("conj", im))))


def coarse_samples(g, Mx, Nx, axis):
    """the three correlation samples around the coarse peak along `axis`, with circular neighbours."""
    A = lambda i, j: R(g["fn"](i, j))
    x0, y0 = lift(g["x0"]), lift(g["y0"])
    if axis == 0:
        return tuple(A(wrap_idx(x0 + d, Mx), y0) for d in (-1, 0, 1))
    return tuple(A(x0, wrap_idx(y0 + d, Nx)) for d in (-1, 0, 1))


def align_setup(ctx):
    Mx, Nx = sizes(ctx)
    up = ctx.fresh("up", "int")
    return NS(G1=CArr((Mx, Nx), ("sym", "G1")), G2=CArr((Mx, Nx), ("sym", "G2")), upsample_factor=up, M=Mx, N=Nx)


def align_ensures(s):
    if s.mode == "apply":
        return []
    g = ghost_argmax(s, 0)
    ro = g and g["real_of"]
    ok = g is not None and isinstance(ro, CArr)
    out = [("coarse-peak-is-argmax-of-Re-ifft2(G1*conj(G2))", pybool(ok and norm(ro.expr) == corr_term(("sym", "G1"), ("sym", "G2"))))]
    if not ok:
        return out
    calls = s.ctx.ghost.get("c13_ups_calls", [])
    res = s.result
    refine = lift(s.upsample_factor) > 2
    if calls:
        c = calls[0]
        est = c["xyShift"]
        out += [
            ("refinement-only-for-upsample>2", refine),
            ("refines-the-same-correlation", pybool(norm(c["imageCorr"].expr) == norm(("mul", ("sym", "G1"), ("conj", ("sym", "G2")))))),
            ("refines-with-the-requested-factor", lift(c["up"]) == lift(s.upsample_factor)),
            ("returns-the-refined-estimate", pybool(res is c["result"])),
        ]
    else:
        est = res
        out.append(("no-refinement-only-for-upsample<=2", NOT(refine)))
    out.append(("estimate-is-2-vector", pybool(isinstance(est, SymArr) and est.ndim == 1 and V._dim_lit(est.shape[0]) == 2)))
    for ax, (pk, n) in enumerate(((g["x0"], s.M), (g["y0"], s.N))):
        v0, v1, v2 = coarse_samples(g, s.M, s.N, ax)
        e = R(est.fn(z3.IntVal(ax)))
        cv = curvature(v0, v1, v2)
        target = R(pk) + vertex(v0, v1, v2)
        out += [
            (f"axis{ax}:half-pixel-estimate-is-a-multiple-of-1/2", z3.IsInt(2 * e)),
            (f"axis{ax}:half-pixel-estimate-within-1/4-of-coarse-peak+parabolic-vertex(circular-neighbours)",
             implies(cv != 0, AND(e - target <= z3.RealVal("1/4"), target - e <= z3.RealVal("1/4")))),
            (f"axis{ax}:flat-neighbourhood-keeps-the-coarse-peak", implies(cv == 0, e == R(pk))),
            # raw (unsigned) convention: integer peak position inside the array + a sub-pixel part of at most 1/2 + 1/4 pixel
            (f"axis{ax}:coarse-peak-is-an-index-of-the-correlation-array[0,n)", AND(lift(pk) >= 0, lift(pk) < lift(n))),
            (f"axis{ax}:half-pixel-estimate=coarse-peak+sub-pixel-part-of-at-most-3/4(peak-sample-not-below-its-neighbours)",
             implies(AND(v1 >= v0, v1 >= v2), AND(e - R(pk) <= z3.RealVal("3/4"), R(pk) - e <= z3.RealVal("3/4")))),
        ]
    out.append(("frame:inputs-not-written", pybool(s.G1.writes == 0 and s.G2.writes == 0)))
    return out


def RAW(ax):
    """ghost: value (axis ax) that align_images_fourier_torch returns for (spectrum of image `ref`, spectrum of image `im`, upsample
    factor); images are named by integer identities (-1 = the caller's reference image, k >= 0 = image k of the caller's stack)."""
    return z3.Function(f"align_images_fourier_torch!raw{ax}", z3.IntSort(), z3.IntSort(), z3.IntSort(), z3.RealSort())


def wrapspec(x, n):
    """the signed convention: x reported in the centred cell [-n/2, n/2) (x minus the multiple of n that puts it there)."""
    x, n = R(x), R(n)
    return x - n * z3.ToReal(z3.ToInt((x + n / 2) / n))


def image_ids(a, b):
    ia, ib = getattr(a, "c13_id", None), getattr(b, "c13_id", None)
    return None if ia is None or ib is None else (ia, ib)


def align_result(ctx, s):
    ids = image_ids(s.G1, s.G2)
    if ids is not None:
        # the estimator is a function of its arguments: its value for (image a, image b, up) is the ghost term RAW(a, b, up)
        r = V.from_list([Sym(RAW(ax)(ids[0], ids[1], lift(s.upsample_factor))) for ax in (0, 1)], kind="real", pylist=False)
    else:
        r = ctx.fresh_arr("xy_shift", (2,), "real")
    r.as_type = __import__("torch").Tensor
    ctx.ghost.setdefault("c13_align_calls", []).append(dict(G1=s.G1, G2=s.G2, up=s.upsample_factor, result=r))
    return r


C_ALIGN = Contract(f"{IU}:align_images_fourier_torch", setup=align_setup, ensures=align_ensures, result=align_result)

# ------------------------------------------------------------------------------------------------
# torch: cross_correlation_shift_torch
# ------------------------------------------------------------------------------------------------


def cct_setup(ctx):
    Mx, Nx = sizes(ctx)
    up = ctx.fresh("up", "int")
    a, b = ctx.fresh_arr("im_ref", (Mx, Nx), "real"), ctx.fresh_arr("im", (Mx, Nx), "real")
    a.name, b.name = "im_ref", "im"
    return NS(im_ref=a, im=b, upsample_factor=up, M=Mx, N=Nx)


def cct_result(ctx, s):
    r = ctx.fresh_arr("signed_shift", (2,), "real")
    r.as_type = __import__("torch").Tensor
    ctx.ghost.setdefault("c13_cct_calls", []).append(dict(im_ref=s.im_ref, im=s.im, up=s.upsample_factor, result=r))
    return r


def cct_ensures(s):
    if s.mode == "apply":
        # used BY CONTRACT: the three clauses proved below, for the estimate of (image a, image b, up) named by the ghost term RAW
        ids = image_ids(s.im_ref, s.im)
        if ids is None or not isinstance(s.im_ref, SymArr) or s.im_ref.ndim != 2:
            return []
        out = []
        for ax in (0, 1):
            n = s.im_ref.shape[ax]
            r, x = R(s.result.fn(z3.IntVal(ax))), RAW(ax)(ids[0], ids[1], lift(s.upsample_factor))
            out += [(f"axis{ax}:equals-the-centred-wrap-of-the-estimate", r == wrapspec(x, n)), (f"axis{ax}:in-centred-cell[-n/2,n/2)", in_cell(r, n))]
        return out
    calls = s.ctx.ghost.get("c13_align_calls", [])
    out = [("estimates-through-align_images_fourier_torch-once", pybool(len(calls) == 1))]
    if len(calls) != 1:
        return out
    c = calls[0]
    res = s.result
    out += [
        ("reference-spectrum-first,image-spectrum-second", pybool(c["G1"].expr == ("fft2", "im_ref") and c["G2"].expr == ("fft2", "im"))),
        ("same-upsample-factor", lift(c["up"]) == lift(s.upsample_factor)),
        ("result-is-2-vector", pybool(isinstance(res, SymArr) and res.ndim == 1 and V._dim_lit(res.shape[0]) == 2)),
    ]
    for ax, n in enumerate((s.M, s.N)):
        r, x = res.fn(z3.IntVal(ax)), c["result"].fn(z3.IntVal(ax))
        out += [(f"axis{ax}:in-centred-cell[-n/2,n/2)", in_cell(r, n)),
                (f"axis{ax}:congruent-to-the-estimate-mod-n", congruent(r, x, n, f"t{ax}")),
                (f"axis{ax}:equals-the-centred-wrap-of-the-estimate", R(r) == wrapspec(x, n))]
    out.append(("frame:inputs-not-written", pybool(s.im_ref.writes == 0 and s.im.writes == 0)))
    return out


def cct_requires(s):
    if s.mode != "apply":
        return []
    a, b = s.im_ref, s.im
    ok = isinstance(a, SymArr) and isinstance(b, SymArr) and a.ndim == 2 and b.ndim == 2
    return [("two-2d-images-of-equal-shape", pybool(False) if not ok else AND(lift(a.shape[0]) == lift(b.shape[0]), lift(a.shape[1]) == lift(b.shape[1])))]


C_CCT = Contract(f"{IU}:cross_correlation_shift_torch", setup=cct_setup, requires=cct_requires, ensures=cct_ensures, result=cct_result)


# ------------------------------------------------------------------------------------------------
# numpy: dft_upsample
# ------------------------------------------------------------------------------------------------


def dftn_setup(ctx):
    Mx, Nx = sizes(ctx)
    up = ctx.fresh("up", "int")
    sx, sy = ctx.fresh("shift_row", "real"), ctx.fresh("shift_col", "real")
    return NS(F=CArr((Mx, Nx), ("sym", "C")), up=up, shift=(sx, sy), device="cpu", M=Mx, N=Nx)


def dftn_ensures(s):
    if s.mode == "apply":
        return []
    up = R(s.up)
    du = window_len(s.up)
    n = 2 * du + 1
    sx, sy = s.shift
    # window of 2*ceil(1.5 up)+1 samples at spacing 1/up, CENTRED on `shift`: sample a sits at shift + (a - du)/up
    out = dft_kernel_clauses(s, s.result, s.M, s.N, n, n,
                             lambda a: R(sx) + (z3.ToReal(a) - z3.ToReal(du)) / up,
                             lambda b: R(sy) + (z3.ToReal(b) - z3.ToReal(du)) / up, ("sym", "C"))
    out.append(("frame:input-not-written", pybool(s.F.writes == 0)))
    return out


def dftn_result(ctx, s):
    du = window_len(s.up)
    n = Sym(2 * du + 1)
    L = ctx.fresh_arr("local", (n, n), "real")
    L.callee = "dft_upsample"
    ctx.ghost.setdefault("c13_dft_calls", []).append(dict(operand=s.F, up=s.up, shift=s.shift, centre_index=du, result=L))
    return L


C_DFTN = Contract(f"{IU}:dft_upsample", setup=dftn_setup, requires=lambda s: [("up>=1", s.up >= 1)], ensures=dftn_ensures, result=dftn_result)

# ------------------------------------------------------------------------------------------------
# numpy: cross_correlation_shift
# ------------------------------------------------------------------------------------------------


# (fft_input, return_shifted_image, fft_output, max_shift is None)
CCS_COMBOS = [(False, False, False, True), (True, True, True, False), (False, True, False, False),
              (True, True, False, True), (True, False, False, False), (False, True, True, True),
              # the other six of the twelve combinations (the first six are a pairwise cover)
              (False, False, False, False), (True, False, False, True), (False, True, False, True),
              (True, True, False, False), (False, True, True, False), (True, True, True, True)]


def ccs_setup(ctx, subset=(0, 1, 2, 3, 4, 5)):
    Mx, Nx = sizes(ctx)
    up = ctx.fresh("up", "int")
    # option combinations: all 12 of (fft_input) x (no image | real-space image | spectrum) x (max_shift None | given), three per contract object
    combos = CCS_COMBOS
    which = ctx.fresh("configuration", "int")
    ctx.assume(OR(*[which.t == i for i in subset]))
    k = next(i for n, i in enumerate(subset) if n == len(subset) - 1 or ctx.branch(which.t == i))
    fft_input, ret, fft_output, ms_none = combos[k]
    ms = None if ms_none else ctx.fresh("max_shift", "real")
    if fft_input:
        a, b = CArr((Mx, Nx), ("sym", "F_ref")), CArr((Mx, Nx), ("sym", "F_im"))
    else:
        a, b = ctx.fresh_arr("im_ref", (Mx, Nx), "real"), ctx.fresh_arr("im", (Mx, Nx), "real")
        a.name, b.name = "im_ref", "im"
    return NS(im_ref=a, im=b, upsample_factor=up, max_shift=ms, return_shifted_image=ret, fft_input=fft_input,
              fft_output=fft_output, device="cpu", M=Mx, N=Nx)


def ccs_apply_result(ctx, s):
    """cross_correlation_shift used BY CONTRACT at a call site whose images live in the translation model (both images are
    the same content at positions p_ref, p_im): the C13 statement itself - the returned shift is the translation that maps the
    second image onto the first, p_ref - p_im.  (This statement is what the bounded run-time contract decides for the real
    estimator; it is NOT among the proved obligations of cross_correlation_shift - see ASSUMPTIONS.)"""
    a, b = s.im_ref, s.im
    if not (isinstance(a, cm.TImg) and isinstance(b, cm.TImg)):
        return None
    if a.cid != b.cid:
        raise V.OutOfSubset("estimator applied to images of different content: outside the property statement")
    sh = V.from_list([a.pos[0] - b.pos[0], a.pos[1] - b.pos[1]], kind="real", pylist=False)
    ctx.ghost.setdefault("c13_estimator_calls", []).append(dict(ref=a, im=b, shift=sh, returns_image=bool(s.return_shifted_image)))
    if s.return_shifted_image is True:
        return sh, cm.TImg(a.pos, a.cid)
    return sh


def ccs_ensures(s):
    if s.mode == "apply":
        return []
    ctx = s.ctx
    Fref = ("sym", "F_ref") if s.fft_input else ("fft2", "im_ref")
    Fim = ("sym", "F_im") if s.fft_input else ("fft2", "im")
    log = ctx.ghost.get("c13_argmax", [])
    g = log[0] if log else None
    ok = g is not None and isinstance(g["real_of"], CArr)
    out = [("coarse-peak-is-argmax-of-Re-ifft2(F_ref*conj(F_im))", pybool(ok and norm(g["real_of"].expr) == corr_term(Fref, Fim)))]
    if not ok:
        return out
    res = s.result
    shifts, image = (res if isinstance(res, tuple) and len(res) == 2 else (res, None))
    out.append(("returns-(shifts,image)-exactly-when-requested", pybool((image is not None) == bool(s.return_shifted_image))))
    out.append(("shifts-is-2-vector", pybool(isinstance(shifts, SymArr) and shifts.ndim == 1 and V._dim_lit(shifts.shape[0]) == 2)))
    if not (isinstance(shifts, SymArr) and shifts.ndim == 1 and V._dim_lit(shifts.shape[0]) == 2):
        return out
    # -- the searched array: correlation with shift vectors of length >= max_shift (centred cell) excluded
    i, j = ctx.fresh("i", "int").t, ctx.fresh("j", "int").t
    inr = AND(i >= 0, i < lift(s.M), j >= 0, j < lift(s.N))
    raw = g["arr"].func(i, j)
    if s.max_shift is None:
        out.append(("searched-array-is-the-correlation", implies(inr, R(g["fn"](i, j)) == raw)))
    else:
        ci, cj, ms = z3.ToReal(cfreq(i, s.M)), z3.ToReal(cfreq(j, s.N)), R(s.max_shift)
        out.append(("searched-array-is-the-correlation-with-centred-shifts-of-length>=max_shift-zeroed",
                    implies(inr, R(g["fn"](i, j)) == z3.If(ci * ci + cj * cj >= ms * ms, z3.RealVal(0), raw))))
    calls = ctx.ghost.get("c13_dft_calls", [])
    up = R(s.upsample_factor)
    for ax, (pk, n) in enumerate(((g["x0"], s.M), (g["y0"], s.N))):
        v0, v1, v2 = coarse_samples(g, s.M, s.N, ax)
        cv = curvature(v0, v1, v2)
        target = R(pk) + vertex(v0, v1, v2)
        r = shifts.fn(z3.IntVal(ax))
        out.append((f"axis{ax}:in-centred-cell[-n/2,n/2)", generalise(in_cell(r, n), _has_uf_real_app)))
        if not calls:
            out.append((f"axis{ax}:congruent-to-coarse-peak+parabolic-vertex(circular-neighbours)-mod-n", G(implies(cv != 0, congruent(r, target, n, f"c{ax}")))))
        else:
            c = calls[0]
            g1 = log[1] if len(log) > 1 else None
            centre = R(c["shift"][ax])
            out.append((f"axis{ax}:upsampling-window-centred-on-coarse-peak+vertex(mod-n)", G(implies(cv != 0, congruent(centre, target, n, f"w{ax}")))))
            if g1 is not None and g1["arr"] is c["result"]:
                P = lambda a, b, _g=g1: R(_g["fn"](a, b))
                nrow, ncol = g1["shape"]
                lp = (g1["x0"], g1["y0"])[ax]
                # callee contract: sample a of the window sits at centre + (a - centre_index)/up
                pos = centre + (R(lp) - z3.ToReal(c["centre_index"])) / up
                tv = local_vertex(P, g1["x0"], g1["y0"], nrow, ncol, ax)
                out.append((f"axis{ax}:congruent-to-position-of-local-peak+vertex/up(mod-n)", G(congruent(r, pos + tv / up, n, f"u{ax}"), only=g["arr"].func.name())))
    if not calls:
        out.append(("no-upsampling-only-for-upsample<=1", lift(s.upsample_factor) <= 1))
    else:
        c = calls[0]
        g1 = log[1] if len(log) > 1 else None
        out += [
            ("upsampling-only-for-upsample>1", lift(s.upsample_factor) > 1),
            ("local-search-on-the-upsampled-window", pybool(g1 is not None and g1["arr"] is c["result"])),
            ("window-centre-index=ceil(1.5*up)-is-an-index-of-the-searched-window",
             pybool(False) if g1 is None else AND(c["centre_index"] >= 0, c["centre_index"] < lift(g1["shape"][0]), c["centre_index"] < lift(g1["shape"][1]))),
            ("same-upsample-factor", lift(c["up"]) == lift(s.upsample_factor)),
            # dft_upsample uses the forward kernel exp(-2 pi i k x/n); Re ifft of cc at +x is Re of the forward kernel on conj(cc)
            ("upsamples-the-conjugate-correlation(forward-kernel-convention)",
             pybool(norm(c["operand"].expr) == norm(("conj", ("mul", Fref, ("conj", Fim)))))),
        ]
    if calls and len(log) > 1 and log[1]["arr"] is calls[0]["result"]:
        out += patch_clauses(s, log[1])
    # -- aligned image: second image translated by the returned shift (shift theorem: spectrum * exp(-2 pi i k.s/n))
    if image is not None:
        term = image.expr if isinstance(image, CArr) else getattr(getattr(image, "real_of", None), "expr", None)
        owner = image if isinstance(image, CArr) else getattr(image, "real_of", None)
        prod = None
        if term is not None:
            t = norm(term)
            if not s.fft_output and t[0] == "ifft2":
                prod = t[1]
            elif s.fft_output:
                prod = t
        ramp = None
        if prod is not None and prod[0] == "mul" and len(prod) == 3:
            fs = [f for f in prod[1:] if f != norm(Fim)]
            if len(fs) == 1 and fs[0][0] == "ramp":
                ramp = owner.parts[fs[0][1]]
        out.append(("aligned-image-is-" + ("" if s.fft_output else "Re-ifft2-of-") + "F_im*unit-modulus-ramp" + ("(spectrum-returned)" if s.fft_output else ""),
                    pybool(ramp is not None and isinstance(image, CArr) == bool(s.fft_output))))
        if ramp is not None:
            ph = R(ramp.ramp_phase(i, j))
            r0, r1 = R(shifts.fn(z3.IntVal(0))), R(shifts.fn(z3.IntVal(1)))
            want = -2 * PI * (z3.ToReal(cfreq(i, s.M)) * r0 / R(s.M) + z3.ToReal(cfreq(j, s.N)) * r1 / R(s.N))
            gen = z3.substitute(implies(inr, ph == want), (r0, Rl("gen!shift_row")), (r1, Rl("gen!shift_col")))
            out.append(("ramp-phase=-2pi*(k_row*shift_row/M+k_col*shift_col/N):translates-the-second-image-BY-the-returned-shift", gen))
        out.append(("aligned-image-is-a-new-array", pybool(image is not s.im and image is not s.im_ref and getattr(image, "base", None) is not getattr(s.im, "base", s.im))))
    out.append(("frame:inputs-not-written", pybool(s.im_ref.writes == 0 and s.im.writes == 0)))
    return out


# the same contract, verified in two halves of the configuration list (two worker processes)
C_CCS = Contract(f"{IU}:cross_correlation_shift", setup=lambda ctx: ccs_setup(ctx, (0, 1, 2)), ensures=ccs_ensures, result=ccs_apply_result)
C_CCS2 = Contract(f"{IU}:cross_correlation_shift", setup=lambda ctx: ccs_setup(ctx, (3, 4, 5)), ensures=ccs_ensures, result=ccs_apply_result)
C_CCS3 = Contract(f"{IU}:cross_correlation_shift", setup=lambda ctx: ccs_setup(ctx, (6, 7, 8)), ensures=ccs_ensures, result=ccs_apply_result)
C_CCS4 = Contract(f"{IU}:cross_correlation_shift", setup=lambda ctx: ccs_setup(ctx, (9, 10, 11)), ensures=ccs_ensures, result=ccs_apply_result)

# ------------------------------------------------------------------------------------------------
# call site with a HISTORY: tomography.utils.cross_correlation_align_stack (chain bookkeeping under a loop invariant)
# ------------------------------------------------------------------------------------------------
TU = "quantem.tomography.utils"


def _T(ctx_or_s):
    """applied translations: T(k) = the translation that maps stack image k onto the reference (two Int -> Real functions)."""
    return z3.Function("applied_row", z3.IntSort(), z3.RealSort()), z3.Function("applied_col", z3.IntSort(), z3.RealSort())


def stk_setup(ctx):
    n = ctx.fresh("n_images", "int")
    ctx.assume(n.t >= 0)
    Tr, Tc = _T(ctx)
    ref = cm.TImg((0, 0))
    # image k is the reference content translated by -T(k): translating it by T(k) reproduces the reference
    stack = SymArr((n,), lambda k: cm.TImg((Sym(-Tr(lift(k))), Sym(-Tc(lift(k))))), "obj", name="stack")
    return NS(ref_img=ref, stack=stack, n=n)


def _alen(x):
    return lift(x.n) if isinstance(x, cm.AList) else z3.IntVal(len(x))


def _aget(x, j):
    if isinstance(x, cm.AList):
        return x.get(j)
    if len(x) == 0:
        return None
    r = x[-1]
    for i in range(len(x) - 2, -1, -1):
        r = cm.ite_value(lift(j) == i, x[i], r)
    return r


def _registered(img):
    """the image coincides with the stack reference (position 0 of the reference content)."""
    return pybool(False) if not isinstance(img, cm.TImg) else AND(R(img.pos[0]) == 0, R(img.pos[1]) == 0)


def _stk_elementwise(s, shifts, images, upto, tag):
    """[(label, term)]: for an arbitrary j < upto: shift j = applied translation j, aligned image j = reference."""
    Tr, Tc = _T(s)
    j = z3.Int("j!" + tag)
    sh, im = _aget(shifts, j), _aget(images, j)
    rng = AND(j >= 0, j < lift(upto))
    if sh is None or im is None:   # empty python lists before the loop: nothing to state
        return [("returned-shift-j=applied-translation-j(relative-to-the-reference)", z3.BoolVal(True)),
                ("aligned-image-j-matches-the-reference", z3.BoolVal(True))]
    ok_vec = isinstance(sh, SymArr) and sh.ndim == 1 and V._dim_lit(sh.shape[0]) == 2
    eq = AND(R(sh.fn(z3.IntVal(0))) == Tr(j), R(sh.fn(z3.IntVal(1))) == Tc(j)) if ok_vec else pybool(False)
    return [("returned-shift-j=applied-translation-j(relative-to-the-reference)", z3.ForAll([j], implies(rng, eq))),
            ("aligned-image-j-matches-the-reference", z3.ForAll([j], implies(rng, _registered(im))))]


def stk_inv(s):
    return [("comparison-image-handed-to-the-estimator-is-registered-onto-the-stack-reference", _registered(s.prev_img)),
            ("one-shift-per-processed-image", _alen(s.pred_shifts) == lift(s.k)),
            ("one-aligned-image-per-processed-image", _alen(s.new_images) == lift(s.k))] + _stk_elementwise(s, s.pred_shifts, s.new_images, s.k, "inv")


def _fresh_alist(ctx, name, make):
    n = ctx.fresh("len_" + name, "int")
    return cm.AList(n, make)


def stk_havoc_shifts(s):
    fr, fc = z3.Function(s.ctx.fresh_name("shift_row"), z3.IntSort(), z3.RealSort()), z3.Function(s.ctx.fresh_name("shift_col"), z3.IntSort(), z3.RealSort())
    s.env.assign("pred_shifts", _fresh_alist(s.ctx, "pred_shifts", lambda j: V.from_list([Sym(fr(lift(j))), Sym(fc(lift(j)))], kind="real", pylist=False)))


def stk_havoc_images(s):
    fr, fc = z3.Function(s.ctx.fresh_name("aligned_row"), z3.IntSort(), z3.RealSort()), z3.Function(s.ctx.fresh_name("aligned_col"), z3.IntSort(), z3.RealSort())
    s.env.assign("new_images", _fresh_alist(s.ctx, "new_images", lambda j: cm.TImg((Sym(fr(lift(j))), Sym(fc(lift(j)))))))


def stk_ensures(s):
    res = s.result
    ok = isinstance(res, tuple) and len(res) == 2
    out = [("returns-(aligned-images,shifts)", pybool(ok))]
    if not ok:
        return out
    images, shifts = res
    n = lift(s.n)
    out += [("one-shift-per-stack-image", _alen(shifts) == n), ("one-aligned-image-per-stack-image", _alen(images) == n)]
    out += _stk_elementwise(s, shifts, images, s.n, "post")
    out.append(("frame:the-caller's-stack-is-not-written", pybool(s.stack.writes == 0)))
    return out


C_STACK = Contract(
    f"{TU}:cross_correlation_align_stack", setup=stk_setup, ensures=stk_ensures,
    loops={0: LoopSpec(inv=stk_inv, havoc={"pred_shifts": stk_havoc_shifts, "new_images": stk_havoc_images},
                       kinds={"prev_img": lambda ctx, old: cm.TImg((ctx.fresh("prev_row", "real"), ctx.fresh("prev_col", "real")))})},
    note="estimator used by contract (the C13 statement); scipy.ndimage.shift translates by +shift (trusted)",
)

# ------------------------------------------------------------------------------------------------
# direct_ptycho_utils._fourier_shift_stack: the shifter behind align_vbf_stack_multiscale (applies the estimator's shifts)
# ------------------------------------------------------------------------------------------------
DP = "quantem.diffractive_imaging.direct_ptycho_utils"


def fss_setup(ctx):
    n, Hx, Wx = ctx.fresh("n_images", "int"), ctx.fresh("H", "int"), ctx.fresh("W", "int")
    ctx.assume(AND(n.t >= 1, Hx.t >= 1, Wx.t >= 1))
    images = ctx.fresh_arr("images", (n, Hx, Wx), "real")
    images.name = "images"
    images.as_type = __import__("torch").Tensor
    shifts = ctx.fresh_arr("shifts", (n, 2), "real")
    shifts.as_type = __import__("torch").Tensor
    return NS(images=images, shifts=shifts, n=n, H=Hx, W=Wx)


def fss_ensures(s):
    res = s.result
    ok = isinstance(res, SymArr) and res.ndim == 3
    out = [("returns-a-real-stack", pybool(ok))]
    if not ok:
        return out
    n, Hx, Wx = lift(s.n), lift(s.H), lift(s.W)
    # the aligned stack replaces the input stack: same number of images, same height, same width - odd AND even sizes
    out += [("result-has-the-number-of-images-of-the-input", lift(res.shape[0]) == n),
            ("result-has-the-height-of-the-input(odd-and-even)", lift(res.shape[1]) == Hx),
            ("result-has-the-width-of-the-input(odd-and-even)", lift(res.shape[2]) == Wx)]
    ro = getattr(res, "real_of", None)
    ramp = None
    if isinstance(ro, CArr):
        t = norm(ro.expr)
        if t[0] == "ifft2" and t[1][0] == "mul" and len(t[1]) == 3:
            fs = [f for f in t[1][1:] if f != ("fft2", "images")]
            if len(fs) == 1 and fs[0][0] == "ramp":
                ramp = ro.parts[fs[0][1]]
    # shift theorem (A5): image translated by s  <=>  spectrum * exp(-2 pi i (k_row s_row / H + k_col s_col / W)), centred frequencies
    out.append(("result-is-Re-ifft2(fft2(images)*unit-modulus-ramp)", pybool(ramp is not None)))
    if ramp is not None:
        q, i, j = (s.ctx.fresh(v, "int").t for v in ("q", "i", "j"))
        inr = AND(q >= 0, q < n, i >= 0, i < Hx, j >= 0, j < Wx)
        ok_shape = len(ramp.shape) == 3
        out.append(("ramp-covers-every-image-and-every-frequency", pybool(ok_shape) if not ok_shape else
                    AND(lift(ramp.shape[0]) == n, lift(ramp.shape[1]) == Hx, lift(ramp.shape[2]) == Wx)))
        if ok_shape:
            s0, s1 = R(s.shifts.fn(q, z3.IntVal(0))), R(s.shifts.fn(q, z3.IntVal(1)))
            want = -2 * PI * (z3.ToReal(cfreq(i, s.H)) * s0 / R(s.H) + z3.ToReal(cfreq(j, s.W)) * s1 / R(s.W))
            out.append(("ramp-phase=-2pi*(k_row*shift_row/H+k_col*shift_col/W):image-q-is-translated-BY-shifts[q]",
                        implies(inr, R(ramp.ramp_phase(q, i, j)) == want)))
    out.append(("frame:inputs-not-written", pybool(s.images.writes == 0 and s.shifts.writes == 0)))
    return out


C_FSS = Contract(f"{DP}:_fourier_shift_stack", setup=fss_setup, ensures=fss_ensures)

# ------------------------------------------------------------------------------------------------
# direct_ptycho_utils._compute_reference_shifts / _compute_pairwise_shifts: callers of the torch estimator, verified from source
# with the registration entry points used BY CONTRACT (symbolic number of images, symbolic H and W, H != W allowed)
# ------------------------------------------------------------------------------------------------


def _torch_stack(ctx, n, Hx, Wx):
    st = ctx.fresh_arr("vbf_stack", (n, Hx, Wx), "real")
    st.name = "vbf_stack"
    st.as_type = __import__("torch").Tensor
    st.c13_stack = True
    return st


def ref_setup(ctx):
    n, Hx, Wx, up = ctx.fresh("n_images", "int"), ctx.fresh("H", "int"), ctx.fresh("W", "int"), ctx.fresh("up", "int")
    ctx.assume(AND(n.t >= 0, Hx.t >= 1, Wx.t >= 1))
    ref = ctx.fresh_arr("reference", (Hx, Wx), "real")
    ref.name, ref.as_type, ref.c13_id = "reference", __import__("torch").Tensor, z3.IntVal(-1)
    j = ctx.fresh("j", "int")     # ONE arbitrary image of the stack (generic instance: every clause below holds for all j)
    ns = NS(vbf_stack=_torch_stack(ctx, n, Hx, Wx), reference=ref, upsample_factor=up, n=n, H=Hx, W=Wx, j=j)
    ctx.ghost["c13_caller_ns"] = ns
    return ns


def _shift_table(d, n):
    """the (n, 2) table of shifts among the values of a namespace (name-independent)."""
    for v in d.values():
        if isinstance(v, SymArr) and v.ndim == 2 and V._dim_lit(v.shape[1]) == 2 and V.dims_equal(v.shape[0], n) and not getattr(v, "c13_stack", False):
            return v
    return None


def _signed_rows(s, table, ida, idb, j, upto, tag=""):
    """[(label, term)]: row j (< upto) of `table` is the estimator's shift for (image ida, image idb) in the signed convention:
    ROW component reported in the centred cell of the image HEIGHT, COLUMN component in that of the image WIDTH."""
    rng = AND(lift(j) >= 0, lift(j) < lift(upto))
    out = []
    for ax, (n, word) in enumerate(((s.H, "row-component:centred-wrap-by-the-image-HEIGHT"), (s.W, "col-component:centred-wrap-by-the-image-WIDTH"))):
        if table is None:
            out += [(f"{tag}shift-of-image-j={word}-of-the-estimate-for-(reference,image-j)", pybool(False))]
            continue
        r = R(table.fn(lift(j), z3.IntVal(ax)))
        x = RAW(ax)(lift(ida), lift(idb), lift(s.upsample_factor))
        out += [(f"{tag}shift-of-image-j={word}-of-the-estimate-for-(reference,image-j)", implies(rng, r == wrapspec(x, n))),
                (f"{tag}shift-of-image-j:{word.split(':')[0]}-in-centred-cell[-n/2,n/2)", implies(rng, in_cell(r, n)))]
    return out


def ref_inv(s):
    g = s.ctx.ghost["c13_caller_ns"]
    return _signed_rows(g, _shift_table(s.__dict__, g.n), -1, g.j, g.j, s.k)


def ref_ensures(s):
    res = s.result
    ok = isinstance(res, SymArr) and res.ndim == 2 and V._dim_lit(res.shape[1]) == 2
    out = [("returns-one-(row,col)-shift-per-stack-image", pybool(False) if not ok else lift(res.shape[0]) == lift(s.n))]
    if ok:
        out += _signed_rows(s, res, -1, s.j, s.j, s.n)
    out.append(("frame:inputs-not-written", pybool(s.vbf_stack.writes == 0 and s.reference.writes == 0)))
    return out


C_REF = Contract(f"{DP}:_compute_reference_shifts", setup=ref_setup, requires=lambda s: [("upsample_factor>=1", lift(s.upsample_factor) >= 1)],
                 ensures=ref_ensures, loops={0: LoopSpec(inv=ref_inv)},
                 note="cross_correlation_shift_torch / align_images_fourier_torch used by contract; estimator value for (image a, image b, up) = ghost term RAW")


def pair_setup(ctx):
    n, m, Hx, Wx, up = (ctx.fresh(v, "int") for v in ("n_images", "n_pairs", "H", "W", "up"))
    ctx.assume(AND(n.t >= 1, m.t >= 0, Hx.t >= 1, Wx.t >= 1))
    pairs = ctx.fresh_arr("pairs", (m, 2), "int")
    pairs.as_type = __import__("torch").Tensor
    q, c = z3.Int("q!pairs"), z3.Int("c!pairs")
    ctx.assume(z3.ForAll([q, c], implies(AND(q >= 0, q < m.t, c >= 0, c < 2), AND(lift(pairs.fn(q, c)) >= 0, lift(pairs.fn(q, c)) < n.t))))
    j = ctx.fresh("j", "int")
    for cc in (0, 1):   # ground instances at the generic pair
        ctx.assume(implies(AND(j.t >= 0, j.t < m.t), AND(lift(pairs.fn(j.t, z3.IntVal(cc))) >= 0, lift(pairs.fn(j.t, z3.IntVal(cc))) < n.t)))
    ns = NS(vbf_stack=_torch_stack(ctx, n, Hx, Wx), pairs=pairs, upsample_factor=up, n=n, m=m, H=Hx, W=Wx, j=j)
    ctx.ghost["c13_caller_ns"] = ns
    return ns


def _pair_rows(s, lst, j, upto):
    """entry j (< upto) of the list is (i_j, k_j, signed shift of the estimate for (image i_j, image k_j))."""
    rng = AND(lift(j) >= 0, lift(j) < lift(upto))
    e = _aget(lst, j) if lst is not None else None
    if e is None:
        return [("entry-j=(i,k,signed-shift-for-(image-i,image-k))", z3.BoolVal(True))]
    ok = isinstance(e, tuple) and len(e) == 3 and isinstance(e[2], SymArr) and e[2].ndim == 1 and V._dim_lit(e[2].shape[0]) == 2
    if not ok:
        return [("entry-j=(i,k,signed-shift-for-(image-i,image-k))", pybool(False))]
    pi, pk = lift(s.pairs.fn(lift(j), z3.IntVal(0))), lift(s.pairs.fn(lift(j), z3.IntVal(1)))
    out = [("entry-j-carries-the-pair's-own-indices(i,k)", implies(rng, AND(lift(e[0]) == pi, lift(e[1]) == pk)))]
    for ax, (n, word) in enumerate(((s.H, "row-component:centred-wrap-by-the-image-HEIGHT"), (s.W, "col-component:centred-wrap-by-the-image-WIDTH"))):
        r = R(e[2].fn(z3.IntVal(ax)))
        out += [(f"shift-of-pair-j={word}-of-the-estimate-for-(image-i,image-k)", implies(rng, r == wrapspec(RAW(ax)(pi, pk, lift(s.upsample_factor)), n))),
                (f"shift-of-pair-j:{word.split(':')[0]}-in-centred-cell[-n/2,n/2)", implies(rng, in_cell(r, n)))]
    return out


def _pair_list(d):
    for v in d.values():
        if isinstance(v, cm.AList) or (isinstance(v, list) and not v):
            return v
    return None


def pair_inv(s):
    lst = _pair_list(s.__dict__)
    g = s.ctx.ghost["c13_caller_ns"]
    return [("one-entry-per-processed-pair", pybool(False) if lst is None else _alen(lst) == lift(s.k))] + _pair_rows(g, lst, g.j, s.k)


def pair_havoc(s):
    """the result list at an arbitrary iteration: some list of (i, k, 2-vector) entries."""
    name = next((k for k, v in s.__dict__.items() if isinstance(v, list) and k not in ("ctx",)), None)
    if name is None:
        return
    fs = [z3.Function(s.ctx.fresh_name(t), z3.IntSort(), srt) for t, srt in (("ent_i", z3.IntSort()), ("ent_k", z3.IntSort()), ("ent_row", z3.RealSort()), ("ent_col", z3.RealSort()))]
    s.env.assign(name, _fresh_alist(s.ctx, name, lambda q: (Sym(fs[0](lift(q))), Sym(fs[1](lift(q))), V.from_list([Sym(fs[2](lift(q))), Sym(fs[3](lift(q)))], kind="real", pylist=False))))


def pair_ensures(s):
    res = s.result
    ok = isinstance(res, (cm.AList, list))
    out = [("returns-a-list-with-one-entry-per-pair", pybool(False) if not ok else _alen(res) == lift(s.m))]
    if ok:
        out += _pair_rows(s, res, s.j, s.m)
    out.append(("frame:inputs-not-written", pybool(s.vbf_stack.writes == 0 and s.pairs.writes == 0)))
    return out


C_PAIR = Contract(f"{DP}:_compute_pairwise_shifts", setup=pair_setup, requires=lambda s: [("upsample_factor>=1", lift(s.upsample_factor) >= 1)],
                  ensures=pair_ensures, loops={0: LoopSpec(inv=pair_inv, havoc={"<result-list>": pair_havoc})},
                  note="cross_correlation_shift_torch used by contract; pair indices are valid stack indices (call site: built from arange(N))")

# ------------------------------------------------------------------------------------------------
# sibling entry point imaging.drift.DriftCorrection.align_translation: WHAT it hands to the estimator (call-site preconditions)
# The object model, library models and collaborator contracts are C15's (contracts/C15.py, imported lazily: C15 imports this
# module); only the call-site contract of cross_correlation_shift is replaced by one whose `requires` compares the arguments with
# the caller's own (recorded in ctx.ghost by the setup).
# ------------------------------------------------------------------------------------------------
DR = "quantem.imaging.drift"


def at13_setup(ctx):
    from . import C15

    s = C15.at_setup(ctx)
    if s.K != 1:
        ctx.assume(z3.BoolVal(False))   # the knot count is C15's concern; the call-site clauses do not look at it (one count suffices)
    # the optional argument explicitly passed as well (it only thresholds the measured shift afterwards; it is NOT a search radius)
    if ctx.branch(ctx.fresh("min_image_shift_given", "bool").t):
        s.min_image_shift = ctx.fresh("min_image_shift", "real")
        ctx.assume(s.min_image_shift.t >= 0)
    ctx.ghost["c13_caller"] = dict(max_image_shift=s.max_image_shift, upsample_factor=s.upsample_factor, min_image_shift=s.min_image_shift)
    return s


def _same(a, b):
    if a is None or b is None:
        return pybool(a is b)
    try:
        return lift(a) == lift(b)
    except Exception:
        return pybool(a is b)


def site_requires(s):
    """cross_correlation_shift as called from align_translation: the search is limited by the CALLER's max_image_shift, refined with
    the caller's upsample_factor, on spectra in / spectrum out (the caller passes np.fft.fft2 results and averages the returned
    aligned image into its reference spectrum)."""
    c = s.ctx.ghost.get("c13_caller")
    if c is None:
        return []
    return [("max_shift-is-the-caller's-max_image_shift", _same(s.max_shift, c["max_image_shift"])),
            ("upsample_factor-is-the-caller's-upsample_factor", _same(s.upsample_factor, c["upsample_factor"])),
            ("spectra-handed-in=>fft_input", pybool(s.fft_input is True)),
            ("aligned-spectrum-averaged-into-the-reference-spectrum=>return_shifted_image-and-fft_output", pybool(s.return_shifted_image is True and s.fft_output is True))]


def site_result(ctx, s):
    from . import C15

    ctx.ghost.setdefault("c13_site_calls", []).append(dict(max_shift=s.max_shift, upsample_factor=s.upsample_factor))
    return C15.ccs_result(ctx, s)


C_SITE = Contract(f"{IU}:cross_correlation_shift", setup=lambda ctx: NS(im_ref=None, im=None), requires=site_requires, result=site_result,
                  note="call-site contract inside align_translation: arguments are the caller's own; result opaque (C15's)")


def at13_ensures(s):
    calls = s.ctx.ghost.get("c13_site_calls", [])
    return [("returns-self", pybool(s.result is s.self)),
            ("one-registration-per-image-after-the-first(image-0-is-the-reference)", pybool(len(calls) == s.N - 1))]


C_AT13 = Contract(f"{DR}:DriftCorrection.align_translation", setup=at13_setup, requires=lambda s: __import__("contracts.C15", fromlist=["x"]).at_requires(s),
                  ensures=at13_ensures, inline=[f"{DR}:DriftCorrection.images"])


def _at13_verify(reg, *a, **kw):
    from . import C15

    r = C15.make_registry()
    r.contracts[C_SITE.func] = C_SITE
    cm.install_norm(r)
    return Contract.verify(C_AT13, r, *a, **kw)


C_AT13.verify = _at13_verify

CONTRACTS = [C_CCS, C_CCS2, C_CCS3, C_CCS4, C_ALIGN, C_DFTT, C_UPS, C_CCT, C_DFTN, C_STACK, C_FSS, C_AT13, C_REF, C_PAIR]

# ------------------------------------------------------------------------------------------------
# property-level lemmas (from the statements above alone)
# ------------------------------------------------------------------------------------------------


def lemma_parabola(ctx):
    """the closed form used in the contracts IS the vertex of the interpolating parabola; it stays within half a pixel of a
    maximal centre sample, is exact (0) for a symmetric peak, and is antisymmetric under reflection."""
    v0, v1, v2, a, b, c, t = (Rl(n) for n in ("v0", "v1", "v2", "a", "b", "c", "t"))
    interp = [a - b + c == v0, c == v1, a + b + c == v2]
    t = vertex(v0, v1, v2)
    return [
        ("closed-form-is-the-stationary-point-of-the-interpolating-parabola", interp + [curvature(v0, v1, v2) != 0], 2 * a * t + b == 0),
        ("maximal-centre-sample=>concave(maximum,not-minimum)", interp + [v1 >= v0, v1 >= v2, curvature(v0, v1, v2) != 0], a < 0),
        ("maximal-centre-sample=>offset-within-half-a-pixel", [v1 >= v0, v1 >= v2, curvature(v0, v1, v2) != 0], AND(t >= -HALF, t <= HALF)),
        ("symmetric-peak(integer-shift)=>offset-exactly-zero", [v0 == v2, curvature(v0, v1, v2) != 0], t == 0),
        ("reflection(swapped-images)-negates-the-offset", [curvature(v0, v1, v2) != 0], vertex(v2, v1, v0) == -t),
        # the flat case of the NumPy parabolic_peak (division by a zero curvature, no test in the code): it cannot occur at a
        # UNIQUE peak (the property's quantifier), and at a maximal centre sample it occurs exactly on a three-sample plateau
        ("strict(unique)-peak=>curvature-positive:the-unguarded-division-is-by-a-non-zero-number", [v1 > v0, v1 > v2], curvature(v0, v1, v2) > 0),
        ("maximal-centre-sample-with-zero-curvature<=>three-equal-samples(plateau)", [v1 >= v0, v1 >= v2], (curvature(v0, v1, v2) == 0) == AND(v0 == v1, v1 == v2)),
    ]


def lemma_wrap(ctx):
    """centred wrap w(x) = ((x + n/2) mod n) - n/2 (as computed by both implementations, real `mod` = x - n*floor(x/n))."""
    x, y = Rl("x"), Rl("y")
    n = I("n")
    nr = z3.ToReal(n)
    w = lambda u: (u + nr / 2) - nr * z3.ToReal(z3.ToInt((u + nr / 2) / nr)) - nr / 2
    m = I("m")
    return [
        ("range", [n >= 1], AND(w(x) >= -nr / 2, w(x) < nr / 2)),
        ("congruent", [n >= 1], congruent(w(x), x, nr)),
        ("identity-inside-the-cell", [n >= 1, x >= -nr / 2, x < nr / 2], w(x) == x),
        ("shifts-beyond-half-the-size-are-reported-modulo-n", [n >= 1, y == x + z3.ToReal(m) * nr], w(y) == w(x)),
        ("swapping-negates(except-exactly-half-the-size)", [n >= 1, w(x) != -nr / 2], w(-x) == -w(x)),
        ("zero-stays-zero", [n >= 1], w(z3.RealVal(0)) == 0),
    ]


def lemma_sign(ctx):
    """A5 (shift theorem, trusted): g translated by s, g_s(x) = g(x - s), has spectrum G(k) * exp(-2 pi i k s / n).
    With ref = im translated by s (translating the second image by s reproduces the first):
      * phase of F_ref * conj(F_im) at k is -2 pi k s / n = the phase of the spectrum of a delta at +s: the correlation peak is at s;
      * conj(F_ref) * F_im would give +2 pi k s / n (peak at -s): the order of the operands fixes the sign;
      * multiplying F_im by exp(-2 pi i k r / n) with r = s gives exactly F_ref: the aligned image is the reference."""
    phi, k, s_, n, r = Rl("phi_im"), Rl("k"), Rl("s"), Rl("n"), Rl("r")
    ph_ref = phi - 2 * PI * k * s_ / n
    delta_at = lambda p: -2 * PI * k * p / n
    return [
        ("phase(F_ref*conj(F_im))=phase-of-delta-at-+s", [n >= 1], ph_ref - phi == delta_at(s_)),
        ("phase(conj(F_ref)*F_im)=phase-of-delta-at--s", [n >= 1], -ph_ref + phi == delta_at(-s_)),
        ("ramp-with-returned-shift-maps-F_im-onto-F_ref", [n >= 1, r == s_], phi + delta_at(r) == ph_ref),
        ("swapping-the-images-negates-the-correlation-phase", [n >= 1], (phi - ph_ref) == -(ph_ref - phi)),
    ]


def lemma_freq(ctx):
    """index vectors of the matrix-multiply DFT: ifftshift(arange(n)) - n div 2 is the centred frequency for odd AND even n;
    fftshift gives the same vector exactly for even n and a different one for every odd n >= 3."""
    n, i = I("n"), I("i")
    h = n / 2
    ifs = z3.If(i + h >= n, i + h - n, i + h) - h
    fs = z3.If(i - h < 0, i - h + n, i - h) - h
    rng = [n >= 1, i >= 0, i < n]
    return [
        ("ifftshift(arange(n))-n//2=centred-frequency", rng, ifs == cfreq(i, n)),
        ("fftshift-agrees-for-even-n", rng + [n % 2 == 0], fs == cfreq(i, n)),
        ("fftshift-differs-for-odd-n>=3(at-index-0)", [n >= 3, n % 2 == 1, i == 0], fs != cfreq(i, n)),
        ("centred-frequency-in[-n/2,n/2)", rng, AND(2 * cfreq(i, n) >= -n, 2 * cfreq(i, n) < n)),
        ("centred-frequency-congruent-to-index", rng, OR(cfreq(i, n) == i, cfreq(i, n) == i - n)),
    ]


def lemma_window(ctx):
    """the upsampled windows contain the point they are centred on and extend at least 0.75 pixel on either side (numpy: 1.5)."""
    up = I("up")
    u = z3.ToReal(up)
    n = window_len(up)
    gs = n / 2
    return [
        ("torch-window:centre-sample-in-range-and-reach>=0.5px-either-side", [up >= 3], AND(gs >= 0, gs < n, z3.ToReal(n - 1 - gs) / u >= HALF, z3.ToReal(gs) / u >= HALF)),
        ("numpy-window:2*ceil(1.5up)+1-samples-centred-at-index-ceil(1.5up)", [up >= 1], AND((2 * n + 1) / 2 == n, z3.ToReal(n) / u >= z3.RealVal("3/2"))),
    ]


LEMMAS = [Lemma("parabola", lemma_parabola), Lemma("centred-wrap", lemma_wrap), Lemma("sign-convention", lemma_sign),
          Lemma("frequency-index-vectors", lemma_freq), Lemma("upsampling-window", lemma_window)]

# ------------------------------------------------------------------------------------------------
# run-time oracles: the property statement evaluated on the REAL functions (replay + bounded stand-in, the DECIDING part)
# ------------------------------------------------------------------------------------------------

EXACT_TOL = 5e-4      # "exactly" up to float rounding of the estimator's own arithmetic (results are float32 in the torch path)
PARABOLIC_TOL = 0.5   # no upsampling: nearest-pixel coarse peak refined by a three-point parabola (lemma: offset within half a pixel)


def _image(H, W, seed, kind="bandlimited"):
    """real image with a unique auto-correlation peak; band-limited (Nyquist rows/columns removed) so that Fourier
    translation by a sub-pixel shift is exact ground truth."""
    import numpy as np

    rng = np.random.default_rng(seed)
    kx, ky = np.fft.fftfreq(H) * H, np.fft.fftfreq(W) * W
    K = np.sqrt(kx[:, None] ** 2 + ky[None, :] ** 2)
    F = (rng.normal(size=(H, W)) + 1j * rng.normal(size=(H, W))) * np.exp(-((K / (min(H, W) / 5.0)) ** 2))
    if H % 2 == 0:
        F[H // 2, :] = 0
    if W % 2 == 0:
        F[:, W // 2] = 0
    im = np.real(np.fft.ifft2(F))
    im = im / np.abs(im).max()
    if kind == "offset":
        im = im + 0.7
    return im


def _translate(im, s):
    """im translated by s (periodic): exact roll for integer s, Fourier shift theorem otherwise."""
    import numpy as np

    if all(float(x).is_integer() for x in s):
        return np.roll(im, (int(s[0]), int(s[1])), (0, 1))
    H, W = im.shape
    kx, ky = np.fft.fftfreq(H)[:, None], np.fft.fftfreq(W)[None, :]
    return np.real(np.fft.ifft2(np.fft.fft2(im) * np.exp(-2j * np.pi * (kx * s[0] + ky * s[1]))))


def _wrapd(d, n):
    return (d + n / 2.0) % n - n / 2.0


def _tol(impl, up, kind, dtype=None):
    if kind in ("identical", "integer"):
        # float32 images: the parabolic step on the 1/64-pixel grid divides differences of nearly equal float32 numbers
        return EXACT_TOL * (4 if dtype == "float32" else 1)
    if impl == "numpy":
        return PARABOLIC_TOL if up <= 1 else 1.0 / up
    return 0.5 if up <= 2 else 1.0 / up   # torch: half-pixel estimate for upsample <= 2


_THREADS = [False]


def _single_thread():
    """tiny FFTs / matrix products: thread pools only add contention on a shared machine."""
    if _THREADS[0]:
        return
    _THREADS[0] = True
    import ctypes
    import torch

    torch.set_num_threads(1)
    try:  # OpenBLAS / MKL used by numpy, if exposed
        import numpy as np

        for name in ("scipy_openblas_set_num_threads64_", "scipy_openblas_set_num_threads", "openblas_set_num_threads64_", "openblas_set_num_threads", "MKL_Set_Num_Threads"):
            for path in _loaded_libs():
                try:
                    f = getattr(ctypes.CDLL(path), name)
                    f(1)
                except (OSError, AttributeError):
                    continue
    except Exception:
        pass


def _loaded_libs():
    out = []
    try:
        for line in open("/proc/self/maps"):
            p = line.rsplit(" ", 1)[-1].strip()
            if p.endswith(".so") or ".so." in p:
                if any(k in p.lower() for k in ("openblas", "mkl_rt", "libblas")) and p not in out:
                    out.append(p)
    except OSError:
        pass
    return out


def _estimate(inp, ref, img):
    """call the real estimator as configured; returns (shift, aligned-or-None, inputs unchanged?, two calls agree?)."""
    import numpy as np
    import torch
    from quantem.core.utils import imaging_utils as iu

    _single_thread()

    impl, up = inp["impl"], inp["up"]
    H, W = ref.shape
    if impl == "numpy":
        fin = bool(inp.get("fft_input"))
        a, b = (np.fft.fft2(ref), np.fft.fft2(img)) if fin else (ref.copy(), img.copy())
        snap = (a.copy(), b.copy())
        kw = dict(upsample_factor=up, fft_input=fin, return_shifted_image=bool(inp.get("ret_img")), fft_output=bool(inp.get("fft_output")))
        ms = inp.get("max_shift", "none")
        if ms != "none":
            kw["max_shift"] = ms
        out = iu.cross_correlation_shift(a, b, **kw)
        out2 = iu.cross_correlation_shift(a, b, **kw)
        sh, al = (out if kw["return_shifted_image"] else (out, None))
        sh2 = out2[0] if kw["return_shifted_image"] else out2
        if al is not None and kw["fft_output"]:
            al = np.real(np.fft.ifft2(al))
        same = np.array_equal(a, snap[0]) and np.array_equal(b, snap[1])
        return np.asarray(sh, float), al, same, np.allclose(sh, sh2, atol=0, rtol=0)
    dt = torch.float32 if inp.get("dtype") == "float32" else torch.float64
    a, b = torch.tensor(ref, dtype=dt), torch.tensor(img, dtype=dt)
    if impl == "torch_fourier":
        a, b = torch.fft.fft2(a), torch.fft.fft2(b)
        f = lambda: iu.align_images_fourier_torch(a, b, up)
    else:
        f = lambda: iu.cross_correlation_shift_torch(a, b, upsample_factor=up)
    snap = (a.clone(), b.clone())
    sh, sh2 = f(), f()
    same = torch.equal(a, snap[0]) and torch.equal(b, snap[1])
    sh = np.asarray(sh.detach().cpu().numpy(), float)
    return sh, None, same, bool(np.array_equal(sh, np.asarray(sh2.detach().cpu().numpy(), float)))


def rt_clauses(inp):
    """list of (clause, message) violated by the real estimator on this input."""
    import numpy as np

    H, W, up, impl, kind = inp["H"], inp["W"], inp["up"], inp["impl"], inp["kind"]
    s = tuple(inp["shift"])
    ref = _image(H, W, inp.get("seed", 0), inp.get("content", "bandlimited"))
    img = ref.copy() if kind == "identical" else _translate(ref, (-s[0], -s[1]))   # translating img by s reproduces ref
    bad = []
    try:
        sh, al, same, det = _estimate(inp, ref, img)
    except Exception as e:   # the estimators have no documented exceptions for 2-D inputs of equal shape
        return [("no-exception", f"raised {type(e).__name__}: {e}")]
    if not same:
        bad.append(("inputs-not-mutated", "the caller's arrays differ after the call(s)"))
    if not det:
        bad.append(("deterministic", "two calls on the same arrays return different shifts"))
    if not np.all(np.isfinite(sh)):
        bad.append(("finite", f"returned {sh}"))
        return bad
    tol = _tol(impl, up, kind, inp.get("dtype"))
    err = [abs(_wrapd(sh[i] - s[i], (H, W)[i])) for i in range(2)]
    if max(err) > tol:
        name = {"identical": "identical-images-give-zero-shift", "integer": "integer-shift-exact", "subpixel": "subpixel-shift-within-one-upsampled-pixel"}[kind]
        bad.append((name, f"returned {np.round(sh, 4).tolist()} for applied shift {list(s)} (error {max(err):.4g} > {tol:.4g})"))
    if impl != "torch_fourier" and any(not (-n / 2.0 - 1e-9 <= v < n / 2.0 + 1e-9) for v, n in zip(sh, (H, W))):
        bad.append(("in-centred-cell", f"returned {sh.tolist()} outside [-n/2, n/2) for shape {(H, W)}"))
    # swapping negates (modulo the cell)
    try:
        sw, _, same2, _ = _estimate(inp, img, ref)
    except Exception as e:
        return bad + [("no-exception", f"swapped call raised {type(e).__name__}: {e}")]
    anti = [abs(_wrapd(sh[i] + sw[i], (H, W)[i])) for i in range(2)]
    if max(anti) > (tol if kind != "subpixel" else 2 * tol):
        bad.append(("swapping-negates", f"shift(a,b)={np.round(sh, 4).tolist()} but shift(b,a)={np.round(sw, 4).tolist()}"))
    if al is not None:
        want = _translate(img, tuple(sh)) if not all(float(x).is_integer() for x in sh) else np.roll(img, (int(sh[0]), int(sh[1])), (0, 1))
        scale = np.abs(ref).max()
        if np.abs(al - want).max() > 1e-8 * scale:
            bad.append(("aligned-image=second-image-translated-by-the-returned-shift", f"max deviation {np.abs(al - want).max():.3g}"))
        if kind in ("identical", "integer") and np.abs(al - ref).max() > 1e-6 * scale:
            bad.append(("aligned-image-matches-reference", f"max |aligned - reference| = {np.abs(al - ref).max():.3g} for an integer shift"))
    if impl == "numpy" and (inp.get("fft_input") or inp.get("max_shift", "none") != "none"):
        base = dict(inp, fft_input=False, max_shift="none", ret_img=False, fft_output=False)
        sh0 = _estimate(base, ref, img)[0]
        if np.abs(sh0 - sh).max() > 1e-7:
            bad.append(("fourier-input/max_shift-does-not-change-the-estimate", f"{np.round(sh, 5).tolist()} vs plain call {np.round(sh0, 5).tolist()}"))
    return bad


def rt_shift(inp):
    bad = rt_clauses(inp)
    return dict(violated=bool(bad), observed="; ".join(f"{c}: {m}" for c, m in bad[:3]) or "ok", clauses=[c for c, _ in bad],
                expected="returned shift = applied translation (exact / within 1/upsample / parabolic accuracy), zero for identical images, "
                         "negated when swapped, aligned image = second image translated by the shift, inputs untouched")


def _open_known_classes():
    from pyvc.runner import load_known

    return {k.get("class") for k in load_known("C13") if k.get("bounded") == BOUNDED[0].name}


def rt_shift_replay(inp):
    """oracle used to replay counter-models of the function contracts: the same clauses, except those whose failure class is an
    OPEN known finding (otherwise every unrelated failed obligation would be `confirmed` by the known defect)."""
    import json

    key = json.dumps(inp, sort_keys=True, default=str)
    if key in _REPLAY_CACHE:
        return _REPLAY_CACHE[key]
    if "skip" not in _REPLAY_CACHE:
        _REPLAY_CACHE["skip"] = _open_known_classes()
    skip = _REPLAY_CACHE["skip"]
    bad = [(c, m) for c, m in rt_clauses(inp) if klass_shift(inp, c) not in skip]
    _REPLAY_CACHE[key] = r = dict(violated=bool(bad), observed="; ".join(f"{c}: {m}" for c, m in bad[:3]) or "ok", clauses=[c for c, _ in bad],
                expected="shift-recovery contract (clauses with an open known finding excluded)")
    return r


_REPLAY_CACHE = {}   # the real functions are deterministic (checked by the oracle itself): replays of the same input are shared


SHAPES_Q = [(8, 8), (9, 9), (8, 13), (12, 9), (16, 16), (17, 16), (15, 20), (24, 24), (25, 18), (33, 17), (32, 33)]
UPS = (1, 2, 3, 4, 8, 16, 64)   # the property's list plus one odd factor (1.5*up not an integer)


def _shifts(H, W, rng):
    ints = [(1, -2), (-(H // 2), W // 2), (H - 1, -(W - 1)), (int(rng.integers(-H, H)), int(rng.integers(-W, W)))]
    subs = [(0.5, -0.25), (round(float(rng.uniform(-H, H)), 3), round(float(rng.uniform(-W, W)), 3)), (H / 2 + 0.37, -W / 2 - 0.21), (-1.3, 2.45)]
    return ints, subs


def fam_shift(tier="quick", seed=0, impls=("numpy", "torch", "torch_fourier"), ups=None):
    import numpy as np

    ups = ups or (UPS if tier == "quick" else UPS + (5, 32))

    shapes = SHAPES_Q if tier == "quick" else SHAPES_Q + [(10, 10), (11, 14), (21, 21), (28, 19), (31, 32), (20, 33)]
    nseed = 1 if tier == "quick" else 3
    for (H, W) in shapes:
        for sd in range(nseed):
            rng = np.random.default_rng(1000 * H + W + 7 * sd + seed)
            ints, subs = _shifts(H, W, rng)
            cases = [("identical", (0, 0))] + [("integer", s) for s in ints] + [("subpixel", s) for s in subs]
            for up in ups:
                for kind, s in cases:
                    base = dict(H=H, W=W, up=up, kind=kind, shift=list(s), seed=seed + sd + H, content="bandlimited" if (H + sd) % 2 else "offset")
                    if "numpy" in impls:
                        yield dict(base, impl="numpy")
                        if kind != "subpixel" or up in (1, 8):
                            far = float(np.hypot(_wrapd(s[0], H), _wrapd(s[1], W)))
                            yield dict(base, impl="numpy", fft_input=True, ret_img=True, fft_output=True)
                            yield dict(base, impl="numpy", ret_img=True, max_shift=round(far + 1.6, 3))
                            yield dict(base, impl="numpy", fft_input=True, ret_img=True, max_shift=float(H + W))
                    if "torch" in impls:
                        yield dict(base, impl="torch", dtype="float64")
                        if up in (1, 4, 64):
                            yield dict(base, impl="torch", dtype="float32")
                    if "torch_fourier" in impls and up in (2, 3, 8):
                        yield dict(base, impl="torch_fourier", dtype="float64")


def klass_shift(inp, clause):
    return f"{inp['impl']}:{'upsample>1' if inp['up'] > 1 else 'upsample<=1'}:{clause}"


def bounded_shift(name, family, bound):
    def run(tier, seed):
        import json

        n, fails, distinct = 0, [], set()
        for inp in family(tier, seed):
            n += 1
            distinct.add(json.dumps(inp, sort_keys=True, default=str))
            for clause, msg in rt_clauses(inp):
                fails.append(dict(case=inp, klass=klass_shift(inp, clause), observed=msg, expected=clause))
        return dict(evaluations=n, distinct=len(distinct), failures=fails)

    b = Bounded(name, run, bound)
    b.rt = rt_shift
    return b


def rt_dft(inp):
    """dft_upsample / dftUpsample_torch against the direct trigonometric sum  Re sum_kl F[k,l] exp(-2 pi i (cf(k) X_a/M + cf(l) Y_b/N))."""
    import numpy as np
    import torch
    from quantem.core.utils import imaging_utils as iu

    M, N, up = inp["M"], inp["N"], inp["up"]
    sx, sy = inp["shift"]
    rng = np.random.default_rng(inp.get("seed", 0))
    F = rng.normal(size=(M, N)) + 1j * rng.normal(size=(M, N))
    F0 = F.copy()
    kx, ky = np.fft.fftfreq(M) * M, np.fft.fftfreq(N) * N
    if inp["impl"] == "numpy":
        got = np.asarray(iu.dft_upsample(F, up, (sx, sy)))
        du = int(math.ceil(1.5 * up))
        X = sx + (np.arange(2 * du + 1) - du) / up
        Y = sy + (np.arange(2 * du + 1) - du) / up
    else:
        Ft = torch.tensor(F)
        got = iu.dftUpsample_torch(Ft, up, torch.tensor([sx, sy], dtype=torch.float64)).numpy()
        F = Ft.numpy()
        n = int(math.ceil(1.5 * up))
        X, Y = (np.arange(n) - sx) / up, (np.arange(n) - sy) / up
    want = np.real(np.exp(-2j * np.pi * np.outer(X, kx) / M) @ F0 @ np.exp(-2j * np.pi * np.outer(ky, Y) / N))
    problems = []
    if got.shape != want.shape:
        problems.append(f"shape {got.shape} != {want.shape}")
    elif np.abs(got - want).max() > 1e-4 * max(1.0, np.abs(want).max()):
        a, b = np.unravel_index(np.argmax(np.abs(got - want)), got.shape)
        problems.append(f"sample [{a},{b}] = {got[a, b]:.5g}, trigonometric sum at ({X[a]:.4g},{Y[b]:.4g}) = {want[a, b]:.5g}")
    if not np.array_equal(F, F0):
        problems.append("input spectrum was modified")
    return dict(violated=bool(problems), observed="; ".join(problems) or "ok",
                expected="window sample (a,b) = Re of the forward DFT kernel evaluated at the sample position (centred frequencies)")


def fam_dft(tier="quick", seed=0, impls=("numpy", "torch")):
    for impl in impls:
        for (M, N) in [(4, 4), (5, 5), (6, 9), (9, 6), (8, 13), (16, 11)]:
            for up in ((2, 3, 4, 8) if impl == "numpy" else (3, 4, 8, 16)):
                for sh in ((0.0, 0.0), (1.5, -2.0), (3.25, 0.5)):
                    yield dict(impl=impl, M=M, N=N, up=up, shift=list(sh), seed=seed + M)


def klass_dft(inp, res):
    return f"{inp['impl']}:window-samples"


# ---- concretisation of solver counter-models


def conc_dft(impl):
    def conc(ev):
        M, N, up = ev("M"), ev("N"), ev("up")
        if None in (M, N, up) or not (1 <= M <= 64 and 1 <= N <= 64 and 1 <= up <= 64):
            M, N, up = min(max(M or 5, 2), 12), min(max(N or 5, 2), 12), min(max(up or 3, 3 if impl == "torch" else 2), 16)
        sx = ev("shift_row", None) if impl == "numpy" else 1.0
        sy = ev("shift_col", None) if impl == "numpy" else 2.0
        clip = lambda v: float(max(-8.0, min(8.0, v if v is not None else 1.25)))
        return dict(impl=impl, M=M, N=N, up=up, shift=[clip(sx), clip(sy)], seed=1)
    return conc


def conc_shift(impl):
    def conc(ev):
        M, N, up = ev("M"), ev("N"), ev("up")
        H = M if M is not None and 6 <= M <= 40 else 9
        W = N if N is not None and 6 <= N <= 40 else 12
        up = up if up is not None and 1 <= up <= 64 else 4
        inp = dict(impl=impl, H=H, W=W, up=up, kind="subpixel", shift=[1.3, -2.45], seed=3)
        if impl == "numpy":
            fi, rt_, fo, mn = CCS_COMBOS[min(max(ev("configuration", 0) or 0, 0), len(CCS_COMBOS) - 1)]
            inp.update(fft_input=fi, ret_img=rt_, fft_output=fo)
            if not mn:
                inp["max_shift"] = float(H + W)
        else:
            inp["dtype"] = "float64"
        return inp
    return conc


def _fam_contract(impls, ups):
    return lambda: fam_shift("quick", 0, impls=impls, ups=ups)


for _c, _impl in ((C_DFTT, "torch"), (C_DFTN, "numpy")):
    _c.concretize, _c.rt = conc_dft(_impl), rt_dft
    _c.rt_family = (lambda i: (lambda: fam_dft("quick", 0, impls=(i,))))(_impl)
for _c, _impl, _ups in ((C_UPS, "torch", (4, 8)), (C_ALIGN, "torch_fourier", (2, 8)), (C_CCT, "torch", (1, 2, 4)), (C_CCS, "numpy", (1, 4)), (C_CCS2, "numpy", (1, 4)), (C_CCS3, "numpy", (1, 4)), (C_CCS4, "numpy", (1, 4))):
    _c.concretize, _c.rt, _c.rt_family = conc_shift(_impl), rt_shift_replay, _fam_contract((_impl,), _ups)

def rt_callers(inp):
    """call sites: tomography.utils.cross_correlation_align_stack (numpy, scipy shift by the returned value) and
    direct_ptycho_utils._compute_reference_shifts / _compute_pairwise_shifts (torch): the returned shifts are the applied
    translations with the same sign convention, the aligned stack matches the reference, inputs untouched."""
    import os

    os.environ.setdefault("TQDM_DISABLE", "1")
    import numpy as np
    import torch

    _single_thread()
    H, W, up = inp["H"], inp["W"], inp["up"]
    rng = np.random.default_rng(inp["seed"])
    yy, xx = np.meshgrid(np.arange(H), np.arange(W), indexing="ij")
    ref = np.zeros((H, W))
    for _ in range(3):  # compact blobs well inside the frame: periodic roll == non-periodic shift
        cy, cx, sg = rng.uniform(0.4 * H, 0.6 * H), rng.uniform(0.4 * W, 0.6 * W), rng.uniform(0.9, 1.4)
        ref += rng.uniform(0.5, 1.0) * np.exp(-((yy - cy) ** 2 + (xx - cx) ** 2) / (2 * sg * sg))
    shifts = [(int(a), int(b)) for a, b in zip(rng.integers(-2, 3, size=3), rng.integers(-2, 3, size=3))]
    problems = []
    if inp["caller"] == "tomography":
        from quantem.tomography.utils import cross_correlation_align_stack

        stack = np.stack([np.roll(ref, (-a, -b), (0, 1)) for a, b in shifts])   # translating image k by shifts[k] gives ref
        s0, r0 = stack.copy(), ref.copy()
        import contextlib
        import io

        with contextlib.redirect_stderr(io.StringIO()):   # tqdm progress bar
            new, pred = cross_correlation_align_stack(ref, stack)
        for k, (sh, im) in enumerate(zip(pred, new)):
            if np.abs(np.asarray(sh, float) - np.array(shifts[k], float)).max() > EXACT_TOL:
                problems.append(f"image {k}: predicted {np.round(sh, 4).tolist()} for applied {shifts[k]}")
            if np.abs(im - ref).max() > 2e-2:   # blob tails cut at the frame by the non-periodic scipy shift
                problems.append(f"image {k}: aligned image differs from the reference by {np.abs(im - ref).max():.3g}")
        if not (np.array_equal(stack, s0) and np.array_equal(ref, r0)):
            problems.append("inputs were modified")
    else:
        from quantem.diffractive_imaging import direct_ptycho_utils as dp

        stack = torch.tensor(np.stack([np.roll(ref, (-a, -b), (0, 1)) for a, b in shifts]))
        reft = torch.tensor(ref)
        s0, r0 = stack.clone(), reft.clone()
        got = dp._compute_reference_shifts(stack, reft, upsample_factor=up).numpy()
        for k in range(len(shifts)):
            if np.abs(got[k] - np.array(shifts[k], float)).max() > EXACT_TOL:
                problems.append(f"reference shift {k}: {np.round(got[k], 4).tolist()} for applied {shifts[k]}")
        pairs = torch.tensor([[0, 1], [1, 0], [0, 2], [2, 1]])
        rel = {(i, j): s.numpy() for i, j, s in dp._compute_pairwise_shifts(stack, pairs, upsample_factor=up)}
        for (i, j), sh in rel.items():
            want = np.array(shifts[j], float) - np.array(shifts[i], float)   # translating image j by it reproduces image i
            if np.abs(sh - want).max() > EXACT_TOL:
                problems.append(f"pair ({i},{j}): {np.round(sh, 4).tolist()} but images differ by {want.tolist()}")
        if np.abs(rel[(0, 1)] + rel[(1, 0)]).max() > EXACT_TOL:
            problems.append("pair (0,1) and (1,0) are not negatives of each other")
        if not (torch.equal(stack, s0) and torch.equal(reft, r0)):
            problems.append("inputs were modified")
    return dict(violated=bool(problems), observed="; ".join(problems[:3]) or "ok",
                expected="callers obtain the applied integer translations exactly, with the estimator's sign convention; inputs untouched")


def fam_callers(tier="quick", seed=0):
    for caller in ("tomography", "direct_ptycho"):
        for (H, W) in [(16, 16), (17, 20), (24, 19)]:
            for up in ((1,) if caller == "tomography" else (1, 2, 4, 8)):
                for sd in range(2 if tier == "quick" else 5):
                    yield dict(caller=caller, H=H, W=W, up=up, seed=seed + sd + H)


def rt_drift(inp):
    """public sibling entry point DriftCorrection.align_translation on the real code: for a reference and circularly rolled copies the
    displacement of each image's knots relative to image 0 is the translation mapping the copy back onto the reference (minus the
    applied roll), within half a pixel, for every max_image_shift / min_image_shift setting that admits the true shift."""
    import contextlib
    import io

    import numpy as np
    from scipy.ndimage import gaussian_filter

    _single_thread()
    from quantem.imaging.drift import DriftCorrection

    H, W, up = inp["H"], inp["W"], inp["up"]
    rng = np.random.default_rng(inp.get("seed", 0))
    image = gaussian_filter(rng.normal(size=(H, W)), 2.0, mode="wrap") * 10 + 5
    rolls = [(0, 0)] + [tuple(r) for r in inp["rolls"]]
    kw = dict(upsample_factor=up, show_merged=False)
    if inp.get("max_image_shift") is not None:
        kw["max_image_shift"] = inp["max_image_shift"]
    if inp.get("min_image_shift") is not None:
        kw["min_image_shift"] = inp["min_image_shift"]
    try:
        with contextlib.redirect_stdout(io.StringIO()), contextlib.redirect_stderr(io.StringIO()):
            ims = [np.roll(image, r, axis=(0, 1)) for r in rolls]
            d = DriftCorrection.from_data(ims, scan_direction_degrees=[0.0] * len(ims)).preprocess(pad_fraction=0.0, pad_value="median", kde_sigma=0.5)
            k0 = [k.copy() for k in d.knots]
            d.align_translation(**kw)
    except Exception as e:
        return dict(violated=True, observed=f"raised {type(e).__name__}: {e}", expected="no exception")
    moved = np.array([(d.knots[i] - k0[i]).mean(axis=(1, 2)) for i in range(len(ims))])
    got = moved - moved[0]
    want = -np.array(rolls, float)
    # the registered images are the KDE-resampled (sigma 0.5), non-periodically warped copies and, from the third image on, the
    # reference is a running average: not exact circular translates, so half a pixel instead of 1/upsample
    tol = 0.5
    err = np.abs(got - want).max()
    problems = []
    if not np.isfinite(err) or err > tol:
        problems.append(f"knot displacements {np.round(got[1:], 3).tolist()} for applied rolls {rolls[1:]} (expected {want[1:].tolist()}, error {err:.3g} > {tol:.3g})")
    return dict(violated=bool(problems), observed="; ".join(problems) or "ok",
                expected="displacement of image i relative to image 0 = minus the applied roll, within half a pixel")


def fam_drift(tier="quick", seed=0):
    cases = [((32, 40), [(3, -2)]), ((33, 35), [(-4, 5)]), ((40, 32), [(3, -2), (-5, 6)])]
    if tier != "quick":
        cases += [((48, 48), [(9, -7)]), ((35, 44), [(2, 6), (-6, -3)])]
    for (H, W), rolls in cases:
        far = max(float((a * a + b * b) ** 0.5) for a, b in rolls)
        for up in (1, 4, 8):
            for mx in (None, round(far + 2.5, 2)):
                for mn in (None, 0.5, 1.0):
                    if tier == "quick" and up == 4 and mx is not None and mn == 0.5:
                        continue
                    yield dict(H=H, W=W, up=up, rolls=[list(r) for r in rolls], max_image_shift=mx, min_image_shift=mn, seed=seed + H)


def conc_drift(ev):
    up = ev("upsample_factor", 4)
    mn = ev("min_image_shift", None) if ev("min_image_shift_given", False) else None
    return dict(H=32, W=40, up=up if up is not None and 1 <= up <= 16 else 4, rolls=[[3, -2]], max_image_shift=None,
                min_image_shift=(min(max(float(mn), 0.25), 1.0) if mn is not None else 0.5), seed=2)


C_AT13.concretize, C_AT13.rt, C_AT13.rt_family = conc_drift, rt_drift, (lambda: fam_drift("quick", 0))


def rt_fshift(inp):
    """_fourier_shift_stack on the real code: a stack of the INPUT shape / dtype, image q = input image q translated by shifts[q]
    (exact roll for integer shifts, Fourier translation of band-limited images otherwise), inputs untouched."""
    import numpy as np
    import torch

    _single_thread()
    from quantem.diffractive_imaging.direct_ptycho_utils import _fourier_shift_stack

    n, H, W = inp["n"], inp["H"], inp["W"]
    rng = np.random.default_rng(inp.get("seed", 0))
    imgs = np.stack([_image(H, W, inp.get("seed", 0) + q) for q in range(n)])
    if inp["kind"] == "integer":
        sh = np.stack([rng.integers(-H, H, size=n), rng.integers(-W, W, size=n)], axis=1).astype(float)
    elif inp["kind"] == "zero":
        sh = np.zeros((n, 2))
    else:
        sh = np.stack([rng.uniform(-H, H, size=n), rng.uniform(-W, W, size=n)], axis=1).round(3)
    dt = torch.float32 if inp.get("dtype") == "float32" else torch.float64
    a, b = torch.tensor(imgs, dtype=dt), torch.tensor(sh, dtype=dt)
    a0, b0 = a.clone(), b.clone()
    problems = []
    try:
        out = _fourier_shift_stack(a, b)
    except Exception as e:
        return dict(violated=True, observed=f"raised {type(e).__name__}: {e}", expected="no exception")
    if tuple(out.shape) != (n, H, W):
        problems.append(f"shape {tuple(out.shape)} for input {(n, H, W)}")
    else:
        want = np.stack([_translate(imgs[q], tuple(sh[q])) for q in range(n)])
        dev = np.abs(out.numpy().astype(float) - want).max()
        # the real function builds its frequency grids / ramp in torch's default dtype (complex64) whatever the input dtype
        if dev > (2e-5 if dt == torch.float32 else 2e-6):
            problems.append(f"max deviation {dev:.3g} from the input translated by the given shifts")
    if out.dtype != dt:
        problems.append(f"dtype {out.dtype} for input {dt}")
    if not (torch.equal(a, a0) and torch.equal(b, b0)):
        problems.append("inputs were modified")
    return dict(violated=bool(problems), observed="; ".join(problems) or "ok",
                expected="stack of the input shape and dtype, image q translated by shifts[q], inputs untouched")


def fam_fshift(tier="quick", seed=0):
    shapes = [(8, 8), (9, 9), (8, 13), (12, 9), (17, 16), (32, 33), (33, 17)] + ([(15, 20), (25, 18), (31, 31)] if tier != "quick" else [])
    for (H, W) in shapes:
        for n in (1, 3):
            for kind in ("zero", "integer", "subpixel"):
                for dtype in ("float64", "float32"):
                    yield dict(n=n, H=H, W=W, kind=kind, dtype=dtype, seed=seed + H + W)


def conc_fshift(ev):
    clip = lambda v, d: v if v is not None and 2 <= v <= 40 else d
    return dict(n=min(max(ev("n_images", 2) or 2, 1), 4), H=clip(ev("H"), 9), W=clip(ev("W"), 11), kind="integer", dtype="float64", seed=1)


C_FSS.concretize, C_FSS.rt, C_FSS.rt_family = conc_fshift, rt_fshift, (lambda: fam_fshift("quick", 0))

C_STACK.concretize = lambda ev: dict(caller="tomography", H=17, W=20, up=1, seed=int(ev("n_images", 3) or 3) % 7)
C_STACK.rt = rt_callers
C_STACK.rt_family = lambda: (i for i in fam_callers("quick", 0) if i["caller"] == "tomography")



def conc_dp(ev):
    H, W, up = ev("H"), ev("W"), ev("up")
    H = H if H is not None and 14 <= H <= 40 else 17
    W = W if W is not None and 14 <= W <= 40 else 24
    if H == W:
        W = H + 5   # the callers' clauses distinguish the two image sizes: replay on a non-square image
    return dict(caller="direct_ptycho", H=H, W=W, up=up if up is not None and 1 <= up <= 16 else 4, seed=H)


for _c in (C_REF, C_PAIR):
    _c.concretize, _c.rt = conc_dp, rt_callers
    _c.rt_family = lambda: (i for i in fam_callers("quick", 0) if i["caller"] == "direct_ptycho")

BOUNDED = [
    bounded_shift("shift recovery contract on real estimators (numpy + torch)", fam_shift,
                  "shapes 8..33 odd/even/non-square (11 quick, 17 thorough), upsample {1,2,3,4,8,16,64} (+5,32 thorough), identical / 4 integer / 4 sub-pixel shifts "
                  "incl. beyond half the size, real and Fourier inputs, fft_output, max_shift, float32/float64; inputs snapshotted and compared, two calls"),
    Bounded.from_rt("matrix-multiply DFT window vs direct trigonometric sum", rt_dft, fam_dft, "6 shapes, 4 factors, 3 centres, numpy + torch", klass=klass_dft),
    Bounded.from_rt("sibling entry point DriftCorrection.align_translation registers rolled copies", rt_drift, fam_drift,
                    "3 shapes (5 thorough) odd/even/non-square, 1-2 rolled copies, upsample {1,4,8}, max_image_shift default / just above the shift, "
                    "min_image_shift None / 0.5 / 1.0 (inert: below the shifts)", klass=lambda inp, res: "min_image_shift-given" if inp.get("min_image_shift") is not None else "default"),
    Bounded.from_rt("stack shifter _fourier_shift_stack: input shape, translated by the given shifts", rt_fshift, fam_fshift,
                    "7 shapes odd/even/non-square (10 thorough), 1 and 3 images, zero / integer / sub-pixel shifts anywhere in the cell, float32/float64",
                    klass=lambda inp, res: "odd-width" if inp["W"] % 2 else "even-width"),
    Bounded.from_rt("call sites: tomography stack alignment and direct-ptychography reference / pairwise shifts", rt_callers, fam_callers,
                    "3 shapes, compact blob images, 3 integer translations in [-2,2]^2, upsample {1,2,4,8} (torch), 2 seeds (5 thorough)",
                    klass=lambda inp, res: inp["caller"]),
]

TRUSTED = [
    "A5 DFT facts (NOT proved): shift theorem; Re ifft2(F_ref*conj(F_im)) is the circular cross-correlation; forward kernel on conj(cc) = conj of inverse kernel on cc",
    "pyvc/lib/c13_models.py: complex arrays as structural terms (conj involution / distributes over products, conj(exp(ip)) = exp(-ip), `x*y` allocates, `x*=y` writes x), "
    "fftfreq / fftshift / ifftshift / arange / outer index maps, argmax returns an in-range flat index (division with remainder exact), torch.round = nearest integer (ties unspecified), floor/ceil exact",
    "pyvc/lib/c13_models.py (round 5): tensor.long() / .to(integer dtype) truncate to an integer; a[i] = vector is a functional row update; image k of a named "
    "stack and its per-image fft2 keep a ghost identity k; torch.stack of 0-d values is their vector; 2-D slices cut out of an argmax-searched array are logged (ghost)",
    "argmax maximality and uniqueness of the correlation peak are hypotheses of the property lemmas, not available to (nor needed by) the function-level obligations",
    "witness instantiation for congruences (sums of the floor terms occurring in the result) and generalisation of sample quotients to fresh reals: both only strengthen the proved goal",
    "pyvc engine (AST interpreter, slicing / broadcasting semantics), z3, cvc5",
]
ASSUMPTIONS = [
    "A1 floats are reals (rounding inside FFT / exp / argmax ties ignored in the deductive part; tolerances only in the bounded part)",
    "A5 DFT axioms trusted; the FFT implementations and the quality of peak search (that the argmax of the correlation IS the applied shift) are outside deductive reach",
    "the statement `returns the applied shift` is decided only by the bounded run-time contract (finite families), never counted as proved",
    "device='gpu' (cupy) branches are not explored",
    "cross_correlation_shift is verified for all 12 combinations of (fft_input) x (no aligned image | real-space image | spectrum) x (max_shift None | given), "
    "quick and thorough tier; upsample_factor, shapes, max_shift value are symbolic on every path (fft_output=True without return_shifted_image is inert and not enumerated)",
    "numpy parabolic_peak divides without a zero test: the vertex clauses are stated for non-zero curvature; lemma `parabola` proves that a strict (unique) peak has "
    "positive curvature and that at a maximal centre sample zero curvature means a three-sample plateau - that case is outside the property's quantifier (unique "
    "peak); there the code computes 0/0 in IEEE arithmetic (non-finite shift, no exception), which the real-number engine does not model (A1) and the bounded "
    "oracle's `finite` clause would report",
    "tomography.utils.cross_correlation_align_stack is verified in a translation model of images (image = fixed content at a position; "
    "scipy.ndimage.shift adds the shift to the position) with cross_correlation_shift used BY CONTRACT as `returns the translation mapping the "
    "second image onto the first` - the C13 statement, decided for the real estimator only by the bounded run-time contract, not proved",
    "direct_ptycho_utils._compute_reference_shifts / _compute_pairwise_shifts are verified from source (symbolic number of images / pairs, symbolic H and W) with "
    "cross_correlation_shift_torch and align_images_fourier_torch used BY CONTRACT: the estimator's value for (image a, image b, upsample factor) is a ghost "
    "function RAW of the image identities (the estimator is a function of its arguments: checked by the bounded oracle's `deterministic` clause, not proved); the "
    "clauses say WHICH pair is registered in which order and that the row / column component is reported in the centred cell of the image height / width - that "
    "RAW is the applied translation remains the bounded statement; pair indices are assumed to be valid stack indices (call site builds them from arange(N))",
    "imaging/drift.py: align_translation's call site is under contract (arguments are the caller's own, C_AT13; bookkeeping of the returned shift in C15); the two "
    "call sites inside align_affine are not under contract (bounded family only)",
]
EXPLANATION = ("VCs generated from the real source of dft_upsample, cross_correlation_shift, cross_correlation_shift_torch, align_images_fourier_torch, "
               "upsampled_correlation_torch, dftUpsample_torch (centred wrap, parabolic vertex, DFT index vectors and kernel phases, conjugation/sign convention, "
               "local-peak-to-shift conversion incl. the index bookkeeping of the 3x3 refinement patch, phase ramp of the aligned image, frames); the callers "
               "_compute_reference_shifts / _compute_pairwise_shifts / cross_correlation_align_stack / align_translation call site with the estimators used by contract; "
               "property lemmas, and the run-time shift-recovery contract as bounded stand-in")
