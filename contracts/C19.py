"""C19 - configuration store: last-writer-wins nested map with spelling-normalised keys, refresh, device validation.

Abstract view (pyvc/lib/c19_models.py): a dict is a tree state t with K(t)[key] in {1 scalar, 2 nested dict, else absent},
L(t)[key] scalar identity, C(t)[key] nested state.  norm(key) = key.replace('-', '_') (uninterpreted to_us + STRING_FACTS).
"""
from __future__ import annotations

import z3

from pyvc import values as V
from pyvc.values import Sym, S, lift, OutOfSubset
from pyvc.interp import NS, LoopSpec
from pyvc.registry import Contract, resolve
from pyvc.runner import Lemma, Bounded
from pyvc.lib import c19_models as M
from pyvc.lib.c19_models import (KF, LF, CF, EMPTY, TREE, STR, LEAF, DICT, SymDict, ItemsMap, Leaf, DevVal, norm, pure, sterm,
                                 fresh_str, init_ctx, string_facts, leaf_id, TO_US, TO_HY)
from .common import registry, forall, implies, AND, OR, NOT

LEVEL = "proof"
CFG = "quantem.core.config"
_REG = {}


def make_registry():
    reg = registry()
    M.install(reg)
    _REG["reg"] = reg
    reg.global_overrides = {CFG: {}}
    for c in CONTRACTS:
        reg.add_contract(c)
    reg.abstract_classes.add(f"{CFG}:set")
    # collect() reads user files from disk: it is a parameter of the proof (ghost `collected`, chosen by refresh's setup)
    reg.models[resolve(f"{CFG}:collect")] = lambda interp, *a, **k: interp.ctx.ghost["collected"]
    return reg


def unpruned(setup):
    """Setup forks are on fresh, independent conditions: skip the solver's feasibility checks there (an infeasible
    combination would only produce a vacuous path)."""
    def run(ctx):
        saved = ctx.prune
        ctx.prune = False
        try:
            return setup(ctx)
        finally:
            ctx.prune = saved
    return run


def override_globals(**kw):
    """Module-level state of quantem.core.config modelled as explicit symbolic state for the current path."""
    _REG["reg"].global_overrides[CFG] = dict(kw)


# ------------------------------------------------------------------------------------------------
# spec helpers (z3 level)
# ------------------------------------------------------------------------------------------------


def present(t, k):
    kk = KF(t)[sterm(k)]
    return z3.Or(kk == LEAF, kk == DICT)


def is_dict(t, k):
    return KF(t)[sterm(k)] == DICT


def is_leaf(t, k):
    return KF(t)[sterm(k)] == LEAF


def others_unchanged(t, t2, cs):
    """Every entry other than the keys `cs` is identical in t and t2 (whole view: kinds, scalar identities, nested states)."""
    k, l, c = KF(t), LF(t), CF(t)
    for x in cs:
        x = sterm(x)
        k, l, c = z3.Store(k, x, KF(t2)[x]), z3.Store(l, x, LF(t2)[x]), z3.Store(c, x, CF(t2)[x])
    return z3.And(KF(t2) == k, LF(t2) == l, CF(t2) == c)


def entry_is(t2, c, value, vtree=None):
    """entry c of t2 holds `value` (scalar identity or nested state)."""
    c = sterm(c)
    if vtree is not None:
        return z3.And(KF(t2)[c] == DICT, CF(t2)[c] == vtree)
    return z3.And(KF(t2)[c] == LEAF, LF(t2)[c] == leaf_id(value))


def value_tree(ctx, v):
    if isinstance(v, SymDict):
        return v.tree()
    if isinstance(v, ItemsMap):
        return v.as_tree(ctx)
    return None


E_ = z3.String("e!q")


def cn_post(c, k, t, quantified=True):
    """What canonical_name(k, <dict in state t>) == c guarantees (only clauses that are PROVED for the real function)."""
    c, kt = sterm(c), sterm(k)
    out = [norm(c) == norm(k), z3.Implies(present(t, kt), c == kt), z3.Or(c == kt, present(t, c))]
    if quantified:
        out.append(forall(E_, implies(AND(present(t, E_), TO_US(E_) == norm(k)), present(t, c)), patterns=[TO_US(E_)]))
    return out


# ------------------------------------------------------------------------------------------------
# canonical_name
# ------------------------------------------------------------------------------------------------


def cn_setup(ctx):
    init_ctx(ctx)
    k = fresh_str(ctx, "k")
    e = fresh_str(ctx, "e")
    if ctx.branch(ctx.fresh("config_is_mapping", "bool").t):
        cfg = SymDict.fresh(ctx, "config")
        for f in M.key_listed_facts(cfg.tree(), e) + M.key_listed_facts(cfg.tree(), k):
            ctx.assume(f)  # the witness spelling e (if stored) occurs in the dict's iteration order
    else:
        cfg = Leaf(ctx.fresh("scalar", "int"))
    return NS(k=k, config=cfg, e=e)


def cn_snapshot(s):
    if isinstance(s.config, SymDict):
        return NS(tree=s.config.tree(), writes=s.config.root.writes)
    return NS(tree=None, writes=0)


def cn_ensures(s):
    r, k = s.result, s.k
    if not isinstance(s.config, SymDict):
        return [("non-mapping:returns-the-given-key", sterm(r) == sterm(k))]
    t = s.old.tree
    out = [
        ("same-normalised-name", norm(r) == norm(k)),
        ("existing-exact-spelling-is-kept", implies(present(t, k), sterm(r) == sterm(k))),
        ("returns-given-key-or-an-existing-key", OR(sterm(r) == sterm(k), present(t, r))),
        ("frame:config-unchanged", AND(s.config.tree() == t, s.config.root.writes == s.old.writes)),
    ]
    if s.mode == "verify":
        e = s.e
        out += [("a-stored-spelling-of-the-key-is-found(any-spelling)", implies(AND(present(t, e), norm(e) == norm(k)), present(t, r)))]
    else:
        out += [("a-stored-spelling-of-the-key-is-found(any-spelling)", cn_post(r, k, t)[-1])]
    return out


def cn_result(ctx, s):
    if not isinstance(s.config, SymDict):
        r = s.k
    else:
        # canonical_name is a function of (key, state of the dict): the same arguments give the same result
        memo = ctx.ghost.setdefault("cn_memo", {})
        mk = (sterm(s.k).get_id(), s.config.tree().get_id())
        r = memo.get(mk)
        if r is None:
            r = memo[mk] = fresh_str(ctx, "canon")
    ctx.ghost.setdefault("cn_calls", []).append((s.k, s.config, r, s.config.tree() if isinstance(s.config, SymDict) else None))
    return r


def cn_loop_inv(s):
    """Scan over the stored keys: none of the keys seen so far is a spelling of k (NB `s.k` is the iteration counter; the parameter k is s.pre.k)."""
    cfg, key = s.pre.config, s.pre.k
    t = cfg.tree()
    j = z3.Int("j!inv")
    return [("no-earlier-stored-key-is-a-spelling-of-k",
             forall(j, implies(AND(j >= 0, j < lift(s.k)), TO_US(M.KEYAT(t, j)) != norm(key)), patterns=[M.KEYAT(t, j)]))]


C_CANON = Contract(f"{CFG}:canonical_name", setup=unpruned(cn_setup), ensures=cn_ensures, snapshot=cn_snapshot, result=cn_result,
                   loops={0: LoopSpec(inv=cn_loop_inv)},
                   note="the scan over the stored keys is verified by invariant (dict iteration order: trusted model NKEYS/KEYAT/KIDX)")


# ------------------------------------------------------------------------------------------------
# set._assign  (path length 1..MAX_DEPTH enumerated; each level: all dict contents, all key strings, all values)
# ------------------------------------------------------------------------------------------------

SETCLS = resolve(f"{CFG}:set")
MAX_DEPTH = 3


def fresh_value(ctx, name="value", allow_mapping=True):
    """A configuration value: opaque scalar, or (fork) an arbitrary nested mapping."""
    if allow_mapping and ctx.branch(ctx.fresh(name + "_is_mapping", "bool").t):
        return SymDict.fresh(ctx, name + "_map")
    return Leaf(ctx.fresh(name, "int"))


def as_setup(ctx, wheres=("d=store", "d=section-of-store", "d=other-dict"), records=(True, False), lengths=(1, 2, 3)):
    init_ctx(ctx)
    n = 1
    depth = ctx.fresh("path_length", "int")
    for cand in lengths:
        if ctx.branch(depth.t == cand):
            n = cand
            break
    else:
        from pyvc.interp import PathEnd
        raise PathEnd("path length outside the enumerated range")
    keys = [fresh_str(ctx, f"key{i}") for i in range(n)]
    # `d` is the target store itself (top-level call from __init__), a section of it (recursive calls), or an unrelated dict
    root = SymDict.fresh(ctx, "config")
    where = wheres[-1]
    for cand in wheres[:-1]:
        if ctx.branch(ctx.fresh("case_" + cand, "bool").t):
            where = cand
            break
    if where == "d=store":
        d, path = root, ()
    elif where == "d=section-of-store":
        sec = fresh_str(ctx, "section")
        ctx.assume(is_dict(root.tree(), sec))
        d, path = SymDict(root.root, (sec.t,)), (sec,)
    else:
        d, path = SymDict.fresh(ctx, "d"), (fresh_str(ctx, "prefix"),)
    # top-level calls (d is the store) always record; calls on a section come from the recursion with either flag; the unrelated-dict
    # case checks the state relation only
    record = True if where == "d=store" else False if where == "d=other-dict" else records[0] if len(records) == 1 else bool(ctx.branch(ctx.fresh("record", "bool").t))
    earlier = [("insert", (fresh_str(ctx, "earlier"),), None)]  # something recorded before this call (must stay)
    return NS(self=V.Obj(SETCLS, dict(config=root, _record=list(earlier))), keys=keys, value=fresh_value(ctx), d=d, path=path, record=record,
              case=f"{n}-components,{where},{'recording' if record else 'not-recording'}")


def as_snapshot(s):
    rec = list(s.self.fields.get("_record", [])) if isinstance(s.self, V.Obj) else []
    if isinstance(s.d, SymDict):
        return NS(tree=s.d.tree(), writes=s.d.root.writes, record=rec)
    return NS(tree=None, record=rec)


def old_chain(t, cs):
    """States of the dicts reached along the canonical keys cs, starting from state t (t_0 = t, t_{i+1} = C(t_i)[c_i])."""
    out = [t]
    for c in cs[:-1]:
        out.append(CF(out[-1])[sterm(c)])
    return out


def record_post(s, cs):
    """What the call must have recorded for __exit__ (from the property: restore replaced values, remove inserted keys):
    record=False: nothing.  record=True: exactly one entry - ('replace', path-to-the-entry, its previous value) when the whole path
    existed, otherwise ('insert', path-to-the-first-missing-key, None); entries recorded earlier stay."""
    now = list(s.self.fields.get("_record", []))
    before = s.old.record
    kept = len(now) >= len(before) and all(a is b for a, b in zip(now, before))
    new = now[len(before):]
    out = [("record:earlier-entries-kept", z3.BoolVal(kept))]
    if not s.record:
        return out + [("record:nothing-recorded-when-not-recording", z3.BoolVal(len(new) == 0))]
    if len(new) != 1 or not isinstance(new[0], tuple) or len(new[0]) != 3:
        return out + [("record:exactly-one-entry", z3.BoolVal(False))]
    op, rpath, rold = new[0]
    prefix = tuple(s.path)
    m = len(rpath) - len(prefix)
    n = len(cs)
    if op not in ("replace", "insert") or not (1 <= m <= n):
        return out + [("record:well-formed-entry", z3.BoolVal(False))]
    ts = old_chain(s.old.tree, cs)
    path_ok = z3.And(*[sterm(a) == sterm(b) for a, b in zip(rpath, list(prefix) + list(cs[:m]))])
    descended = z3.And(*[present(ts[i], cs[i]) for i in range(m - 1)]) if m > 1 else z3.BoolVal(True)
    out += [("record:exactly-one-entry", z3.BoolVal(True)), ("record:path-is-the-canonical-path-to-the-recorded-key", path_ok),
            ("record:every-key-above-the-recorded-one-existed", descended)]
    c, tl = sterm(cs[m - 1]), ts[m - 1]
    if op == "replace":
        out += [("record:replace-only-for-an-existing-entry-at-the-full-path", z3.And(z3.BoolVal(m == n), present(tl, c))),
                ("record:replace-holds-the-previous-value", value_matches(rold, KF(tl)[c], LF(tl)[c], CF(tl)[c]) if m == n else z3.BoolVal(False))]
    else:
        out += [("record:insert-names-the-first-missing-key", z3.Not(present(tl, c))), ("record:insert-carries-no-value", z3.BoolVal(rold is None))]
    return out


def record_apply(ctx, s, cs):
    """Call sites: append the entry described by record_post (forks on which keys exist)."""
    if not s.record or not isinstance(s.self, V.Obj):
        return
    rec = s.self.fields.setdefault("_record", [])
    prefix, n, t = tuple(s.path), len(cs), s.d.tree()
    for i in range(n):
        c = sterm(cs[i])
        if not ctx.branch(present(t, c)):
            rec.append(("insert", prefix + tuple(cs[:i + 1]), None))
            return
        if i == n - 1:
            if ctx.branch(is_dict(t, c)):
                old = SymDict(M.DictRoot(CF(t)[c], "previous-section"))
            else:
                old = Leaf(Sym(LF(t)[c]))
            rec.append(("replace", prefix + tuple(cs), old))
            return
        t = CF(t)[c]


def as_canon(s):
    """Ghost: the canonical keys used at each level (verify: results of the real calls; apply: fresh, constrained by cn_post)."""
    cs = s.get("_cs")
    if cs is not None:
        return cs
    ctx = s.ctx
    if s.mode == "verify":
        calls = ctx.ghost.get("cn_calls", [])
        cs = [calls[0][2]] if calls else []
        inner = ctx.ghost.get("assign_calls", [])
        if inner:
            cs = cs + list(inner[0])
    else:
        cs = [fresh_str(ctx, f"canon{i}") for i in range(len(s.keys))]
        ctx.ghost.setdefault("assign_calls", []).append(cs)
    s._cs = cs
    return cs


def assign_rel(t, t2, keys, cs, value, vtree, quantified=True):
    """Relation between the states of a dict before / after assigning `value` at the nested path `keys`,
    where cs[i] is the canonical name of keys[i] in the dict reached at level i."""
    c = cs[0]
    out = list(cn_post(c, keys[0], t, quantified))
    out.append(others_unchanged(t, t2, [c]))
    if len(keys) == 1:
        out.append(entry_is(t2, c, value, vtree))
    else:
        child_old = z3.If(present(t, c), CF(t)[sterm(c)], EMPTY)
        out.append(KF(t2)[sterm(c)] == DICT)
        out += assign_rel(child_old, CF(t2)[sterm(c)], keys[1:], cs[1:], value, vtree, quantified)
    return out


def scalar_on_path(t, keys, cs):
    """Some proper prefix of the path ends in a scalar entry (then nested assignment is a TypeError)."""
    if len(keys) <= 1:
        return z3.BoolVal(False)
    c = sterm(cs[0])
    child_old = z3.If(present(t, c), CF(t)[c], EMPTY)
    return z3.Or(is_leaf(t, c), z3.And(z3.Not(is_leaf(t, c)), scalar_on_path(child_old, keys[1:], cs[1:])))


def as_ensures(s):
    if not isinstance(s.d, SymDict):
        return []
    cs = as_canon(s)
    if len(cs) != len(s.keys):
        return [("ghost:canonical-key-recorded-per-level", z3.BoolVal(False))]
    t, t2 = s.old.tree, s.d.tree()
    vt = value_tree(s.ctx, s.value)
    rel = assign_rel(t, t2, s.keys, cs, s.value, vt)
    labels = []
    n = len(s.keys)
    per = len(rel) // n if n else 0
    names = []
    for lvl in range(n):
        names += [f"level{lvl}:canonical:same-normalised-name", f"level{lvl}:canonical:exact-spelling-kept", f"level{lvl}:canonical:given-or-existing",
                  f"level{lvl}:canonical:stored-spelling-found", f"level{lvl}:siblings-untouched(whole-view)",
                  f"level{lvl}:" + ("value-stored" if lvl == n - 1 else "section-is-a-dict")]
    assert len(names) == len(rel), (len(names), len(rel))
    out = list(zip(names, rel))
    if s.mode == "verify":
        out += record_post(s, cs)
    return out


def as_modifies(ctx, s):
    if isinstance(s.d, SymDict):
        s.d.check_live(ctx)
        t2 = z3.Const(ctx.fresh_name("tree"), TREE)
        before = s.d.tree()
        record_apply(ctx, s, as_canon(s))
        s.d._install(ctx, t2)
        ctx.ghost.setdefault("assign_trees", []).append((before, t2, list(s.keys), s.value))


def as_raises_typeerror(s):
    if not isinstance(s.d, SymDict):
        return z3.BoolVal(True)
    cs = as_canon(s)
    if len(cs) < 1:
        return z3.BoolVal(False)
    # in verify mode a raising path may have recorded fewer canonical keys than levels: pad with the given keys
    cs = list(cs) + list(s.keys[len(cs):])
    return scalar_on_path(s.old.tree, s.keys, cs)


def as_on_raise(s, E):
    if isinstance(s.d, SymDict):
        return [("top-level-siblings-untouched", others_unchanged(s.old.tree, s.d.tree(), [as_canon(s)[0]] if as_canon(s) else []))]
    return []


def as_contract(wheres, records=(True, False), lengths=(1, 2, 3)):
    tag = lambda s: f"[{','.join(s.case.split(',')[1:])}]" if s.mode == "verify" else ""
    return Contract(
        f"{CFG}:set._assign", setup=unpruned(lambda ctx: as_setup(ctx, wheres, records, lengths)), ensures=lambda s: [(tag(s) + a, b) for a, b in as_ensures(s)],
        snapshot=as_snapshot, modifies=as_modifies,
        raises={TypeError: as_raises_typeerror}, on_raise=lambda s, E: [(tag(s) + a, b) for a, b in as_on_raise(s, E)], recursive_by_contract=True,
        note="path length enumerated 1..3; the recursive call is used through this contract (induction step at lengths 2 and 3); " + ",".join(wheres),
    )


C_ASSIGN = as_contract(("d=store",), lengths=(1, 2))
C_ASSIGN5 = as_contract(("d=store",), lengths=(3,))
C_ASSIGN2 = as_contract(("d=section-of-store",), (True,), lengths=(1, 2))
C_ASSIGN6 = as_contract(("d=section-of-store",), (True,), lengths=(3,))
C_ASSIGN4 = as_contract(("d=section-of-store",), (False,))
C_ASSIGN3 = as_contract(("d=other-dict",))


# ------------------------------------------------------------------------------------------------
# get  (dotted key with 1..3 components enumerated; every stored configuration, key string, default)
# ------------------------------------------------------------------------------------------------

NO_DEFAULT = resolve(f"{CFG}:no_default")


def key_parts(ctx, key):
    """The components of key.split('.') on the current path (ghost view of the trusted split model)."""
    if isinstance(key, str):
        return key.split(".")
    for n in range(1, M.MAX_PARTS + 1):
        if ctx.entails(M.NPARTS(key.t) == n):
            return [Sym(M.PART(key.t, z3.IntVal(i))) for i in range(n)]
    return None


def get_setup(ctx):
    init_ctx(ctx)
    key = fresh_str(ctx, "key")
    cfg = SymDict.fresh(ctx, "config")
    default = NO_DEFAULT if ctx.branch(ctx.fresh("default_not_given", "bool").t) else Leaf(ctx.fresh("default", "int"))
    override = None if ctx.branch(ctx.fresh("override_is_none", "bool").t) else Leaf(ctx.fresh("override", "int"))
    return NS(key=key, default=default, config=cfg, override_with=override)


def get_snapshot(s):
    return NS(tree=s.config.tree(), writes=s.config.root.writes, ncalls=len(s.ctx.ghost.get("cn_calls", [])))


def value_matches(v, kind_t, leaf_t, tree_t):
    """python-level value v (Leaf / SymDict handle) is the entry described by (kind, scalar id, nested state)."""
    if isinstance(v, Leaf):
        return z3.And(kind_t == LEAF, v.id.t == leaf_t)
    if isinstance(v, SymDict):
        return z3.And(kind_t == DICT, v.tree() == tree_t)
    return z3.BoolVal(False)


def chain(t, cs):
    """Follow canonical keys cs from state t: (all-intermediate-are-dicts, scalar-in-the-middle, kind, scalar id, nested state of the last entry)."""
    ok, scalar_mid = z3.BoolVal(True), z3.BoolVal(False)
    for c in cs[:-1]:
        c = sterm(c)
        scalar_mid = z3.Or(scalar_mid, z3.And(ok, is_leaf(t, c)))
        ok = z3.And(ok, is_dict(t, c))
        t = CF(t)[c]
    c = sterm(cs[-1])
    return ok, scalar_mid, KF(t)[c], LF(t)[c], CF(t)[c]


def get_ghost(s):
    ctx = s.ctx
    parts = key_parts(ctx, s.key)
    calls = ctx.ghost.get("cn_calls", [])[s.old.ncalls:]
    cs = [c[2] for c in calls]
    if parts is not None:
        cs = cs + parts[len(cs):]  # on raising paths fewer canonical names were computed
    return parts, cs


def get_found(s):
    parts, cs = get_ghost(s)
    ok, mid, kd, lf, tr = chain(s.old.tree, cs)
    return z3.And(ok, z3.Or(kd == LEAF, kd == DICT)), mid, kd, lf, tr, parts, cs


def get_ensures(s):
    frame = ("frame:config-unchanged", AND(s.config.tree() == s.old.tree, s.config.root.writes == s.old.writes))
    if s.override_with is not None:
        return [("override-is-passed-straight-back", z3.BoolVal(s.result is s.override_with)), frame]
    found, mid, kd, lf, tr, parts, cs = get_found(s)
    if parts is None or len(cs) != len(parts):
        return [("ghost:components-known", z3.BoolVal(False))]
    # each component is looked up under its canonical name IN THE DICT REACHED SO FAR (canonical_name's statement, restated per level)
    out = []
    t_i, ok_i = s.old.tree, z3.BoolVal(True)
    for i, (c, p) in enumerate(zip(cs, parts)):
        for lab, f in zip(("same-normalised-name", "exact-spelling-kept", "given-or-existing", "stored-spelling-found"), cn_post(c, p, t_i)):
            out.append((f"level{i}:canonical-in-the-dict-reached-so-far:{lab}", implies(ok_i, f)))
        ok_i = z3.And(ok_i, is_dict(t_i, c))
        t_i = CF(t_i)[sterm(c)]
    r = s.result
    if s.default is NO_DEFAULT:
        out += [("returns-entry-at-canonical-path", AND(found, value_matches(r, kd, lf, tr)))]
    else:
        isdef = z3.BoolVal(r is s.default)
        out += [("found=>entry-at-canonical-path", implies(found, value_matches(r, kd, lf, tr))),
                ("not-found=>default", implies(NOT(found), isdef)),
                ("returns-entry-or-default", OR(isdef, value_matches(r, kd, lf, tr)))]
    return out + [frame]


def get_raises(kind):
    def cond(s):
        if s.override_with is not None or s.default is not NO_DEFAULT:
            return z3.BoolVal(False)
        found, mid, kd, lf, tr, parts, cs = get_found(s)
        if kind == "type":
            return mid
        return z3.And(z3.Not(found), z3.Not(mid))
    return cond


def get_result(ctx, s):
    """Call sites: evaluate the specification of get on the modelled state."""
    if s.override_with is not None:
        return s.override_with
    interp = s.interp
    parts = s.key.split(".") if isinstance(s.key, str) else interp.call(interp.getattr(s.key, "split"), ["."], {})
    cur = s.config
    try:
        for p in parts:
            c = C_CANON.apply(interp, [p, cur], {})
            cur = interp.getitem(cur, c)
    except Exception as e:
        from pyvc.interp import RaiseSig
        if isinstance(e, RaiseSig) and isinstance(e.exc, (TypeError, KeyError, IndexError)):
            if s.default is not NO_DEFAULT:
                return s.default
        raise
    return cur


C_GET = Contract(f"{CFG}:get", setup=unpruned(get_setup), ensures=get_ensures, snapshot=get_snapshot, result=get_result,
                 raises={KeyError: get_raises("key"), TypeError: get_raises("type")},
                 on_raise=lambda s, E: [("frame:config-unchanged", AND(s.config.tree() == s.old.tree, s.config.root.writes == s.old.writes))],
                 note="dotted keys with 1..3 components (enumerated by the split model)")


# ------------------------------------------------------------------------------------------------
# validate_device / check_key_val  (symbolic hardware environment: cuda / mps availability, NUM_DEVICES, current device)
# ------------------------------------------------------------------------------------------------

SV = z3.StringVal


def fresh_device_request(ctx, name="dev", kinds=("none", "str", "int", "device", "other")):
    """A device request of one of the Python kinds the property talks about (forks)."""
    for kd in kinds[:-1]:
        if ctx.branch(ctx.fresh(f"{name}_is_{kd}", "bool").t):
            break
    else:
        kd = kinds[-1]
    if kd == "none":
        return None
    if kd == "str":
        d = ctx.fresh(name + "_str", "str")
        for f in M.lower_facts(d.t) + M.device_facts(d.t):
            ctx.assume(f)
        return d
    if kd == "int":
        return ctx.fresh(name + "_int", "int")
    if kd == "device":
        ty = ctx.fresh(name + "_type", "str")
        idx = None if ctx.branch(ctx.fresh(name + "_index_is_none", "bool").t) else ctx.fresh(name + "_index", "int")
        if idx is not None:
            ctx.assume(idx.t >= 0)  # torch.device never carries a negative index (TRUSTED)
            for f in M.istr_facts(idx):
                ctx.assume(f)
        # torch device type names (TRUSTED): the only type names containing 'cpu' / 'cuda' are 'cpu' / 'cuda'; none contains ':'
        ctx.assume(z3.And(z3.Implies(z3.Contains(ty.t, SV("cpu")), ty.t == SV("cpu")), z3.Implies(z3.Contains(ty.t, SV("cuda")), ty.t == SV("cuda")),
                          z3.Not(z3.Contains(ty.t, SV(":"))), M.LOWER(ty.t) == ty.t))  # ... and they are lower case
        if idx is not None:
            full = z3.Concat(ty.t, SV(":"), M.ISTR(idx.t))
            ctx.assume(z3.And(M.LOWER(full) == full, full != SV("cpu")))
        return DevVal(ty, idx)
    return Leaf(ctx.fresh(name + "_other", "int"))


def str_request_class(ctx, d, env, cpu_substring=False):
    """Semantic partition of string requests (forks in setup so that obligation names do not depend on the code's branch order)."""
    lo = M.LOWER(d.t)
    if ctx.branch(z3.Contains(lo, SV("cuda"))):
        return "contains-cuda"
    for w in ("gpu", "mps", "cpu"):
        if ctx.branch(lo == SV(w)):
            return w
    return "other-string"


def request_case(ctx, dev, env, cpu_substring=False):
    if dev is None:
        return "none"
    if M.is_strsym(dev):
        return "str:" + str_request_class(ctx, dev, env, cpu_substring)
    if isinstance(dev, Sym):
        return "int"
    if isinstance(dev, DevVal):
        return "torch.device"
    return "other-type"


ALL_KINDS = ("none", "str", "int", "device", "other")


def vd_setup(ctx, kinds=ALL_KINDS):
    init_ctx(ctx)
    env = M.env_of(ctx)
    override_globals(NUM_DEVICES=env.num)
    for f in M.istr_facts(env.cur):
        ctx.assume(f)
    dev = fresh_device_request(ctx, kinds=kinds)
    return NS(dev=dev, env=env, case=request_case(ctx, dev, env))


def dev_request(dev, env, loose=False):
    """Specification view of a request: well-formedness, requested device class, cuda index.
    (`loose` is a leftover of the time the code matched 'cpu' / 'gpu' by substring; it is ignored.)"""
    loose = False  # the substring matching was fixed in /repo ('fix: device strings were matched by substring'): exact matching everywhere
    cuda, mps, cur = env.cuda.t, env.mps.t, env.cur.t
    F, T = z3.BoolVal(False), z3.BoolVal(True)
    if dev is None:
        return dict(wf=T, cuda=cuda, mps=z3.And(z3.Not(cuda), mps), cpu=z3.And(z3.Not(cuda), z3.Not(mps)), index=cur, gpu=F)
    if M.is_strsym(dev) or isinstance(dev, str):
        t = sterm(dev)
        lo = M.LOWER(t) if not isinstance(dev, str) else SV(dev.lower())
        is_cuda = z3.And(M.DEV_OK(t), M.DEV_TYPE(t) == SV("cuda"))
        is_gpu, is_mps, is_cpu = lo == SV("gpu"), lo == SV("mps"), lo == SV("cpu")
        if loose:
            has_cuda = z3.Contains(lo, SV("cuda"))
            is_gpu = z3.And(z3.Not(has_cuda), z3.Contains(lo, SV("gpu")))
            is_mps = z3.And(z3.Not(has_cuda), z3.Not(is_gpu), is_mps)
            is_cpu = z3.And(z3.Not(has_cuda), z3.Not(is_gpu), is_cpu)
            is_cuda = z3.And(has_cuda, is_cuda)
        return dict(wf=z3.Or(is_cuda, is_gpu, is_mps, is_cpu),
                    cuda=z3.Or(is_cuda, z3.And(is_gpu, cuda)), mps=z3.Or(is_mps, z3.And(is_gpu, z3.Not(cuda), mps)), cpu=is_cpu,
                    index=z3.If(z3.And(is_cuda, M.DEV_HAS_INDEX(t)), M.DEV_INDEX(t), cur), gpu=is_gpu)
    if isinstance(dev, Sym) and dev.is_int:
        return dict(wf=dev.t >= 0, cuda=T, mps=F, cpu=F, index=dev.t, gpu=F)
    if isinstance(dev, DevVal):
        ty = sterm(dev.type)
        c, m, p = ty == SV("cuda"), ty == SV("mps"), ty == SV("cpu")
        return dict(wf=z3.Or(c, m, p), cuda=c, mps=m, cpu=p, index=cur if dev.index is None else lift(dev.index), gpu=F)
    return dict(wf=F, cuda=F, mps=F, cpu=F, index=cur, gpu=F)


def vd_available(rq, env):
    return z3.And(z3.Implies(rq["cuda"], z3.And(env.cuda.t, rq["index"] >= 0, rq["index"] < env.num.t)),
                  z3.Implies(rq["mps"], env.mps.t),
                  z3.Implies(rq["gpu"], z3.Or(env.cuda.t, env.mps.t)))


def vd_post(dev, result, env, loose=False):
    """Accepted request => well formed, available, and the normalised (name, id) pair names exactly the requested device."""
    name, idx = result
    nt, it = sterm(name), lift(idx)
    rq = dev_request(dev, env, loose)
    cuda_name = z3.Concat(SV("cuda:"), M.ISTR(rq["index"]))
    return [
        ("cuda-request=>('cuda:<index>',index)", implies(AND(rq["wf"], rq["cuda"]), AND(nt == cuda_name, it == rq["index"]))),
        ("mps-request=>('mps',0)", implies(AND(rq["wf"], rq["mps"]), AND(nt == SV("mps"), it == 0))),
        ("cpu-request=>('cpu',-1)", implies(AND(rq["wf"], rq["cpu"]), AND(nt == SV("cpu"), it == -1))),
        ("result-is-cpu-mps-or-cuda:<id>", OR(AND(nt == SV("cpu"), it == -1), AND(nt == SV("mps"), it == 0, env.mps.t),
                                              AND(nt == z3.Concat(SV("cuda:"), M.ISTR(it)), env.cuda.t, it >= 0, it < env.num.t))),
    ]


def vd_ensures(s):
    env = M.env_of(s.ctx)
    if s.mode == "apply":
        return vd_post(s.dev, s.result, env, loose=True)
    tag = f"[{s.case.split(':')[0]}]"
    return [(tag + a, b) for a, b in vd_post(s.dev, s.result, env)]


def vd_rejected(s, loose=None):
    """unavailable or malformed  <=>  rejected (by some exception)."""
    env = M.env_of(s.ctx)
    rq = dev_request(s.dev, env)
    return z3.Not(z3.And(rq["wf"], vd_available(rq, env)))


def vd_result(ctx, s):
    name = ctx.fresh("device_name", "str")
    idx = ctx.fresh("device_id", "int")
    for f in M.istr_facts(idx):
        ctx.assume(f)
    return (name, idx)


class DeviceRejected(Exception):
    pass


def vd_contract(kinds):
    return Contract(f"{CFG}:validate_device", setup=unpruned(lambda ctx: vd_setup(ctx, kinds)), ensures=vd_ensures, result=vd_result,
                    raises={Exception: vd_rejected},
                    note="request kinds " + ",".join(kinds))


C_VALIDATE = vd_contract(("str",))
C_VALIDATE2 = vd_contract(("none", "int", "device", "other"))


# ---- check_key_val


def global_config(ctx):
    """The module-level `config` read by check_key_val (config['has_cupy']): a store that holds a scalar 'has_cupy'."""
    g = SymDict.fresh(ctx, "global_config")
    ctx.assume(is_leaf(g.tree(), "has_cupy"))
    return g


def ckv_setup(ctx, kinds=ALL_KINDS, other_keys=True):
    init_ctx(ctx)
    env = M.env_of(ctx)
    for f in M.istr_facts(env.cur):
        ctx.assume(f)
    override_globals(NUM_DEVICES=env.num, config=global_config(ctx), cp=M.CupyStub())
    key = ctx.fresh("key", "str")
    if not other_keys:
        ctx.assume(key.t == SV("device"))
    if not other_keys or ctx.branch(key.t == SV("device")):
        val = fresh_device_request(ctx, "val", kinds=kinds)
        if isinstance(val, Leaf):
            val.strsym = fresh_str(ctx, "str_of_val")
        case = "device:" + request_case(ctx, val, env, cpu_substring=True)
        if case == "device:other-type":
            case += ":str-contains-cpu" if ctx.branch(z3.Contains(val.strsym.t, SV("cpu"))) else ":str-without-cpu"
    else:
        val = fresh_value(ctx, "val")
        case = "other-key"
    return NS(key=key, val=val, env=env, case=case)


def request_str(val):
    """str(val) as the code computes it (None for values whose text cannot contain 'cpu')."""
    if M.is_strsym(val):
        return val.t
    if isinstance(val, str):
        return SV(val)
    if isinstance(val, Leaf):
        return val.strsym.t if getattr(val, "strsym", None) is not None else None
    if isinstance(val, DevVal):
        return sterm(val.type) if val.index is None else z3.Concat(sterm(val.type), SV(":"), M.ISTR(lift(val.index)))
    return None


def ckv_is_device(s):
    return sterm(s.key) == SV("device")


def ckv_rejected(s, loose=None):
    env = M.env_of(s.ctx)
    if isinstance(s.val, (SymDict, ItemsMap)):
        return ckv_is_device(s)  # a mapping is not a device request
    rq = dev_request(s.val, env)
    return z3.And(ckv_is_device(s), z3.Not(z3.And(rq["wf"], vd_available(rq, env))))


def ckv_device_post(s, loose):
    env = M.env_of(s.ctx)
    rk, rv = s.result
    rq = dev_request(s.val, env, loose)
    cpu = rq["cpu"]
    nt = sterm(rv) if M.is_strlike(rv) else None
    if nt is None:
        return [("device-value-is-a-string", z3.BoolVal(False))]
    cuda_name = z3.Concat(SV("cuda:"), M.ISTR(rq["index"]))
    sel = env.cuda_set
    return [
        ("cpu-request=>'cpu'", implies(cpu, nt == SV("cpu"))),
        ("mps-request=>'mps'", implies(rq["mps"], nt == SV("mps"))),
        ("cuda-request=>'cuda:<index>'", implies(rq["cuda"], nt == cuda_name)),
        ("value-is-cpu-mps-or-cuda:<id>", OR(nt == SV("cpu"), AND(nt == SV("mps"), env.mps.t), AND(nt == cuda_name, env.cuda.t, rq["index"] >= 0, rq["index"] < env.num.t))),
        ("torch-current-device-set-exactly-for-cuda", z3.And(z3.BoolVal(len(sel) <= 1), implies(rq["cuda"], z3.BoolVal(len(sel) == 1) if not sel else lift(sel[0]) == rq["index"]),
                                                             implies(NOT(rq["cuda"]), z3.BoolVal(len(sel) == 0)))),
    ]


def ckv_ensures(s):
    rk, rv = s.result
    out = [("key-returned-unchanged", z3.BoolVal(rk is s.key) if s.mode == "verify" else sterm(rk) == sterm(s.key))]
    isdev = ckv_is_device(s)
    if s.mode == "apply":
        if rv is s.val:
            return out
        # (the ghost list of torch.cuda.set_device calls is not replayed at call sites: leave that clause out there)
        return out + [(a, implies(isdev, b)) for a, b in ckv_device_post(s, loose=False) if not a.startswith("torch-current-device-set")]
    if s.case == "other-key":
        return out + [("other-keys:value-returned-unchanged", z3.BoolVal(rv is s.val))]
    out += ckv_device_post(s, loose=False)
    return out


def ckv_result(ctx, s):
    if isinstance(s.key, str) and s.key != "device":
        return (s.key, s.val)
    if not isinstance(s.key, str) and not ctx.branch(ckv_is_device(s)):
        return (s.key, s.val)
    if isinstance(s.val, (SymDict, ItemsMap)):
        raise OutOfSubset("mapping passed as device request")
    name = ctx.fresh("device_name", "str")
    for f in M.istr_facts(M.env_of(ctx).cur):
        ctx.assume(f)
    ctx.ghost.setdefault("device_names", []).append((s.val, name))
    return (s.key, name)


def ckv_contract(kinds, other_keys):
    tag = lambda s: "[" + ":".join(s.case.split(":")[:2]) + "]"
    return Contract(f"{CFG}:check_key_val", setup=unpruned(lambda ctx: ckv_setup(ctx, kinds, other_keys)),
                    ensures=lambda s: ckv_ensures(s) if s.mode == "apply" else [(tag(s) + a, b) for a, b in ckv_ensures(s)], result=ckv_result,
                    raises={Exception: ckv_rejected},
                    note="device request kinds " + ",".join(kinds) + ("; plus every non-device key" if other_keys else ""))


C_CHECK = ckv_contract(("str",), False)
C_CHECK2 = ckv_contract(("none", "int", "device", "other"), True)


# ------------------------------------------------------------------------------------------------
# set.__init__ / __enter__ / set_device / get_device
# ------------------------------------------------------------------------------------------------


def fresh_item(ctx, tag, allow_device=True, allow_mapping=True):
    """One (key, value) item of the mapping form: an arbitrary non-device key with an arbitrary value, or 'device' with a request."""
    if allow_device and ctx.branch(ctx.fresh(f"{tag}_is_device", "bool").t):
        env = M.env_of(ctx)
        val = fresh_device_request(ctx, f"{tag}_dev", kinds=("str", "int"))
        return "device", val, "device:" + request_case(ctx, val, env, cpu_substring=True)
    k = fresh_str(ctx, f"{tag}_key")
    ctx.assume(k.t != SV("device"))
    return k, fresh_value(ctx, f"{tag}_value", allow_mapping), "key"


ALL_SHAPES = ("one-item", "one-item-device", "two-items", "none", "not-a-mapping", "kw-flat", "kw-dunder", "kw-device")


def init_setup(ctx, shapes=ALL_SHAPES):
    init_ctx(ctx)
    env = M.env_of(ctx)
    for f in M.istr_facts(env.cur):
        ctx.assume(f)
    override_globals(NUM_DEVICES=env.num, config=global_config(ctx), cp=M.CupyStub())
    cfg = SymDict.fresh(ctx, "config")
    shape = shapes[-1]
    for cand in shapes[:-1]:
        if ctx.branch(ctx.fresh("shape_" + cand, "bool").t):
            shape = cand
            break
    kwargs, items, arg = {}, [], None
    case = shape
    if shape in ("one-item", "one-item-device"):
        if shape == "one-item":
            k, v, tag = fresh_item(ctx, "item", allow_device=False)
        else:
            val = fresh_device_request(ctx, "item_dev", kinds=("str", "int"))
            k, v, tag = "device", val, "device:" + request_case(ctx, val, env, cpu_substring=True)
        items = [(k, v)]
        case += ":" + tag
    elif shape == "two-items":
        k1, v1, _ = fresh_item(ctx, "first", allow_device=False, allow_mapping=False)
        k2, v2, _ = fresh_item(ctx, "second", allow_device=False, allow_mapping=False)
        ctx.assume(k1.t != k2.t)
        ctx.assume(z3.And(M.NPARTS(k1.t) == 1, M.NPARTS(k2.t) == 1))  # bound of this shape: undotted keys (dotted keys: the one-item shape)
        items = [(k1, v1), (k2, v2)]
    elif shape == "not-a-mapping":
        arg = Leaf(ctx.fresh("arg", "int"))
    elif shape == "kw-flat":
        kwargs = {"alpha_beta": fresh_value(ctx, "kwvalue")}
    elif shape == "kw-dunder":
        kwargs = {"alpha__beta_gamma": fresh_value(ctx, "kwvalue")}
    elif shape == "kw-device":
        val = fresh_device_request(ctx, "kw_dev", kinds=("str", "int"))
        kwargs = {"device": val}
        case += ":" + request_case(ctx, val, env, cpu_substring=True)
    if items:
        arg = ItemsMap(items)
    allitems = list(items) + [(k.replace("__", "."), v) for k, v in kwargs.items()]
    return NS(self=V.Obj(SETCLS, {}), arg=arg, config=cfg, kwargs=kwargs, items=allitems, case=case, shape=shape)


def init_snapshot(s):
    g = s.ctx.ghost
    return NS(tree=s.config.tree(), writes=s.config.root.writes, n_assign=len(g.get("assign_trees", [])), n_calls=len(g.get("assign_calls", [])),
              n_names=len(g.get("device_names", [])))


def init_steps(s):
    """Ghost: for every processed item (before-state, after-state, path components, canonical keys, stored value)."""
    g = s.ctx.ghost
    trees = g.get("assign_trees", [])[s.old.n_assign:]
    calls = g.get("assign_calls", [])[s.old.n_calls:]
    return [(b, a, keys, cs, v) for (b, a, keys, v), cs in zip(trees, calls)]


def item_rejected(s, k, v):
    """A device request inside set() / set_device() / update_defaults() is unavailable or malformed."""
    return ckv_rejected(NS(key=k, val=v, ctx=s.ctx, mode="verify"))


def init_raise_cond(s):
    if s.mode == "apply":
        return z3.BoolVal(False)  # call sites: the body is inlined by init_inline, exceptions propagate from there
    if s.shape == "not-a-mapping":
        return z3.BoolVal(True)
    steps = init_steps(s)
    calls = s.ctx.ghost.get("assign_calls", [])[s.old.n_calls:]
    cond, t = z3.BoolVal(False), s.old.tree
    for i, (k, v) in enumerate(s.items):
        rej = item_rejected(s, k, v)
        if i < len(steps):
            b, a, keys, cs, _ = steps[i]
            sc = scalar_on_path(b, keys, cs)
        elif i < len(calls) and isinstance(k, (str, Sym)):
            # the nested assignment itself raised: its canonical keys were recorded, its path is the split key
            parts = [p for (kk, p) in s.ctx.ghost.get("splits", []) if kk is k]
            keys = parts[-1] if parts else (k.split(".") if isinstance(k, str) else None)
            sc = scalar_on_path(t, keys, calls[i]) if keys is not None and len(keys) == len(calls[i]) else z3.BoolVal(False)
        else:
            sc = z3.BoolVal(False)
        cond = z3.Or(cond, rej, sc)
        if i < len(steps):
            t = steps[i][1]
        else:
            break
    return cond


def init_ensures(s):
    if s.mode == "apply":
        return []
    return [(f"[{s.shape}]{a}", b) for a, b in init_ensures0(s)]


def init_inline(ctx, s):
    """Call sites (set_device): the body of __init__ is interpreted in place (its callees are used through their contracts)."""
    interp = s.interp
    ctx.ghost.setdefault("inlined", set()).add(f"{CFG}:set.__init__")
    interp.call_closure(interp.closure_of(C_INIT1.real), [s.self, s.arg, s.config], dict(s.kwargs))


def init_ensures0(s):
    cfg = s.config
    out = [("records-the-target-store", z3.BoolVal(s.self.fields.get("config") is cfg))]
    steps = init_steps(s)
    t, t2 = s.old.tree, cfg.tree()
    if len(steps) != len(s.items):
        return out + [("ghost:one-nested-assignment-per-item", z3.BoolVal(False))]
    if not s.items:
        return out + [("nothing-to-set:configuration-unchanged", AND(t2 == t, cfg.root.writes == s.old.writes))]
    # the states chain: before(first) = old, after(i) = before(i+1), after(last) = new
    ch = [steps[0][0] == t, steps[-1][1] == t2] + [steps[i][1] == steps[i + 1][0] for i in range(len(steps) - 1)]
    out.append(("items-are-applied-in-order-to-the-target-store", z3.And(*ch)))
    names = s.ctx.ghost.get("device_names", [])[s.old.n_names:]
    for i, ((k, v), (b, a, keys, cs, stored)) in enumerate(zip(s.items, steps)):
        vt = value_tree(s.ctx, stored)
        ok, mid, kd, lf, tr = chain(a, cs)
        if isinstance(k, str) and k == "device":
            out.append((f"item{i}:device:stored-value-is-the-validated-device-name", z3.BoolVal(any(stored is nm for (_, nm) in names))))
        else:
            out.append((f"item{i}:value-stored-as-given", z3.BoolVal(stored is v)))
        out.append((f"item{i}:path-components-are-the-dotted-key", z3.BoolVal(True) if not isinstance(k, str) else z3.And(*[sterm(a_) == SV(b_) for a_, b_ in zip(keys, k.split("."))], z3.BoolVal(len(keys) == len(k.split("."))))))
        out.append((f"item{i}:readable-at-its-canonical-path-right-after", AND(ok, entry_is_chain(a, cs, stored, vt))))
    last = steps[-1]
    out.append(("last-writer-wins:last-item-readable-in-final-state", entry_is_chain(t2, last[3], last[4], value_tree(s.ctx, last[4]))))
    out.append(("top-level:entries-other-than-the-written-sections-untouched", others_unchanged(t, t2, [st[3][0] for st in steps])))
    if len(steps) == 2:
        (b1, a1, k1, c1, v1), (b2, a2, k2, c2, v2) = steps
        out.append(("two-items:first-still-readable-when-top-level-names-differ",
                    implies(norm(k1[0]) != norm(k2[0]), entry_is_chain(t2, c1, v1, value_tree(s.ctx, v1)))))
    return out


def entry_is_chain(t, cs, value, vtree):
    """Following the canonical keys cs from state t reaches an entry holding `value`."""
    ok = z3.BoolVal(True)
    for c in cs[:-1]:
        ok = z3.And(ok, is_dict(t, c))
        t = CF(t)[sterm(c)]
    return z3.And(ok, entry_is(t, cs[-1], value, vtree))


def init_on_raise(s, E):
    steps = init_steps(s)
    cfg = s.config
    out = []
    if len(s.items) == 1 and not steps:
        k, v = s.items[0]
        out.append(("rejected-request-leaves-the-store-unchanged", AND(cfg.tree() == s.old.tree, cfg.root.writes == s.old.writes)))
    if s.shape == "not-a-mapping":
        out.append(("store-unchanged", AND(cfg.tree() == s.old.tree, cfg.root.writes == s.old.writes)))
    return out


def init_contract(shapes):
    return Contract(f"{CFG}:set.__init__", setup=unpruned(lambda ctx: init_setup(ctx, shapes)), ensures=init_ensures, modifies=init_inline,
                    snapshot=lambda s: init_snapshot(s) if s.mode == "verify" else None,
                    raises={Exception: init_raise_cond}, on_raise=lambda s, E: [(f"[{s.shape}]{a}", b) for a, b in init_on_raise(s, E)],
                    note="mapping form with 1 or 2 items, keyword form (flat, double-underscore, device); keys symbolic strings; shapes " + ",".join(shapes))


# the same function under three contract objects (one per group of argument shapes) so that they are verified in parallel
C_INIT1 = init_contract(("one-item",))
C_INIT4 = init_contract(("one-item-device",))
C_INIT2 = init_contract(("two-items",))
C_INIT3 = init_contract(("none", "not-a-mapping", "kw-flat", "kw-dunder", "kw-device"))


# ---- __enter__ (and the missing __exit__)


def enter_setup(ctx):
    init_ctx(ctx)
    cfg = SymDict.fresh(ctx, "config")
    return NS(self=V.Obj(SETCLS, dict(config=cfg, _record=[])), cfg=cfg)


def enter_ensures(s):
    return [("returns-the-target-store", z3.BoolVal(s.result is s.cfg)),
            ("context-manager:class-defines-__exit__", z3.BoolVal(hasattr(SETCLS, "__exit__"))),
            ("frame:store-unchanged", z3.BoolVal(s.cfg.root.writes == 0))]


C_ENTER = Contract(f"{CFG}:set.__enter__", setup=enter_setup, ensures=enter_ensures)

# ---- __exit__: undo the recorded assignments (most recent first)


def restore_rel(t, t2, op, rpath, rold):
    """State relation of undoing ONE recorded entry on a store in state t (no scalar above the recorded key):
    replace: the entry at rpath holds the recorded previous value again (missing sections on the way are re-created), siblings at every
             level untouched;
    insert : the key at rpath is absent again if its parent still exists (nothing happens otherwise), siblings untouched."""
    k = sterm(rpath[0])
    if op == "replace":
        out = [others_unchanged(t, t2, [k])]
        if len(rpath) == 1:
            out.append(entry_is(t2, k, rold, rold.tree() if isinstance(rold, SymDict) else None))
        else:
            out.append(is_dict(t2, k))
            out += restore_rel(z3.If(present(t, k), CF(t)[k], EMPTY), CF(t2)[k], op, rpath[1:], rold)
        return out
    if len(rpath) == 1:
        return [others_unchanged(t, t2, [k]), z3.Not(present(t2, k))]
    sub = restore_rel(CF(t)[k], CF(t2)[k], op, rpath[1:], rold)
    unchanged = z3.And(KF(t2) == KF(t), LF(t2) == LF(t), CF(t2) == CF(t))
    return [z3.If(present(t, k), z3.And(others_unchanged(t, t2, [k]), is_dict(t2, k), *sub), unchanged)]


def scalar_above(t, rpath):
    """A scalar sits above the recorded key (then undoing raises: scalars are not containers)."""
    if len(rpath) <= 1:
        return z3.BoolVal(False)
    k = sterm(rpath[0])
    return z3.Or(is_leaf(t, k), z3.And(is_dict(t, k), scalar_above(CF(t)[k], rpath[1:])))


EXIT_SHAPES = ("nothing-recorded", "replace:depth1", "insert:depth1", "replace:depth2", "insert:depth2", "two-entries:depth1")


def exit_setup(ctx):
    init_ctx(ctx)
    cfg = SymDict.fresh(ctx, "config")
    shape = EXIT_SHAPES[-1]
    for cand in EXIT_SHAPES[:-1]:
        if ctx.branch(ctx.fresh("shape_" + cand, "bool").t):
            shape = cand
            break
    prev = lambda n: fresh_value(ctx, n)
    key = lambda n: ctx.fresh(n, "str")
    if shape == "nothing-recorded":
        rec = []
    elif shape == "two-entries:depth1":
        ops = ["replace" if ctx.branch(ctx.fresh(f"entry{i}_is_replace", "bool").t) else "insert" for i in range(2)]
        rec = [(op, (key(f"k{i}"),), prev(f"previous{i}") if op == "replace" else None) for i, op in enumerate(ops)]
        shape += ":" + "+".join(ops)
    else:
        op, depth = shape.split(":")
        n = int(depth[-1])
        rec = [(op, tuple(key(f"k{i}") for i in range(n)), prev("previous") if op == "replace" else None)]
    return NS(self=V.Obj(SETCLS, dict(config=cfg, _record=list(rec))), exc_type=None, exc_value=None, traceback=None, cfg=cfg, rec=rec, case=shape)


def exit_snapshot(s):
    return NS(tree=s.cfg.tree(), writes=s.cfg.root.writes)


def exit_ensures(s):
    t, t2, rec = s.old.tree, s.cfg.tree(), s.rec
    out = [("returns-None(exceptions-propagate)", z3.BoolVal(s.result is None))]
    if not rec:
        out.append(("nothing-recorded:store-unchanged", AND(t2 == t, s.cfg.root.writes == s.old.writes)))
    elif len(rec) == 1:
        op, rpath, rold = rec[0]
        labels = ["restored:level%d:%d" % (i // 2, i) for i in range(10)]
        rel = restore_rel(t, t2, op, list(rpath), rold)
        out += [(f"undo-{op}:clause{i}", f) for i, f in enumerate(rel)]
    else:
        (op1, (k1,), o1), (op2, (k2,), o2) = rec   # recorded in this order, undone in reverse: the EARLIER entry has the last word
        def restored(op, k, o):
            return entry_is(t2, k, o, o.tree() if isinstance(o, SymDict) else None) if op == "replace" else z3.Not(present(t2, k))
        out += [("two-entries:everything-else-untouched", others_unchanged(t, t2, [k1, k2])),
                ("two-entries:earlier-entry-undone", restored(op1, k1, o1)),
                ("two-entries:later-entry-undone-unless-it-is-the-same-key", implies(sterm(k1) != sterm(k2), restored(op2, k2, o2)))]
    return [(f"[{s.case}]{a}", b) for a, b in out]


def exit_raises(s):
    return z3.Or(*[scalar_above(s.old.tree, list(r[1])) for r in s.rec]) if s.rec else z3.BoolVal(False)


C_EXIT = Contract(f"{CFG}:set.__exit__", setup=unpruned(exit_setup), ensures=exit_ensures, snapshot=exit_snapshot,
                  raises={TypeError: lambda s: z3.And(exit_raises(s), z3.BoolVal(any(r[0] == "replace" for r in s.rec))),
                          AttributeError: lambda s: z3.And(exit_raises(s), z3.BoolVal(any(r[0] == "insert" for r in s.rec)))},
                  note="record shapes: none, one replace/insert entry at depth 1 or 2, two depth-1 entries; keys, previous values, store arbitrary")

# ---- set_device / get_device / device  (module-level store modelled as explicit state)


def sd_setup(ctx):
    init_ctx(ctx)
    env = M.env_of(ctx)
    for f in M.istr_facts(env.cur):
        ctx.assume(f)
    store = global_config(ctx)
    override_globals(NUM_DEVICES=env.num, config=store, cp=M.CupyStub())
    dev = fresh_device_request(ctx, kinds=("str", "int", "device"))
    return NS(dev=dev, store=store, env=env, case=request_case(ctx, dev, env, cpu_substring=True))


def sd_snapshot(s):
    g = s.ctx.ghost
    return NS(tree=s.store.tree(), writes=s.store.root.writes, n_calls=len(g.get("assign_calls", [])), n_names=len(g.get("device_names", [])))


def sd_rejected(s):
    return item_rejected(s, "device", s.dev)


def sd_ensures(s):
    g = s.ctx.ghost
    t, t2 = s.old.tree, s.store.tree()
    calls = g.get("assign_calls", [])[s.old.n_calls:]
    names = g.get("device_names", [])[s.old.n_names:]
    if len(calls) != 1 or len(calls[0]) != 1:
        return [("ghost:one-assignment", z3.BoolVal(False))]
    c = calls[0][0]
    env = s.env
    if names:
        nt = sterm(names[0][1])
    else:
        nt = SV("cpu")
    rq = dev_request(s.dev, env)
    has_cpu = z3.BoolVal(False)
    return [
        ("stored-under-the-canonical-spelling-of-'device'", AND(*cn_post(c, "device", t, quantified=False))),
        ("device-entry-holds-the-validated-name", entry_is(t2, c, Sym(nt))),
        ("every-other-entry-untouched", others_unchanged(t, t2, [c])),
        ("cpu-request=>'cpu'", implies(OR(has_cpu, rq["cpu"]), nt == SV("cpu"))),
        ("stored-name-is-cpu-mps-or-an-available-cuda:<id>",
         OR(nt == SV("cpu"), AND(nt == SV("mps"), env.mps.t), AND(nt == z3.Concat(SV("cuda:"), M.ISTR(rq["index"])), env.cuda.t, rq["index"] >= 0, rq["index"] < env.num.t))),
    ]


C_SETDEV = Contract(f"{CFG}:set_device", setup=unpruned(sd_setup), ensures=sd_ensures, snapshot=sd_snapshot,
                    raises={Exception: sd_rejected},
                    on_raise=lambda s, E: [("rejected-request-leaves-the-stored-device-(and-everything-else)-unchanged",
                                            AND(s.store.tree() == s.old.tree, s.store.root.writes == s.old.writes))],
                    note="set.__init__ is inlined at this call site; check_key_val / _assign are used through their contracts")


def gd_setup(ctx):
    init_ctx(ctx)
    store = SymDict.fresh(ctx, "global_config")
    override_globals(config=store)
    return NS(store=store)


def gd_snapshot(s):
    return NS(tree=s.store.tree(), writes=s.store.root.writes, ncalls=len(s.ctx.ghost.get("cn_calls", [])))


def gd_ensures(s):
    calls = s.ctx.ghost.get("cn_calls", [])[s.old.ncalls:]
    if len(calls) != 1:
        return [("ghost:one-canonical-name", z3.BoolVal(False))]
    c = calls[0][2]
    t = s.old.tree
    return [("reads-the-entry-stored-under-the-canonical-spelling-of-'device'",
             AND(*cn_post(c, "device", t, quantified=False), value_matches(s.result, KF(t)[sterm(c)], LF(t)[sterm(c)], CF(t)[sterm(c)]))),
            ("frame:store-unchanged", AND(s.store.tree() == t, s.store.root.writes == s.old.writes))]


def gd_absent(s):
    calls = s.ctx.ghost.get("cn_calls", [])[s.old.ncalls:]
    c = calls[0][2] if calls else "device"
    return z3.Not(present(s.old.tree, c))


C_GETDEV = Contract(f"{CFG}:get_device", setup=gd_setup, ensures=gd_ensures, snapshot=gd_snapshot, raises={KeyError: gd_absent})
C_DEVICE = Contract(f"{CFG}:device", setup=gd_setup, ensures=gd_ensures, snapshot=gd_snapshot, raises={KeyError: gd_absent})


# ------------------------------------------------------------------------------------------------
# update / merge / update_defaults / refresh
# ------------------------------------------------------------------------------------------------

PRIO = {"old": 0, "new": 1, "new-defaults": 2}
UPD = z3.Function("update_result", TREE, TREE, z3.IntSort(), TREE, TREE)  # update(old, <opaque mapping>, priority, defaults) as a function of its inputs


def dtree(defaults):
    """State of the `defaults` argument; None and {} behave alike (both falsy)."""
    return defaults.tree() if isinstance(defaults, SymDict) else EMPTY


def same_entry(ta, a, tb, b):
    """`da[a] == db[b]` for present entries (scalar identities equal / nested states equal)."""
    a, b = sterm(a), sterm(b)
    return z3.Or(z3.And(KF(ta)[a] == LEAF, KF(tb)[b] == LEAF, LF(ta)[a] == LF(tb)[b]),
                 z3.And(KF(ta)[a] == DICT, KF(tb)[b] == DICT, CF(ta)[a] == CF(tb)[b]))


def entry_kept(tb, ta, c):
    c = sterm(c)
    return z3.And(KF(ta)[c] == KF(tb)[c], LF(ta)[c] == LF(tb)[c], CF(ta)[c] == CF(tb)[c])


def step_rel(tb, ta, k, v, g, prio, dt, quantified=True):
    """One item (k, v) of `new` applied to a dict in state tb gives state ta; g = ghost(c = canonical key, mid = states, sub = nested ghosts)."""
    c = g["c"]
    ct = sterm(c)
    out = [("canonical:" + n, f) for n, f in zip(("same-normalised-name", "exact-spelling-kept", "given-or-existing", "stored-spelling-found"),
                                                  cn_post(c, k, tb, quantified))]
    out.append(("siblings-untouched(whole-view)", others_unchanged(tb, ta, [c])))
    if isinstance(v, (ItemsMap, SymDict)):
        child_before = z3.If(is_dict(tb, ct), CF(tb)[ct], EMPTY)
        # the defaults handed down to the section: ghost (recorded at the recursive call / fresh at call sites), constrained to be
        # none, or the defaults' own section for this key under SOME spelling - and the store's spelling when that is unambiguous
        child_dt, dkey = g["dt"], g.get("dkey")
        belongs = child_dt == EMPTY
        if dkey is not None:
            belongs = z3.Or(belongs, z3.And(is_dict(dt, dkey), norm(dkey) == norm(k), child_dt == CF(dt)[sterm(dkey)]))
        out.append(("section:defaults-handed-down-are-none-or-the-defaults'-section-for-this-key", belongs))
        out.append(("section:defaults-handed-down-are-the-section-under-the-store's-spelling-when-unambiguous",
                    implies(AND(M.NE(dt), is_dict(dt, ct), OR(ct == sterm(k), NOT(present(dt, k))), pure(k), pure(ct)), child_dt == CF(dt)[ct])))
        out.append(("section-stays-or-becomes-a-dict", is_dict(ta, ct)))
        if isinstance(v, ItemsMap):
            out += [("section:" + n, f) for n, f in update_rel(child_before, CF(ta)[ct], v.items(), g["sub"], prio, child_dt, quantified)]
        else:
            out.append(("section:opaque-mapping-merged", CF(ta)[ct] == UPD(child_before, v.tree(), z3.IntVal(PRIO[prio]), child_dt)))
    else:
        if prio == "new":
            write = z3.BoolVal(True)
        elif prio == "old":
            write = z3.Not(present(tb, ct))
        else:
            # 'new-defaults': stated so that it holds whichever spelling the current default is looked up under
            exact = z3.Or(z3.Not(present(tb, ct)), z3.And(M.NE(dt), present(dt, ct), same_entry(dt, ct, tb, ct)))
            no_match = forall(E_, NOT(AND(M.NE(dt), present(dt, E_), TO_US(E_) == norm(k), same_entry(dt, E_, tb, ct))), patterns=[TO_US(E_)])
            out.append(("value-written-when-absent-or-equal-to-the-default-under-the-store's-spelling", implies(exact, entry_is(ta, ct, v))))
            out.append(("value-kept-when-no-spelling-of-the-default-matches", implies(AND(present(tb, ct), no_match), entry_kept(tb, ta, ct))))
            out.append(("value-written-or-kept", OR(entry_is(ta, ct, v), entry_kept(tb, ta, ct))))
            write = None
        if write is not None:
            out.append(("value-written-iff-priority-rule", z3.If(write, entry_is(ta, ct, v), entry_kept(tb, ta, ct))))
        out.append(("entry-present-afterwards(no-key-dropped)", present(ta, ct)))
    return out


def update_rel(t, t2, items, ghost, prio, dt, quantified=True):
    out = []
    states = [t] + [g["after"] for g in ghost]
    for i, ((k, v), g) in enumerate(zip(items, ghost)):
        out += [(f"item{i}:" + n, f) for n, f in step_rel(states[i], states[i + 1], k, v, g, prio, dt, quantified)]
    out.append(("final-state-is-the-state-after-the-last-item", t2 == states[-1]))
    return out


def fresh_ghost(ctx, items):
    gs = []
    for k, v in items:
        g = dict(c=fresh_str(ctx, "canon"), after=z3.Const(ctx.fresh_name("tree"), TREE), sub=None)
        if isinstance(v, (ItemsMap, SymDict)):
            g["dt"], g["dkey"] = z3.Const(ctx.fresh_name("defaults_handed_down"), TREE), fresh_str(ctx, "dkey")
        if isinstance(v, ItemsMap):
            g["sub"] = fresh_ghost(ctx, v.items())
        gs.append(g)
    return gs


def up_shape(ctx, shape):
    """The enumerated shapes of the `new` argument (keys: arbitrary pairwise distinct strings other than 'device')."""
    def key(n):
        k = fresh_str(ctx, n)
        ctx.assume(k.t != SV("device"))
        return k
    leaf = lambda n: Leaf(ctx.fresh(n, "int"))
    if shape == "empty":
        return []
    if shape == "flat1":
        return [(key("k1"), leaf("v1"))]
    if shape == "flat2":
        k1, k3 = key("k1"), key("k3")
        ctx.assume(k1.t != k3.t)
        return [(k1, leaf("v1")), (k3, leaf("v3"))]
    if shape == "nested1":
        return [(key("k1"), ItemsMap([(key("k2"), leaf("v2"))]))]
    if shape == "nested1+flat1":
        k1, k3 = key("k1"), key("k3")
        ctx.assume(k1.t != k3.t)
        return [(k1, ItemsMap([(key("k2"), leaf("v2"))])), (k3, leaf("v3"))]
    if shape == "nested2":
        k2, k4 = key("k2"), key("k4")
        ctx.assume(k2.t != k4.t)
        return [(key("k1"), ItemsMap([(k2, leaf("v2")), (k4, leaf("v4"))]))]
    if shape == "opaque-section":
        return [(key("k1"), SymDict.fresh(ctx, "section"))]
    raise ValueError(shape)


UP_SHAPES = ("flat1", "flat2", "nested1", "nested1+flat1", "nested2", "opaque-section")


def up_setup(ctx, prio, shapes=UP_SHAPES):
    init_ctx(ctx)
    override_globals(config=global_config(ctx), cp=M.CupyStub(), NUM_DEVICES=M.env_of(ctx).num)
    shape = shapes[-1]
    for cand in shapes[:-1]:
        if ctx.branch(ctx.fresh("shape_" + cand, "bool").t):
            shape = cand
            break
    items = up_shape(ctx, shape)
    old = SymDict.fresh(ctx, "old")
    defaults = None
    if prio == "new-defaults" and (shape != "flat1" or ctx.branch(ctx.fresh("defaults_given", "bool").t)):
        defaults = SymDict.fresh(ctx, "defaults")  # arbitrary (possibly empty) mapping; None is only forked for the one-item shape
    e = fresh_str(ctx, "e") if prio == "new-defaults" else None
    if e is not None and defaults is not None:
        ctx.assume(z3.Implies(present(defaults.tree(), e), M.NE(defaults.tree())))  # a dict holding a key is non-empty
    return NS(old_handle=old, param_values=dict(old=old), new=ItemsMap(items), priority=prio, defaults=defaults, case=f"{prio}:{shape}", shape=shape,
              default_spelling=e)


def up_requires(s):
    """No precondition: since 'fix: update_defaults raised TypeError half-way' a scalar (or None) `defaults` simply means "no defaults"."""
    return []


def mark_external(m):
    """Mark a mapping argument (and its sub-mappings) so that storing it by reference is recorded by the dict model."""
    m.external = True
    if isinstance(m, ItemsMap):
        for _, v in m.items():
            if isinstance(v, (ItemsMap, SymDict)):
                mark_external(v)
    return m


def up_snapshot(s):
    # NB the engine stores the snapshot as `s.old`, which is also the name of update's first parameter: the parameter is kept as
    # s.old_handle (verify: passed through s.param_values; apply: stashed here before s.old is overwritten)
    g = s.ctx.ghost
    if not hasattr(s, "old_handle"):
        s.old_handle = s.old
    h = s.old_handle
    if s.mode == "verify":
        mark_external(s.new)
    return NS(tree=h.tree() if isinstance(h, SymDict) else None, n_cn=len(g.get("cn_calls", [])), n_up=len(g.get("update_calls", [])),
              n_alias=len(g.get("aliased", [])))


def up_ghost_verify(s):
    """Ghost of the verified body: canonical keys / intermediate states of the top-level items, nested ghosts from the recursive calls."""
    g = s.ctx.ghost
    h = s.old_handle
    # canonical names computed IN `old` (calls on other dicts, e.g. on `defaults`, are not part of this ghost)
    calls = [c for c in g.get("cn_calls", [])[s.old.n_cn:] if isinstance(c[1], SymDict) and c[1].root is h.root and c[1].path == h.path]
    subs = list(g.get("update_calls", [])[s.old.n_up:])
    items = s.new.items()
    if len(calls) != len(items):
        return None
    gs = []
    for i, ((k, v), call) in enumerate(zip(items, calls)):
        after = calls[i + 1][3] if i + 1 < len(calls) else s.old_handle.tree()
        gg = dict(c=call[2], after=after, sub=None, before=call[3])
        if isinstance(v, (ItemsMap, SymDict)):
            if subs:
                rec = subs.pop(0)
            else:
                # the section was NOT merged through a recursive update: state the section clauses against a blank ghost (they then
                # fail under their own names unless the body did the equivalent by other means)
                rec = dict(gs=fresh_ghost(s.ctx, v.items()) if isinstance(v, ItemsMap) else None, dt=EMPTY, dkey=None)
            gg["sub"], gg["dt"], gg["dkey"] = rec["gs"], rec["dt"], rec["dkey"]
        gs.append(gg)
    return gs


def nd_path_tag(ctx, t, dt, c):
    """Semantic tag of the path (so that obligation names do not depend on path numbering)."""
    def tri(f, yes, no):
        return yes if ctx.entails(f) else no if ctx.entails(z3.Not(f)) else "?"
    return ",".join([tri(present(t, c), "key-stored", "key-not-stored"), tri(present(dt, c), "default-under-store's-spelling", "no-default-under-store's-spelling")])


def up_ensures(s):
    if s.mode == "apply":
        return s._assumed
    gs = up_ghost_verify(s)
    if gs is None:
        # the body did not compute one canonical name per item: the clauses that need no ghost are still stated under their own names
        tag = f"[{s.case}{',defaults-given' if s.defaults is not None else ''}]"
        return [(tag + "returns-the-updated-dict", z3.BoolVal(s.result is s.old_handle)),
                (tag + "frame:no-sub-mapping-of-new-is-stored-by-reference(old-and-new-share-no-dict)", z3.BoolVal(len(s.ctx.ghost.get("aliased", [])) == s.old.n_alias)),
                ("ghost:canonical-key-per-item", z3.BoolVal(False))]
    t, t2 = s.old.tree, s.old_handle.tree()
    out = [("returns-the-updated-dict", z3.BoolVal(s.result is s.old_handle))] + ([("first-item-starts-from-the-old-state", gs[0]["before"] == t)] if gs else [])
    out.append(("frame:no-sub-mapping-of-new-is-stored-by-reference(old-and-new-share-no-dict)", z3.BoolVal(len(s.ctx.ghost.get("aliased", [])) == s.old.n_alias)))
    out += update_rel(t, t2, s.new.items(), gs, s.priority, dtree(s.defaults))
    if s.priority == "new-defaults" and s.shape == "flat1" and isinstance(s.defaults, SymDict):
        # property level: the current default of the key may be stored under the other spelling (witness e from setup)
        (k, v), e, c, dt = s.new.items()[0], s.default_spelling, gs[0]["c"], s.defaults.tree()
        match = AND(present(dt, e), norm(e) == norm(k), same_entry(dt, e, t, c))
        # "the current default of the key" is well defined when the defaults hold ONE spelling of the name (which is what merge() builds)
        only = forall(E_, implies(AND(present(dt, E_), TO_US(E_) == norm(k)), E_ == sterm(e)), patterns=[TO_US(E_)])
        out += [("unchanged-default-is-replaced[default-stored-under-the-store's-spelling]", implies(AND(match, sterm(e) == sterm(c)), entry_is(t2, c, v))),
                ("unchanged-default-is-replaced[default-stored-under-any-single-spelling]", implies(AND(match, only), entry_is(t2, c, v)))]
    return [(f"[{s.case}{',defaults-given' if s.defaults is not None else ''}]{a}", b) for a, b in out]


def defaults_key(defaults):
    """The key under which a handed-down defaults section hangs in its parent (ghost), None for None / a top-level mapping."""
    if isinstance(defaults, SymDict) and defaults.path:
        return Sym(defaults.path[-1])
    return None


def up_modifies(ctx, s):
    """Call sites: havoc `old` and describe the new state (enumerated mapping: update_rel; opaque mapping: UPD)."""
    old = s.old_handle
    if not isinstance(old, SymDict):
        raise OutOfSubset("update() of a non-modelled dict")
    old.check_live(ctx)
    t = old.tree()
    dt = dtree(s.defaults)
    if isinstance(s.new, ItemsMap):
        items = s.new.items()
        gs = fresh_ghost(ctx, items)
        t2 = gs[-1]["after"] if gs else t
        if gs:
            old._install(ctx, t2)
        s._assumed = update_rel(t, t2, items, gs, s.priority, dt)
        ctx.ghost.setdefault("update_calls", []).append(dict(gs=gs, dt=dt, dkey=defaults_key(s.defaults)))
    elif isinstance(s.new, SymDict):
        t2 = z3.Const(ctx.fresh_name("tree"), TREE)
        old._install(ctx, t2)
        s._assumed = [("opaque-mapping-merged", t2 == UPD(t, s.new.tree(), z3.IntVal(PRIO[s.priority]), dt))]
        ctx.ghost.setdefault("update_calls", []).append(dict(gs=None, dt=dt, dkey=defaults_key(s.defaults)))
    else:
        raise OutOfSubset(f"update() with new of type {type(s.new).__name__}")


def up_contract(prio, shapes=UP_SHAPES):
    def setup(ctx):
        return up_setup(ctx, prio, shapes)
    return Contract(f"{CFG}:update", setup=unpruned(setup), requires=up_requires, ensures=up_ensures, snapshot=up_snapshot,
                    modifies=up_modifies, result=lambda ctx, s: s.old_handle, recursive_by_contract=True,
                    note=f"priority {prio!r}; `new` ranges over the shapes {', '.join(shapes)} with arbitrary key strings and values; `old`, `defaults` arbitrary")


# the same function under several contract objects (priority x group of shapes) so that they are verified in parallel
C_UPD_NEW = up_contract("new", ("flat1", "flat2", "opaque-section", "empty"))
C_UPD_NEW2 = up_contract("new", ("nested1", "nested1+flat1", "nested2"))
C_UPD_OLD = up_contract("old", ("flat1", "flat2", "opaque-section"))
C_UPD_OLD2 = up_contract("old", ("nested1", "nested1+flat1", "nested2"))
C_UPD_ND = up_contract("new-defaults", ("flat1", "opaque-section"))
C_UPD_ND2 = up_contract("new-defaults", ("nested1",))


# ---- merge


def fold_defaults(trees):
    """merge(d1, ..., dn) of opaque mappings as a term: update applied left to right from the empty dict (priority 'new', no defaults)."""
    t = EMPTY
    for d in trees:
        t = UPD(t, d, z3.IntVal(PRIO["new"]), EMPTY)
    return t


def mg_setup(ctx):
    init_ctx(ctx)
    override_globals(config=global_config(ctx), cp=M.CupyStub(), NUM_DEVICES=M.env_of(ctx).num)
    shape = "nested-same-section"
    for cand in ("opaque0", "opaque1", "opaque2", "opaque3", "flat+flat"):
        if ctx.branch(ctx.fresh("shape_" + cand, "bool").t):
            shape = cand
            break
    if shape.startswith("opaque"):
        dicts = [SymDict.fresh(ctx, f"d{i}") for i in range(int(shape[-1]))]
    elif shape == "flat+flat":
        dicts = [ItemsMap(up_shape(ctx, "flat1")), ItemsMap([(fresh_nd_key(ctx, "k3"), Leaf(ctx.fresh("v3", "int")))])]
    else:
        k1 = fresh_nd_key(ctx, "k1")
        k2, k4 = fresh_nd_key(ctx, "k2"), fresh_nd_key(ctx, "k4")
        dicts = [ItemsMap([(k1, ItemsMap([(k2, Leaf(ctx.fresh("v2", "int")))]))]), ItemsMap([(k1, ItemsMap([(k4, Leaf(ctx.fresh("v4", "int")))]))])]
    for d in dicts:
        mark_external(d)
    return NS(varargs=tuple(dicts), dicts=tuple(dicts), shape=shape, case=shape)


def fresh_nd_key(ctx, name):
    k = fresh_str(ctx, name)
    ctx.assume(k.t != SV("device"))
    return k


def mg_snapshot(s):
    return NS(n_up=len(s.ctx.ghost.get("update_calls", [])), writes=[d.root.writes for d in s.dicts if isinstance(d, SymDict)],
              n_alias=len(s.ctx.ghost.get("aliased", [])))


def mg_ensures(s):
    r = s.result
    if not isinstance(r, SymDict):
        return [("returns-a-dict", z3.BoolVal(False))]
    out = [("returns-a-new-dict", z3.BoolVal(all(r is not d and (not isinstance(d, SymDict) or r.root is not d.root) for d in s.dicts))),
           ("arguments-unchanged", z3.BoolVal([d.root.writes for d in s.dicts if isinstance(d, SymDict)] == s.old.writes)),
           ("result-shares-no-dict-with-the-arguments", z3.BoolVal(len(s.ctx.ghost.get("aliased", [])) == s.old.n_alias))]
    t = r.tree()
    if all(isinstance(d, SymDict) for d in s.dicts):
        out.append(("result-is-update-folded-from-the-empty-dict", t == fold_defaults([d.tree() for d in s.dicts])))
        if not s.dicts:
            out.append(("no-arguments:empty", t == EMPTY))
    if s.mode == "apply":
        return out
    gss = [x["gs"] for x in s.ctx.ghost.get("update_calls", [])[s.old.n_up:]]
    if len(gss) != len(s.dicts) or (not s.shape.startswith("opaque") and any(g is None for g in gss)):
        return [(f"[{s.shape}]{a}", b) for a, b in out + [("ghost:one-update-per-argument", z3.BoolVal(False))]]
    if s.shape == "flat+flat":
        (k1, v1), (k3, v3) = s.dicts[0].items()[0], s.dicts[1].items()[0]
        c1, c3 = gss[0][0]["c"], gss[1][0]["c"]
        out += [("later-mapping-wins", entry_is(t, c3, v3)),
                ("earlier-key-kept-when-names-differ", implies(norm(k1) != norm(k3), entry_is(t, c1, v1))),
                ("no-key-dropped", AND(present(t, c1), present(t, c3))),
                ("canonical-names", AND(norm(c1) == norm(k1), norm(c3) == norm(k3)))]
    elif s.shape == "nested-same-section":
        (k1, m1), (_, m2) = s.dicts[0].items()[0], s.dicts[1].items()[0]
        (k2, v2), (k4, v4) = m1.items()[0], m2.items()[0]
        ca, cb = gss[0][0]["c"], gss[1][0]["c"]
        c2, c4 = gss[0][0]["sub"][0]["c"], gss[1][0]["sub"][0]["c"]
        sec = CF(t)[sterm(cb)]
        out += [("one-section-for-the-shared-name", AND(sterm(ca) == sterm(cb), is_dict(t, cb))),
                ("nested-merge-keeps-the-sibling-key", implies(norm(k2) != norm(k4), AND(entry_is(sec, c2, v2), entry_is(sec, c4, v4)))),
                ("later-value-present", entry_is(sec, c4, v4)),
                ("no-key-dropped", AND(present(sec, c2), present(sec, c4)))]
    return [(f"[{s.shape}]{a}", b) for a, b in out]


def mg_result(ctx, s):
    """Call sites: merge is `update` folded from a fresh empty dict - replay that with update's contract (any mix of opaque and enumerated mappings)."""
    interp = s.interp
    r = SymDict.empty(ctx, "merged")
    calls = ctx.ghost.setdefault("update_calls", [])
    n0 = len(calls)
    for d in s.dicts:
        if not isinstance(d, (SymDict, ItemsMap)):
            raise OutOfSubset("merge() of a non-modelled mapping")
        C_UPD_NEW.apply(interp, [r, d], {})
    s._merge_ghost = list(calls[n0:])
    del calls[n0:]  # the caller's ghost lists its OWN update calls only
    return r


C_MERGE = Contract(f"{CFG}:merge", setup=unpruned(mg_setup), ensures=mg_ensures, snapshot=mg_snapshot, result=mg_result)

# ---- update_defaults


def ud_setup(ctx, shapes=("flat1", "nested1", "device"), ns=(0, 1, 2)):
    init_ctx(ctx)
    env = M.env_of(ctx)
    for f in M.istr_facts(env.cur):
        ctx.assume(f)
    override_globals(config=global_config(ctx), cp=M.CupyStub(), NUM_DEVICES=env.num)
    n = ns[-1]
    for cand in ns[:-1]:
        if ctx.branch(ctx.fresh(f"defaults_len_{cand}", "bool").t):
            n = cand
            break
    defaults = [SymDict.fresh(ctx, f"defaults{i}") for i in range(n)]
    shape = shapes[-1]
    for cand in shapes[:-1]:
        if ctx.branch(ctx.fresh("shape_" + cand, "bool").t):
            shape = cand
            break
    case = shape
    if shape == "device":
        val = fresh_device_request(ctx, "dev", kinds=("str", "int"))
        items = [("device", val)]
        case += ":" + request_case(ctx, val, env, cpu_substring=True)
    else:
        items = up_shape(ctx, shape)
    new = ItemsMap(items)
    cfg = SymDict.fresh(ctx, "config")
    return NS(new=new, config=cfg, defaults=defaults, items=list(items), shape=shape, case=case, n=n)


def ud_requires(s):
    return []


def ud_snapshot(s):
    g = s.ctx.ghost
    return NS(tree=s.config.tree(), writes=s.config.root.writes, defaults=list(s.defaults), n_up=len(g.get("update_calls", [])),
              n_names=len(g.get("device_names", [])), dwrites=[d.root.writes for d in s.defaults])


def ud_ensures(s):
    g = s.ctx.ghost
    d = s.defaults
    out = [("defaults-stack-grows-by-exactly-the-new-mapping", z3.BoolVal(len(d) == len(s.old.defaults) + 1 and all(a is b for a, b in zip(d, s.old.defaults)) and d[-1] is s.new)),
           ("earlier-defaults-unchanged", z3.BoolVal([x.root.writes for x in s.old.defaults] == s.old.dwrites))]
    gss = [x["gs"] for x in g.get("update_calls", [])[s.old.n_up:]]
    if len(gss) != 1 or gss[0] is None:
        return out + [("ghost:one-update-of-the-store", z3.BoolVal(False))]
    ft = fold_defaults([x.tree() for x in s.old.defaults])
    t, t2 = s.old.tree, s.config.tree()
    items = s.new.items()
    if s.shape == "device":
        names = g.get("device_names", [])[s.old.n_names:]
        k, v = items[0]
        ok = (isinstance(v, str) and v == "cpu") or any(v is nm for (_, nm) in names)
        out.append(("device:new-defaults-hold-the-validated-device-name", z3.BoolVal(ok)))
    else:
        out.append(("new-defaults-values-kept-as-given", z3.BoolVal(all(a[1] is b[1] for a, b in zip(items, s.items)))))
    out += [("store:" + a, b) for a, b in update_rel(t, t2, items, gss[0], "new-defaults", ft)]
    return [(f"[{s.shape},{s.n}-earlier-defaults]{a}", b) for a, b in out]


def ud_rejected(s):
    if s.shape != "device":
        return z3.BoolVal(False)
    return item_rejected(s, "device", s.items[0][1])


def ud_contract(shapes, ns=(0, 1, 2)):
    return Contract(f"{CFG}:update_defaults", setup=unpruned(lambda ctx: ud_setup(ctx, shapes, ns)), requires=ud_requires, ensures=ud_ensures, snapshot=ud_snapshot,
                    raises={Exception: ud_rejected},
                    on_raise=lambda s, E: [("rejected-device-default-leaves-store-and-defaults-stack-unchanged",
                                            AND(s.config.tree() == s.old.tree, s.config.root.writes == s.old.writes,
                                                z3.BoolVal(len(s.defaults) == len(s.old.defaults) and all(a is b for a, b in zip(s.defaults, s.old.defaults)))))],
                    note="new defaults: one scalar item, one section with one item, or {'device': request}; 0..2 earlier (opaque) defaults; shapes " + ",".join(shapes))


C_UPDDEF = ud_contract(("flat1", "nested1"))
C_UPDDEF2 = ud_contract(("device",), (0, 1))
C_UPDDEF3 = ud_contract(("device",), (2,))

# ---- refresh

COLLECT = resolve(f"{CFG}:collect")


def rf_setup(ctx, ns=(0, 1, 2, 3), enum=None):
    init_ctx(ctx)
    override_globals(config=global_config(ctx), cp=M.CupyStub(), NUM_DEVICES=M.env_of(ctx).num)
    n = ns[-1]
    for cand in ns[:-1]:
        if ctx.branch(ctx.fresh(f"defaults_len_{cand}", "bool").t):
            n = cand
            break
    defaults = [SymDict.fresh(ctx, f"defaults{i}") for i in range(n)]
    enumerated = None
    if enum:
        # one default {k1: {k2: v}} written out, so that the post-state can be stated entry by entry (and absent key by absent key)
        k1, k2, v = fresh_nd_key(ctx, "k1"), fresh_nd_key(ctx, "k2"), Leaf(ctx.fresh("v2", "int"))
        enumerated = (k1, k2, v)
        defaults = [ItemsMap([(k1, ItemsMap([(k2, v)]))])]
        collected, tag = ItemsMap([]), "enumerated-default-section"
    elif ctx.branch(ctx.fresh("no_user_files", "bool").t):
        collected, tag = ItemsMap([]), "no-user-config"
    else:
        collected, tag = SymDict.fresh(ctx, "user_config"), "user-config"
    ctx.ghost["collected"] = collected
    # the store before the refresh is ARBITRARY: any keys, at any depth, also inside sections that the defaults create
    cfg = SymDict.fresh(ctx, "config")
    return NS(config=cfg, defaults=defaults, collected=collected, n=n, tag=tag, case=f"{n}-defaults,{tag}", enumerated=enumerated)


def rf_snapshot(s):
    return NS(defaults=list(s.defaults), dwrites=[d.root.writes for d in s.defaults if isinstance(d, SymDict)])


def rf_ensures(s):
    t2 = s.config.tree()
    out = [("defaults-stack-unchanged", z3.BoolVal(len(s.defaults) == len(s.old.defaults) and all(a is b for a, b in zip(s.defaults, s.old.defaults))
                                                    and [d.root.writes for d in s.defaults if isinstance(d, SymDict)] == s.old.dwrites))]
    if s.enumerated is not None:
        # WHOLE post-state, entry by entry: exactly the default section with exactly the default key; every other key - at the top
        # level AND inside the section - is absent, whatever the store held before (others_unchanged w.r.t. the EMPTY dict)
        k1, k2, v = s.enumerated
        e1, e2 = z3.String("e1!q"), z3.String("e2!q")
        sec_keys = lambda t: CF(t)
        out += [("enumerated:no-top-level-key-other-than-the-default-section-survives",
                 forall(e1, implies(present(t2, e1), AND(norm(e1) == norm(k1), is_dict(t2, e1))), patterns=[KF(t2)[e1]])),
                ("enumerated:the-default-section-exists", z3.Exists([e1], AND(is_dict(t2, e1), norm(e1) == norm(k1)))),
                ("enumerated:inside-the-default-section-only-the-default-key-with-the-default-value-survives",
                 forall([e1, e2], implies(AND(is_dict(t2, e1), present(CF(t2)[e1], e2)),
                                          AND(norm(e2) == norm(k2), KF(CF(t2)[e1])[e2] == LEAF, LF(CF(t2)[e1])[e2] == leaf_id(v))),
                        patterns=[KF(CF(t2)[e1])[e2]])),
                ("enumerated:the-default-key-is-there", z3.Exists([e1, e2], AND(is_dict(t2, e1), KF(CF(t2)[e1])[e2] == LEAF, LF(CF(t2)[e1])[e2] == leaf_id(v), norm(e2) == norm(k2))))]
        return [(f"[{s.case}]{a}", b) for a, b in out]
    ft = fold_defaults([d.tree() for d in s.defaults])
    if isinstance(s.collected, ItemsMap):
        out.append(("store-is-exactly-merge(*defaults)", t2 == ft))
    else:
        out.append(("store-is-merge(*defaults)-updated-with-the-user-configuration", t2 == UPD(ft, s.collected.tree(), z3.IntVal(PRIO["new"]), EMPTY)))
    if not s.defaults and isinstance(s.collected, ItemsMap):
        out.append(("nothing-accumulated:store-empty", t2 == EMPTY))
    return [(f"[{s.case}]{a}", b) for a, b in out]


def rf_contract(ns, enum=None):
    return Contract(f"{CFG}:refresh", setup=unpruned(lambda ctx: rf_setup(ctx, ns, enum)), ensures=rf_ensures, snapshot=rf_snapshot,
                    note="pre-state: an ARBITRARY store; defaults: " + ("one enumerated default {k1: {k2: v}} (post-state stated entry by entry)" if enum else f"{ns} opaque defaults") +
                         "; collect() is a parameter (empty, or an arbitrary user mapping); update is used through its contract")


# (several contract objects so that they are discharged in parallel)
C_REFRESH = rf_contract((0, 1))
C_REFRESH2 = rf_contract((2, 3))
C_REFRESH3 = rf_contract((1,), enum=True)

CONTRACTS = [C_CANON, C_ASSIGN, C_ASSIGN2, C_ASSIGN3, C_ASSIGN4, C_ASSIGN5, C_ASSIGN6, C_GET, C_VALIDATE, C_VALIDATE2, C_CHECK, C_CHECK2, C_INIT1, C_INIT2, C_INIT3, C_INIT4, C_ENTER, C_EXIT, C_SETDEV, C_GETDEV, C_DEVICE,
             C_UPD_NEW, C_UPD_NEW2, C_UPD_OLD, C_UPD_OLD2, C_UPD_ND, C_UPD_ND2, C_MERGE, C_UPDDEF, C_UPDDEF2, C_UPDDEF3, C_REFRESH, C_REFRESH2, C_REFRESH3]








# ================================================================================================
# property-level lemmas (from the contract statements alone)
# ================================================================================================


def _facts(*terms):
    out = []
    for t in terms:
        out += string_facts(t)
    return out


def entries_equal(ta, a, tb, b):
    a, b = sterm(a), sterm(b)
    return z3.And(KF(ta)[a] == KF(tb)[b], LF(ta)[a] == LF(tb)[b], CF(ta)[a] == CF(tb)[b])


def lemma_one_level_lww(ctx):
    """One level of the store, from canonical_name's and _assign's contracts: with the representation invariant
    Inv(t) = 'at most one stored spelling per normalised name, every stored key uses one spelling', assigning through key k
    (one spelling) is an update of the abstract last-writer-wins map  A(norm) = entry stored under the spelling of norm:
    Inv is preserved, a later lookup through ANY single-spelling key of the same normalised name finds the value, and lookups of
    every other name see the old entry."""
    t, t2 = z3.Const("t", TREE), z3.Const("t2", TREE)
    S_ = lambda n: z3.String(n)
    k, c, e0, e1, e2, q, cq, cq2 = map(S_, ("k", "c", "e0", "e1", "e2", "q", "cq", "cq2"))
    a, b = z3.String("a!q"), z3.String("b!q")
    v = z3.Int("v")

    names = (k, c, e0, e1, e2, q, cq, cq2)

    def inv(tt):
        # Inv(tt) instantiated at the named strings (ground instances of the two universally quantified clauses)
        return [implies(AND(present(tt, x), present(tt, y), norm(x) == norm(y)), x == y) for x in names for y in names if x is not y]

    def cn_inst(cc, kk, tt):
        # canonical_name's post with its quantified clause instantiated at the named strings
        return cn_post(cc, kk, tt, quantified=False) + [implies(AND(present(tt, x), norm(x) == norm(kk)), present(tt, cc)) for x in names]

    cn_post_ = cn_inst
    base = _facts(*names) + inv(t) + cn_inst(c, k, t)
    assign = [others_unchanged(t, t2, [c]), KF(t2)[c] == LEAF, LF(t2)[c] == v]   # _assign, level of the last path component
    return [
        ("canonical-name-is-THE-stored-spelling", base + [present(t, e0), norm(e0) == norm(k)], c == e0),
        ("new-spelling-only-when-no-spelling-is-stored", base + [z3.Not(present(t, c)), present(t, e0)], norm(e0) != norm(k)),
        ("Inv-preserved:one-spelling-per-name", base + assign + [present(t2, e1), present(t2, e2), norm(e1) == norm(e2)], e1 == e2),
        ("read-your-write-through-any-spelling", base + assign + [norm(q) == norm(k)] + cn_inst(cq2, q, t2), AND(cq2 == c, KF(t2)[cq2] == LEAF, LF(t2)[cq2] == v)),
        ("other-names-unaffected", base + assign + [norm(q) != norm(k)] + cn_inst(cq, q, t) + cn_inst(cq2, q, t2), AND(cq2 == cq, entries_equal(t, cq, t2, cq2))),
    ]


def lemma_nested_lww(ctx):
    """Two levels, from _assign's contract (assign_rel) and get's chain: after assigning v at the path (k0, k1), reading the
    path through the canonical keys returns v, and the sibling entries of both levels are untouched (no sibling key dropped)."""
    t, t2 = z3.Const("t", TREE), z3.Const("t2", TREE)
    k0, k1, c0, c1, sib0, sib1 = map(z3.String, ("k0", "k1", "c0", "c1", "sib0", "sib1"))
    v = Leaf(z3.Int("v"))
    rel = assign_rel(t, t2, [Sym(k0), Sym(k1)], [Sym(c0), Sym(c1)], v, None)
    child_old = z3.If(present(t, c0), CF(t)[c0], EMPTY)
    hyp = _facts(k0, k1, c0, c1) + list(rel) + list(M.EMPTY_FACTS) + [z3.Not(is_leaf(t, c0))]
    return [
        ("value-readable-at-the-canonical-path", hyp, entry_is_chain(t2, [c0, c1], v, None)),
        ("top-level-siblings-kept", hyp + [sib0 != c0], entries_equal(t, sib0, t2, sib0)),
        ("section-siblings-kept", hyp + [sib1 != c1], entries_equal(child_old, sib1, CF(t2)[c0], sib1)),
        ("section-sibling-present-before=>present-after", hyp + [sib1 != c1, is_dict(t, c0), present(CF(t)[c0], sib1)], present(CF(t2)[c0], sib1)),
    ]


def lemma_refresh(ctx):
    """refresh restores exactly the accumulated defaults: refresh's post and merge's post name the same state."""
    d = [z3.Const(f"d{i}", TREE) for i in range(3)]
    store, merged, store_ud, dnew = z3.Const("store", TREE), z3.Const("merged", TREE), z3.Const("store_ud", TREE), z3.Const("dnew", TREE)
    out = []
    for n in range(4):
        ft = fold_defaults(d[:n])
        out.append((f"refresh-without-user-config=merge(*defaults)[{n}-defaults]", [store == ft, merged == ft], store == merged))
    # update_defaults appends; a following refresh folds the longer stack: merge(old..., new)
    out.append(("refresh-after-update_defaults-includes-the-new-defaults", [store == fold_defaults(d[:2] + [dnew])],
                store == UPD(fold_defaults(d[:2]), dnew, z3.IntVal(PRIO["new"]), EMPTY)))
    return out


def lemma_new_defaults_spelling(ctx):
    """Property level: update(priority='new-defaults') must replace a value that still equals its current default also when the
    defaults store that key under the other spelling.  Hypotheses: the (proved) one-item statement of update."""
    tb, ta, dt = z3.Const("old", TREE), z3.Const("new_state", TREE), z3.Const("defaults", TREE)
    k, c, e = z3.String("k"), z3.String("c"), z3.String("e")
    v = Leaf(z3.Int("v"))
    g = dict(c=Sym(c), after=ta, sub=None)
    hyp = _facts(k, c, e) + [f for _, f in step_rel(tb, ta, Sym(k), v, g, "new-defaults", dt)] + [z3.Implies(present(dt, e), M.NE(dt)), z3.Implies(present(dt, c), M.NE(dt))]
    match = AND(present(dt, e), norm(e) == norm(k), same_entry(dt, e, tb, c))
    return [("default-under-the-store's-spelling", hyp + [match, e == c], entry_is(ta, c, v))]


def lemma_with_restores(ctx):
    """`with set({key: v})`: from _assign's contract (state relation + what it records) and __exit__'s contract (restore_rel):
    after the block the written path looks as before (same entry, or absent again) and no sibling at any level changed."""
    t, t1, t2 = z3.Const("t", TREE), z3.Const("t_inside", TREE), z3.Const("t_after", TREE)
    k0, k1, c0, c1, sib = map(z3.String, ("k0", "k1", "c0", "c1", "sib"))
    v = Leaf(z3.Int("v"))
    facts = _facts(k0, k1, c0, c1) + list(M.EMPTY_FACTS)

    def same_view(ta, tb, c):
        return z3.And(KF(ta)[c] == KF(tb)[c], z3.Implies(KF(ta)[c] == LEAF, LF(ta)[c] == LF(tb)[c]), z3.Implies(KF(ta)[c] == DICT, CF(ta)[c] == CF(tb)[c]))

    def previous(tt, c, as_dict):
        return SymDict(M.DictRoot(CF(tt)[c], "previous")) if as_dict else Leaf(Sym(LF(tt)[c]))

    out = []
    a1 = list(assign_rel(t, t1, [Sym(k0)], [Sym(c0)], v, None, quantified=False))
    for kind, as_dict in (("scalar", False), ("section", True)):
        hyp = facts + a1 + [is_dict(t, c0) if as_dict else is_leaf(t, c0)] + restore_rel(t1, t2, "replace", [Sym(c0)], previous(t, c0, as_dict))
        out.append((f"flat-key:replaced-{kind}-is-back", hyp, same_view(t, t2, c0)))
        out.append((f"flat-key:replaced-{kind}:siblings-as-before", hyp + [sib != c0], entries_equal(t, sib, t2, sib)))
    hyp = facts + a1 + [z3.Not(present(t, c0))] + restore_rel(t1, t2, "insert", [Sym(c0)], None)
    out.append(("flat-key:inserted-key-is-gone", hyp, z3.Not(present(t2, c0))))
    out.append(("flat-key:inserted:siblings-as-before", hyp + [sib != c0], entries_equal(t, sib, t2, sib)))
    a2 = list(assign_rel(t, t1, [Sym(k0), Sym(k1)], [Sym(c0), Sym(c1)], v, None, quantified=False))
    ch, ch2 = CF(t)[c0], CF(t2)[c0]
    hyp = facts + a2 + [is_dict(t, c0), is_leaf(ch, c1)] + restore_rel(t1, t2, "replace", [Sym(c0), Sym(c1)], previous(ch, c1, False))
    out += [("dotted-key:replaced-value-is-back", hyp, z3.And(is_dict(t2, c0), same_view(ch, ch2, c1))),
            ("dotted-key:replaced:section-siblings-as-before", hyp + [sib != c1], entries_equal(ch, sib, ch2, sib)),
            ("dotted-key:replaced:top-level-siblings-as-before", hyp + [sib != c0], entries_equal(t, sib, t2, sib))]
    hyp = facts + a2 + [z3.Not(present(t, c0))] + restore_rel(t1, t2, "insert", [Sym(c0)], None)
    out += [("dotted-key:inserted-section-is-gone", hyp, z3.Not(present(t2, c0))),
            ("dotted-key:inserted-section:siblings-as-before", hyp + [sib != c0], entries_equal(t, sib, t2, sib))]
    hyp = facts + a2 + [is_dict(t, c0), z3.Not(present(ch, c1))] + restore_rel(t1, t2, "insert", [Sym(c0), Sym(c1)], None)
    out += [("dotted-key:inserted-key-is-gone-from-its-section", hyp, z3.And(is_dict(t2, c0), z3.Not(present(ch2, c1)))),
            ("dotted-key:inserted-key:section-siblings-as-before", hyp + [sib != c1], entries_equal(ch, sib, ch2, sib)),
            ("dotted-key:inserted-key:top-level-siblings-as-before", hyp + [sib != c0], entries_equal(t, sib, t2, sib))]
    return out


LEMMAS = [
    Lemma("with-statement-restores-previous-values", lemma_with_restores, uses=["set._assign", "set.__exit__"]),
    Lemma("one-level-last-writer-wins", lemma_one_level_lww, uses=["canonical_name", "set._assign"]),
    Lemma("nested-assignment-keeps-siblings", lemma_nested_lww, uses=["set._assign", "get"]),
    Lemma("refresh-restores-accumulated-defaults", lemma_refresh, uses=["refresh", "merge", "update_defaults"]),
    Lemma("new-defaults-rule-identifies-spellings", lemma_new_defaults_spelling, uses=["update"]),
]

TRUSTED = [
    "dict model (pyvc/lib/c19_models.py): a nested dict is a tree state with per-key kind / scalar identity / nested state; d[k]=v is an array store; "
    "handles read through the root (reference semantics for tree-shaped stores); a dict literal {} is the empty state; dict.clear / dict.get / `in` / truthiness",
    "dict iteration order: the keys of a dict in state t are KEYAT(t,0..NKEYS(t)-1); every listed key is present and every present key is listed "
    "(used for the scan in canonical_name, verified by loop invariant); dict.setdefault / dict.pop; overwriting or removing an entry detaches "
    "the handles into the old nested dict (they keep denoting that dict object)",
    "str model: ==, substring `in`, lower (idempotent, length preserving, fixes cpu/mps/gpu/cuda and their prefixes), split('.') (join(parts)==s, no '.' in parts, "
    "<=3 components enumerated), single-character replace('_','-') / replace('-','_') as uninterpreted maps with the ground facts STRING_FACTS "
    "(validated on every run against CPython on all strings of length <=5 over {a,-,_,.}), replace('__','.') uninterpreted",
    "torch.device(str): valid strings are '<type>' or '<type>:<non-negative int>'; the only type whose valid string contains 'cuda'/'cpu' is 'cuda'/'cpu' "
    "(validated on 42 strings against torch on every run); torch.cuda.is_available / torch.mps.is_available / current_device / set_device and "
    "quantem.core.config.NUM_DEVICES form a symbolic environment fixed per path (current_device >= 0, NUM_DEVICES >= 0)",
    "str(int) contains none of the letters c, g, m and no '.', ':', '_'; str(x) of any other object is an arbitrary string",
    "update(old, <opaque mapping>, priority, defaults) is a function of the states of its arguments (uninterpreted UPD): used only where `new` is not enumerated "
    "(refresh / merge / update_defaults over the accumulated defaults)",
    "collect() (yaml files on disk) is a parameter of refresh: either empty or an arbitrary mapping",
    "pyvc engine (AST interpreter, call-by-contract, path exploration), z3, cvc5",
]
ASSUMPTIONS = [
    "BOUND __exit__: the record holds no entry, one replace/insert entry at depth 1 or 2, or two depth-1 entries (keys, previous values and store arbitrary); "
    "the composition `with set({key: v})` = _assign then __exit__ is a lemma for flat and two-component keys",
    "BOUND path/key shape: dotted keys have <=3 components (set._assign: path length 1..3, each step proved through the contract of the shorter path); "
    "set(): mapping form with 1 or 2 items (2 items: undotted keys, scalar values), keyword form with three representative names",
    "BOUND `new` of update(): shapes flat1, flat2, nested1, nested1+flat1, nested2, opaque-section, empty ('new-defaults': flat1, nested1, opaque-section) - "
    "key strings, values, the old dict and the defaults are arbitrary; update_defaults: one scalar item / one section with one item / {'device': request}; 0..2 earlier defaults; refresh: 0..3 defaults",
    "configuration values are opaque scalars (identity only) or nested mappings; scalar values are not containers (a str value behaves the same for get, shown by the bounded replay)",
    "keys other than 'device' inside update()/update_defaults() shapes (the 'device' key has its own shapes); device requests: str, int, None, torch.device, and 'any other object'",
    "set() with a mapping VALUE replaces the whole section (last writer wins for that key); this is taken to satisfy the statement - "
    "'nested updates merge' is read as a claim about update / update_defaults / dotted-path set, which are proved not to drop siblings",
    "module-level state (`config`, `defaults`, NUM_DEVICES, cp) is modelled as explicit symbolic state; check_key_val reads config['has_cupy'] (required to be a stored scalar)",
    "no concurrency (config_lock is unused by the code)",
]
EXPLANATION = ("VCs generated from the real source of quantem/core/config.py (canonical_name, set.__init__/_assign/__enter__, get, update, merge, update_defaults, refresh, "
               "check_key_val, validate_device, set_device, get_device, device) over symbolic strings and symbolic nested dict states, discharged by z3/cvc5; "
               "property lemmas (one-level last-writer-wins with spelling-normalised keys, sibling preservation, refresh = merge(defaults)) from the contracts alone")


# ================================================================================================
# run-time oracles: the same statements evaluated on the REAL functions (replay of counter-models, bounded stand-ins)
# ================================================================================================


def _cfgmod():
    import quantem.core.config as cfg
    return cfg


def nrm(k):
    return k.replace("-", "_")


class simulated_env:
    """Monkey-patch the hardware queries used by validate_device / check_key_val (inside the checker process only)."""

    def __init__(self, cuda=False, mps=False, num=0, cur=0):
        self.v = dict(cuda=bool(cuda), mps=bool(mps), num=int(num), cur=int(cur))
        self.selected = []

    def __enter__(self):
        import torch
        cfg = _cfgmod()
        self.saved = (torch.cuda.is_available, torch.mps.is_available, torch.cuda.current_device, torch.cuda.set_device, cfg.NUM_DEVICES)
        torch.cuda.is_available = lambda: self.v["cuda"]
        torch.mps.is_available = lambda: self.v["mps"]
        torch.cuda.current_device = lambda: self.v["cur"]
        torch.cuda.set_device = lambda i: self.selected.append(i)
        cfg.NUM_DEVICES = self.v["num"]
        return self

    def __exit__(self, *a):
        import torch
        cfg = _cfgmod()
        torch.cuda.is_available, torch.mps.is_available, torch.cuda.current_device, torch.cuda.set_device, cfg.NUM_DEVICES = self.saved


def device_expectation(dev, env):
    """Property-level expectation for a device request: None = must be rejected, otherwise the stored canonical name."""
    import torch
    cuda, mps, num, cur = env["cuda"], env["mps"], env["num"], env["cur"]
    want = None  # ('cuda', idx) | ('mps',) | ('cpu',)
    if dev is None:
        want = ("cuda", cur) if cuda else ("mps",) if mps else ("cpu",)
    elif isinstance(dev, bool):
        want = None
    elif isinstance(dev, str):
        lo = dev.lower()
        if lo == "cpu":
            want = ("cpu",)
        elif lo == "mps":
            want = ("mps",)
        elif lo == "gpu":
            want = ("cuda", cur) if cuda else ("mps",) if mps else ("unavailable",)
        else:
            try:
                d = torch.device(dev)
            except Exception:
                d = None
            if d is not None and d.type == "cuda":
                want = ("cuda", d.index if d.index is not None else cur)
    elif isinstance(dev, int):
        want = ("cuda", dev) if dev >= 0 else None
    elif isinstance(dev, torch.device):
        want = ("cuda", dev.index if dev.index is not None else cur) if dev.type == "cuda" else (dev.type,) if dev.type in ("mps", "cpu") else None
    if want is None or want[0] == "unavailable":
        return None
    if want[0] == "cuda":
        return f"cuda:{want[1]}" if cuda and 0 <= want[1] < num else None
    if want[0] == "mps":
        return "mps" if mps else None
    return "cpu"


def _dev_from_json(d):
    import torch
    if isinstance(d, dict) and "torch.device" in d:
        return torch.device(d["torch.device"])
    if isinstance(d, dict) and "list" in d:
        return list(d["list"])
    if isinstance(d, dict) and "float" in d:
        return float(d["float"])
    return d


def rt_device(inp):
    """set({'device': dev}) on a private store: accepted iff well formed and available; a rejected request leaves the store unchanged."""
    cfg = _cfgmod()
    dev = _dev_from_json(inp["dev"])
    env = dict(cuda=inp.get("cuda", False), mps=inp.get("mps", False), num=inp.get("num", 0), cur=inp.get("cur", 0))
    store = {"device": "cpu", "other": 1}
    before = dict(store)
    exp = device_expectation(dev, env)
    how = inp.get("via", "set")
    with simulated_env(**env):
        try:
            if how == "check_key_val":
                _, val = cfg.check_key_val("device", dev)
                store["device"] = val
            elif how == "validate_device":
                val, _ = cfg.validate_device(dev)
                store["device"] = val
            elif how == "update_defaults":
                cfg.update_defaults({"device": dev}, config=store, defaults=[{"device": "cpu", "other": 1}])
            else:
                cfg.set({"device": dev}, config=store)
            raised = None
        except Exception as e:
            raised = e
    if raised is not None:
        ok = exp is None and store == before
        return dict(violated=not ok, observed=f"raised {type(raised).__name__}; store {'unchanged' if store == before else 'CHANGED to ' + repr(store)}",
                    expected="rejected, store unchanged" if exp is None else f"accepted as {exp!r}")
    got = store.get("device")
    ok = exp is not None and got == exp and store.get("other") == 1
    return dict(violated=not ok, observed=f"accepted, stored device {got!r}", expected="rejected (malformed or unavailable), store unchanged" if exp is None else f"stored device {exp!r}")


def klass_device(inp, res):
    d = inp["dev"]
    if isinstance(d, str):
        lo = d.lower()
        if "cpu" in d and lo != "cpu":
            return "string-containing-cpu-accepted-as-cpu"
        if "gpu" in lo and lo != "gpu" and "cuda" not in lo:
            return "string-containing-gpu-accepted-as-gpu"
    if isinstance(d, dict) and "cpu" in str(_dev_from_json(d)) and "torch.device" not in d:
        return "non-string-whose-text-contains-cpu-accepted-as-cpu"
    return "any"


DEVICE_STRINGS = ["cpu", "CPU", "Cpu", "mps", "MPS", "gpu", "GPU", "cuda", "cuda:0", "cuda:1", "cuda:2", "cuda:7", "CUDA", "cuda:-1", "cuda:x", "cuda0",
                  "xcpux", "cpu:0", "mycpu", "xgpux", "gpu0", "egpu", "", "tpu", "xla", "meta", "cud", " cpu"]


def fam_device(tier="quick", seed=0):
    envs = [dict(cuda=False, mps=False, num=0, cur=0), dict(cuda=True, mps=False, num=2, cur=1), dict(cuda=False, mps=True, num=0, cur=0),
            dict(cuda=True, mps=True, num=1, cur=0)]
    vias = ("set", "check_key_val", "update_defaults") if tier == "quick" else ("set", "check_key_val", "update_defaults", "validate_device")
    reqs = list(DEVICE_STRINGS) + [0, 1, 2, -1, None, {"float": 1.5}, {"list": ["cpu"]}, {"list": ["gpu"]}, {"torch.device": "cpu"}, {"torch.device": "cuda:1"},
                                   {"torch.device": "cuda"}, {"torch.device": "mps"}, {"torch.device": "meta"}]
    for env in envs:
        for via in vias:
            for d in reqs:
                if via == "validate_device" and isinstance(d, str) and "cpu" in d:
                    continue  # the 'cpu' shortcut lives in check_key_val
                yield dict(dev=d, via=via, **env)


def conc_device(prefix, via):
    def conc(ev):
        env = dict(cuda=bool(ev("cuda_available", False)), mps=bool(ev("mps_available", False)), num=ev("NUM_DEVICES", 0), cur=ev("cuda_current_device", 0))
        if ev(prefix + "_is_none", False):
            dev = None
        elif ev(prefix + "_is_str", None) or ev(prefix + "_str") is not None and not ev(prefix + "_is_int", False):
            dev = ev(prefix + "_str", "")
        elif ev(prefix + "_int") is not None:
            dev = ev(prefix + "_int")
        elif ev(prefix + "_type") is not None:
            ix = None if ev(prefix + "_index_is_none", True) else ev(prefix + "_index", 0)
            dev = {"torch.device": ev(prefix + "_type") + ("" if ix is None else f":{ix}")}
        elif ev("str_of_val") is not None and "cpu" in ev("str_of_val"):
            dev = {"list": [ev("str_of_val")]}  # an object whose text contains the model's string
        else:
            return None
        if isinstance(dev, str):
            # the model interprets `lower` freely: if it disagrees with CPython on this string, replay the model's lower-case form
            # instead (every fact the code tests - substring / equality of the lower-cased text - is then realised)
            m = getattr(ev, "model", None)
            try:
                if m is not None:
                    lo = m.eval(M.LOWER(z3.String(prefix + "_str!0")), model_completion=True)
                    if z3.is_string_value(lo) and lo.as_string() != dev.lower() and "cpu" not in dev:
                        dev = lo.as_string()
            except Exception:
                pass
            if any(ord(ch) > 126 or ord(ch) < 32 for ch in dev):
                return None
        return dict(dev=dev, via=via, **env)
    return conc


def fam_device_via(via):
    def fam():
        for inp in fam_device("thorough"):
            if inp["via"] == via:
                yield inp
    return fam


# ---- canonical_name


def rt_canon(inp):
    cfg = _cfgmod()
    k, stored = inp["k"], list(inp["stored"])
    d = {e: i for i, e in enumerate(stored)}
    r = cfg.canonical_name(k, d)
    problems = []
    if nrm(r) != nrm(k):
        problems.append(f"result {r!r} is not a spelling of {k!r}")
    if k in d and r != k:
        problems.append("exact spelling present but not returned")
    if r != k and r not in d:
        problems.append("result is neither the given key nor an existing key")
    other = [e for e in d if nrm(e) == nrm(k)]
    if other and r not in d:
        problems.append(f"{other[0]!r} is stored and is a '-'/'_' spelling of {k!r}, but canonical_name returned {r!r} which is not stored (a second entry would be created)")
    return dict(violated=bool(problems), observed="; ".join(problems) or "ok", expected="an existing spelling of the key whenever one is stored")


def small_keys():
    import itertools
    out = []
    for n in (1, 2, 3):
        for seps in itertools.product("-_", repeat=n - 1):
            parts = ["a", "b", "c"][:n]
            out.append("".join(p + (seps[i] if i < n - 1 else "") for i, p in enumerate(parts)))
    return out  # a, a-b, a_b, a-b-c, a-b_c, a_b-c, a_b_c


def fam_canon(tier="quick", seed=0):
    ks = small_keys()
    for k in ks:
        yield dict(k=k, stored=[])
        for e in ks:
            yield dict(k=k, stored=[e])
            yield dict(k=k, stored=[e, "zzz"])


def conc_canon(ev):
    k, e = ev("k"), ev("e")
    if k is None or e is None:
        return None
    return dict(k=k, stored=[e])


def klass_spelling(keys):
    return "mixed-spelling-key" if any("-" in p and "_" in p for k in keys for p in str(k).split(".")) else "any"


# ---- histories against a dictionary reference model with normalised keys

MISSING = "<missing>"


class RefStore:
    """Reference: plain nested dicts with '-' -> '_' normalised keys; the documented priority rules of update / update_defaults."""

    def __init__(self):
        self.store, self.defaults = {}, []

    @staticmethod
    def normalise(m):
        return {nrm(k): RefStore.normalise(v) if isinstance(v, dict) else v for k, v in m.items()}

    @staticmethod
    def merge_into(old, new, priority="new", defaults=None):
        for k, v in new.items():
            if isinstance(v, dict):
                if not isinstance(old.get(k), dict):
                    old[k] = {}
                RefStore.merge_into(old[k], v, priority, defaults.get(k) if isinstance(defaults, dict) else None)
            elif priority == "new" or k not in old or (priority == "new-defaults" and isinstance(defaults, dict) and k in defaults and defaults[k] == old[k]):
                old[k] = v
        return old

    def merged_defaults(self):
        r = {}
        for d in self.defaults:
            RefStore.merge_into(r, d)
        return r

    def set(self, path, value):
        d = self.store
        parts = [nrm(p) for p in path.split(".")]
        for p in parts[:-1]:
            if p not in d:
                d[p] = {}
            d = d[p]
            if not isinstance(d, dict):
                raise TypeError("scalar on the path")
        d[parts[-1]] = RefStore.normalise(value) if isinstance(value, dict) else value

    def update_defaults(self, new):
        import copy
        new = RefStore.normalise(new)
        cur = self.merged_defaults()
        self.defaults.append(copy.deepcopy(new))
        RefStore.merge_into(self.store, copy.deepcopy(new), "new-defaults", cur)

    def refresh(self):
        self.store = self.merged_defaults()

    def get(self, path):
        d = self.store
        for p in path.split("."):
            if not isinstance(d, dict) or nrm(p) not in d:
                return MISSING
            d = d[nrm(p)]
        return d


def _normalised(v):
    return RefStore.normalise(v) if isinstance(v, dict) else v


PROBE_PATHS = ["a-b", "a_b", "c", "c.d-e", "c.d_e", "a-b.x", "m-n-o", "m_n-o", "m_n_o", "m-n_o"]


def rt_history(inp):
    """Run a history on the REAL functions with an explicit store (config=, defaults=) and compare every probe with the reference."""
    import copy
    cfg = _cfgmod()
    store, defaults = {}, []
    ref = RefStore()
    problems = []
    probe, step = None, -1
    for step, op in enumerate(inp["ops"]):
        kind = op[0]
        exp_exc = real_exc = None
        try:
            if kind == "set":
                ref.set(op[1], copy.deepcopy(op[2]))
            elif kind == "setkw":
                ref.set(op[1].replace("__", "."), copy.deepcopy(op[2]))
            elif kind == "defaults":
                ref.update_defaults(copy.deepcopy(op[1]))
            elif kind == "refresh":
                ref.refresh()
        except TypeError as e:
            exp_exc = e
        try:
            if kind == "set":
                cfg.set({op[1]: copy.deepcopy(op[2])}, config=store)
            elif kind == "setkw":
                cfg.set(None, store, **{op[1]: copy.deepcopy(op[2])})
            elif kind == "defaults":
                cfg.update_defaults(copy.deepcopy(op[1]), config=store, defaults=defaults)
            elif kind == "refresh":
                cfg.refresh(config=store, defaults=defaults, path="/nonexistent/quantem-config")
        except Exception as e:
            real_exc = e
        if (exp_exc is None) != (real_exc is None):
            problems.append(f"step {step} {op}: real {'raised ' + type(real_exc).__name__ if real_exc else 'returned'}, reference {'raises' if exp_exc else 'returns'}")
            break
        if real_exc is not None:
            break
        for p in PROBE_PATHS:
            got = cfg.get(p, default=MISSING, config=store)
            want = ref.get(p)
            if _normalised(got) != want:
                problems.append(f"after step {step} {op}: get({p!r}) = {got!r}, reference (keys normalised) = {want!r}")
                probe = p
                break
        if problems:
            break
    return dict(violated=bool(problems), observed="; ".join(problems) or "ok", probe=probe, steps_run=step + 1 if inp["ops"] else 0,
                expected="get returns the most recently written value of the key with '-'/'_' spellings identified; refresh = accumulated defaults; siblings kept")


def history_ops(mixed=True):
    ops = [("set", "a-b", 1), ("set", "a_b", 2), ("set", "c.d-e", 3), ("set", "c.d_e", 4), ("set", "c", {"d-e": 5, "f": 6}), ("set", "a-b.x", 7),
           ("setkw", "a_b", 8), ("setkw", "c__d_e", 9),
           ("defaults", {"a_b": 10}), ("defaults", {"c": {"d-e": 11, "g": 12}}), ("defaults", {"a-b": 1}), ("defaults", {"a_b": 1}), ("defaults", {"c": 7}), ("refresh",)]
    if mixed:
        ops += [("set", "m-n-o", 20), ("set", "m_n-o", 21), ("set", "m_n_o", 22), ("defaults", {"m-n_o": 23})]
    return ops


def fam_history(tier="quick", seed=0):
    import itertools
    ops = history_ops()
    depth = 3 if tier == "quick" else 4
    for n in range(1, depth + 1):
        for h in itertools.product(range(len(ops)), repeat=n):
            yield dict(ops=[list(ops[i]) if not isinstance(ops[i], tuple) else list(ops[i]) for i in h])


def _dict_keys(m):
    out = []
    for k, v in (m or {}).items():
        out.append(k)
        if isinstance(v, dict):
            out += _dict_keys(v)
    return out


def other_spelling_in_defaults(store_keys, default_keys):
    """Some default is stored under a different (single-spelling) spelling than the store uses for the same key."""
    return any(nrm(a) == nrm(b) and a != b for a in store_keys for b in default_keys)


def klass_history(inp, res):
    keys, set_keys, def_keys = [], [], []
    for op in inp["ops"][:res.get("steps_run") or None]:
        if op[0] in ("set", "setkw"):
            ks = [p for p in op[1].replace("__", ".").split(".")] + (_dict_keys(op[2]) if isinstance(op[2], dict) else [])
            keys += ks
            set_keys += ks
        elif op[0] == "defaults":
            keys += _dict_keys(op[1])
            def_keys += _dict_keys(op[1])
    if res.get("probe"):
        keys.append(res["probe"])
    if "real raised TypeError, reference returns" in str(res.get("observed")) and inp["ops"][(res.get("steps_run") or 1) - 1][0] == "defaults":
        return "update_defaults:scalar-default-where-new-defaults-have-a-section"
    k = klass_spelling(keys)
    if k == "any" and other_spelling_in_defaults(set_keys + def_keys, def_keys):
        return "new-defaults:section-equal-to-its-default-up-to-nested-spelling"
    return k


def fam_refresh():
    """Histories that end in refresh (fallback search for the refresh contract): every pair of earlier operations, then refresh."""
    import itertools
    ops = history_ops(mixed=False)
    yield dict(ops=[["refresh"]])
    for n in (1, 2):
        for h in itertools.product(range(len(ops)), repeat=n):
            yield dict(ops=[list(ops[i]) for i in h] + [["refresh"]])


def fam_history_small():
    """Small family used as fallback search when a store obligation fails (no mixed spellings: those are a known class)."""
    import itertools
    ops = history_ops(mixed=False)
    for n in (1, 2):
        for h in itertools.product(range(len(ops)), repeat=n):
            yield dict(ops=[list(ops[i]) for i in h])


# ---- update / merge on small inputs (sibling preservation, priority rules) against the reference merge


def rt_update(inp):
    import copy
    cfg = _cfgmod()
    old, new, prio, dfl = copy.deepcopy(inp["old"]), copy.deepcopy(inp["new"]), inp.get("priority", "new"), copy.deepcopy(inp.get("defaults"))
    want = RefStore.merge_into(RefStore.normalise(old), RefStore.normalise(new), prio, RefStore.normalise(dfl) if dfl is not None else None)
    try:
        got = cfg.update(old, new, priority=prio, defaults=dfl)
    except Exception as e:
        return dict(violated=True, observed=f"raised {type(e).__name__}: {e}", expected=f"{want!r}")
    problems = []
    if got is not old:
        problems.append("does not return the updated dict")
    if RefStore.normalise(got) != want:
        problems.append(f"result {got!r} differs from the reference merge {want!r} (keys normalised)")
    if len(RefStore.normalise(got)) != len(got):
        problems.append(f"result holds two spellings of one key: {sorted(got)}")
    return dict(violated=bool(problems), observed="; ".join(problems) or "ok", expected="recursive merge by priority, no sibling dropped, one entry per key")


def fam_update(tier="quick", seed=0):
    olds = [{}, {"a-b": 1}, {"a_b": 1, "c": {"d-e": 2, "f": 3}}, {"c": 5}, {"c": {"d_e": 2}}, {"c": None}]
    news = [{}, {"a_b": 9}, {"a-b": 9, "z": 8}, {"c": {"d_e": 7}}, {"c": {"g": 6}, "a-b": 4}, {"c": {"d-e": 7, "h": {"i": 1}}}, {"c": 4}]
    dfls = [None, {}, {"a-b": 1}, {"a_b": 1, "c": {"d-e": 2}}, {"c": {"d_e": 2, "f": 3}}]
    for o in olds:
        for n in news:
            for prio in ("new", "old"):
                yield dict(old=o, new=n, priority=prio, defaults=None)
            for d in dfls:
                yield dict(old=o, new=n, priority="new-defaults", defaults=d)


def klass_update(inp, res):
    k = klass_spelling(_dict_keys(inp["old"]) + _dict_keys(inp["new"]) + _dict_keys(inp.get("defaults")))
    if k == "any" and inp.get("priority") == "new-defaults" and other_spelling_in_defaults(_dict_keys(inp["old"]) + _dict_keys(inp["new"]), _dict_keys(inp.get("defaults"))):
        return "new-defaults:section-equal-to-its-default-up-to-nested-spelling"
    return k


# ---- context manager


def rt_with(inp):
    import copy
    cfg = _cfgmod()
    store = copy.deepcopy(inp["store"])
    before = copy.deepcopy(store)
    try:
        with cfg.set(copy.deepcopy(inp["arg"]), config=store) as c:
            inside = copy.deepcopy(store)
            same = c is store
    except Exception as e:
        return dict(violated=True, observed=f"`with set(...)` raised {type(e).__name__}: {e}", expected="values applied inside the block and restored on exit")
    ref = RefStore()
    ref.store = RefStore.normalise(before)
    for k, v in inp["arg"].items():
        ref.set(k, copy.deepcopy(v))
    problems = []
    if not same:
        problems.append("__enter__ does not return the store")
    if RefStore.normalise(inside) != ref.store:
        problems.append(f"inside the block the store is {inside!r}")
    if store != before:
        problems.append(f"after the block the store is {store!r}, before it was {before!r}")
    return dict(violated=bool(problems), observed="; ".join(problems) or "ok", expected="values applied inside the block and previous values restored on exit")


def fam_with(tier="quick", seed=0):
    for store in ({}, {"a-b": 1}, {"a_b": 1, "c": {"d": 2, "e": 3}}):
        for arg in ({"a-b": 5}, {"c.d": 6}, {"new": 1}, {"c": {"d": 9}}, {"a_b": 5, "c.z": 1}):
            yield dict(store=store, arg=arg)


def rt_string_facts(inp):
    n, bad = M.validate_string_facts(inp["max_len"], inp["alphabet"])
    return dict(violated=bool(bad), observed=f"{n} strings checked; counterexamples {bad[:3]}", expected="STRING_FACTS / split facts hold for CPython str")


def rt_torch_device_facts(inp):
    """The trusted facts about torch.device(str) used by the model, on concrete strings."""
    import torch
    s = inp["s"]
    try:
        d = torch.device(s)
    except Exception:
        d = None
    problems = []
    if d is not None:
        if d.index is None and s != d.type:
            problems.append("valid string without index is not the type name")
        if d.index is not None and (s != f"{d.type}:{d.index}" or d.index < 0):
            problems.append("valid string with index is not '<type>:<non-negative int>'")
        if "cuda" in s.lower() and d.type != "cuda":
            problems.append("valid string containing 'cuda' is not of type cuda")
        if ("cpu" in d.type and d.type != "cpu") or ("cuda" in d.type and d.type != "cuda") or ":" in d.type:
            problems.append("device type name contains cpu/cuda/':'")
    if s in ("cuda", "cpu", "mps") and (d is None or d.type != s or d.index is not None):
        problems.append("bare type name not accepted")
    if s.lower() != s.lower().lower() or len(s.lower()) != len(s):
        problems.append("lower not idempotent / length preserving")
    return dict(violated=bool(problems), observed="; ".join(problems) or "ok", expected="device_facts / lower_facts hold")


def fam_torch_device_facts(tier="quick", seed=0):
    for s in DEVICE_STRINGS + ["cuda:01", "cuda:10", "cpu:1", "mps:0", "xpu", "xpu:1", "privateuseone", "hip", "CUDA:0", "cuda: 0", "cuda:0 ", "cuda::", ":0", "cuda:"]:
        yield dict(s=s)


for _c, _rt, _fam, _conc in (
        (C_CANON, rt_canon, fam_canon, conc_canon),
        (C_VALIDATE, rt_device, fam_device_via("validate_device"), conc_device("dev", "validate_device")),
        (C_VALIDATE2, rt_device, fam_device_via("validate_device"), conc_device("dev", "validate_device")),
        (C_CHECK, rt_device, fam_device_via("check_key_val"), conc_device("val", "check_key_val")),
        (C_CHECK2, rt_device, fam_device_via("check_key_val"), conc_device("val", "check_key_val")),
        (C_SETDEV, rt_device, fam_device_via("set"), conc_device("dev", "set")),
        (C_INIT1, rt_history, fam_history_small, None), (C_INIT2, rt_history, fam_history_small, None), (C_INIT3, rt_history, fam_history_small, None), (C_INIT4, rt_device, fam_device_via("set"), conc_device("item_dev", "set")),
        (C_ASSIGN, rt_history, fam_history_small, None), (C_ASSIGN2, rt_history, fam_history_small, None), (C_ASSIGN3, rt_history, fam_history_small, None), (C_ASSIGN4, rt_history, fam_history_small, None), (C_ASSIGN5, rt_history, fam_history_small, None), (C_ASSIGN6, rt_history, fam_history_small, None),
        (C_GET, rt_history, fam_history_small, None), (C_UPDDEF3, rt_device, fam_device_via("update_defaults"), conc_device("dev", "update_defaults")),
        (C_GETDEV, rt_history, fam_history_small, None), (C_DEVICE, rt_history, fam_history_small, None),
        (C_UPD_NEW, rt_update, fam_update, None), (C_UPD_OLD, rt_update, fam_update, None), (C_UPD_ND, rt_update, fam_update, None),
        (C_UPD_NEW2, rt_update, fam_update, None), (C_UPD_OLD2, rt_update, fam_update, None), (C_UPD_ND2, rt_update, fam_update, None),
        (C_UPDDEF2, rt_device, fam_device_via("update_defaults"), conc_device("dev", "update_defaults")),
        (C_MERGE, rt_update, fam_update, None), (C_UPDDEF, rt_history, fam_history_small, None), (C_REFRESH, rt_history, fam_refresh, None), (C_REFRESH2, rt_history, fam_refresh, None), (C_REFRESH3, rt_history, fam_refresh, None),
        (C_ENTER, rt_with, fam_with, None), (C_EXIT, rt_with, fam_with, None)):
    _c.rt, _c.rt_family, _c.concretize = _rt, _fam, _conc

BOUNDED = [
    Bounded.from_rt("history replay against a normalised-key dictionary reference", rt_history, fam_history,
                    "all histories of depth <=3 (quick) / <=4 (thorough) over 18 operations (set mapping / keyword form, dotted keys, both spellings, mapping values, update_defaults, refresh), 10 probe keys after every step",
                    klass=klass_history),
    Bounded.from_rt("update/merge on small nested dicts against the reference merge", rt_update, fam_update, "6 old x 7 new x (2 priorities + 5 defaults) dicts, depth <=3", klass=klass_update),
    Bounded.from_rt("canonical_name on small key sets", rt_canon, fam_canon, "keys a, a-b, a_b, a-b-c, a-b_c, a_b-c, a_b_c against 0..2 stored keys",
                    klass=lambda inp, res: klass_spelling([inp["k"]] + inp["stored"])),
    Bounded.from_rt("device requests in simulated hardware environments", rt_device, fam_device,
                    "41 requests (28 strings, ints, None, float, lists, torch.device) x 4 environments (no accelerator, 2 cuda devices, mps, both) x set / check_key_val / update_defaults",
                    klass=klass_device),
    Bounded.from_rt("set as a context manager restores previous values", rt_with, fam_with, "3 stores x 5 argument mappings", klass=lambda inp, res: "with-statement"),
    Bounded.from_rt("trusted string facts (replace / split) against CPython", rt_string_facts, lambda: [dict(max_len=5, alphabet="a-_.")], "all strings of length <=5 over {a,-,_,.}"),
    Bounded.from_rt("trusted torch.device / lower facts against torch", rt_torch_device_facts, fam_torch_device_facts, "42 device strings"),
]
