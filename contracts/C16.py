"""C16 - forward-model operators obey energy, adjoint and projection identities.

Contracts on the REAL functions (VCs generated from their source):
  ptycho_utils.fourier_translation_operator / fourier_shift_expand / sum_patches_base / sum_patches,
  PtychographyBase._propagate_array / overlap_projection / estimate_amplitudes, ObjectBase._propagate_array / _get_obj_patches,
  ProbeBase._compute_propagator_arrays, DetectorPixelated.forward, Ptychography.fourier_projection / gradient_step.
Complex numbers are (re, im) pairs of reals (pyvc/lib/c16_models.Cx); exp(i t) = (cos t, sin t) with the A4 lemma instances;
DFT facts come only from the TRUSTED axioms A5 as stated in pyvc/lib/c16_models.py.
"""
from __future__ import annotations

import z3

from pyvc import values as V
from pyvc import reals
from pyvc.values import Sym, SymArr, Obj, S, lift
from pyvc.interp import NS, LoopSpec
from pyvc.registry import Contract, resolve
from pyvc.runner import Lemma, Bounded
from pyvc.lib import torch_ as tm
from pyvc.lib import c16_models as cm
from pyvc.lib.c16_models import Cx, cis, r_term, abs2
from lemmas import c16_rt as RT
from .common import registry, forall, implies, AND, OR, NOT

LEVEL = "other"  # open known findings: some obligations are refuted on the current tree, so "every obligation discharged" does not hold (see known_findings.jsonl)
PU = "quantem.diffractive_imaging.ptycho_utils"
PB = "quantem.diffractive_imaging.ptychography_base"
PT = "quantem.diffractive_imaging.ptychography"
PM = "quantem.diffractive_imaging.probe_models"
OM = "quantem.diffractive_imaging.object_models"
DM = "quantem.diffractive_imaging.detector_models"
AF = "quantem.core.utils.array_funcs"
I, Rl = z3.Int, z3.Real
PI = V.PI

AF_INLINE = [f"{AF}:{n}" for n in ("match_device", "exp", "as_type", "fft2", "ifft2", "is_complex", "array_operation",
                                   "validate_arraylike", "numpy_to_torch_dtype")]


def make_registry():
    reg = registry()
    tm.install(reg)
    cm.install(reg)
    for c in CONTRACTS:
        reg.add_contract(c)
    return reg


# ------------------------------------------------------------------------------------------------ helpers


def ceq(a, b):
    """equality of two complex / real element values as a z3 Bool"""
    if isinstance(a, Cx) or isinstance(b, Cx):
        return Cx.of(a).eq(Cx.of(b))
    return r_term(a) == r_term(b)


def unit(v):
    return r_term(abs2(v)) == 1


def backend(ctx):
    """torch / numpy arrays (the array_funcs dispatch is interpreted for both)."""
    st = cm.ctx_state(ctx)
    is_np = ctx.fresh("backend_is_numpy", "bool")
    st.backend = "numpy" if ctx.branch(is_np.t) else "torch"
    return st.backend


def pos_int(ctx, name, lo=1):
    v = ctx.fresh(name, "int")
    ctx.assume(v.t >= lo)
    cm.ctx_state(ctx).dims.append(v.t)
    return v


def idx_in(ctx, name, n):
    v = ctx.fresh(name, "int")
    ctx.assume(z3.And(v.t >= 0, v.t < lift(n)))
    return v


def freq(i, n, d=1):
    """fftfreq(n, d)[i] as a real term"""
    num = z3.ToReal(cm.freq_index(i, n))
    den = z3.ToReal(lift(n)) * r_term(d) if not (isinstance(d, int) and d == 1) else z3.ToReal(lift(n))
    return Sym(num / den)


def shapes_eq(got, want):
    if len(got) != len(want):
        return z3.BoolVal(False)
    return z3.And(*[lift(a) == lift(b) for a, b in zip(got, want)]) if got else z3.BoolVal(True)


# ------------------------------------------------------------------------------------------------ fourier_translation_operator


def ramp_spec(r, c, i, j, nr, nc):
    """The shift theorem's kernel with k = fftfreq:  exp(-2 pi i k_r[i] r) * exp(-2 pi i k_c[j] c)."""
    tr = Cx(0, -2.0) * Sym(PI) * freq(i, nr) * r
    tc = Cx(0, -2.0) * Sym(PI) * freq(j, nc) * c
    return cm.cexp(tr) * cm.cexp(tc)


def fto_setup(ctx):
    be = backend(ctx)
    N = pos_int(ctx, "npos", 0)
    nr, nc = pos_int(ctx, "nr"), pos_int(ctx, "nc")
    nextra = 0
    for k in (1, 2):
        if ctx.branch(ctx.fresh(f"shape_has_{k + 2}_dims", "bool").t):
            nextra = k
            break
    extra = tuple(pos_int(ctx, f"e{q}") for q in range(nextra))
    positions = cm.fresh_real(ctx, "positions", (N, 2))
    expand = bool(ctx.branch(ctx.fresh("expand_dim", "bool").t))
    if ctx.branch(ctx.fresh("dtype_is_none", "bool").t):
        dtype = None
    else:
        dtype = (torch_dtype("complex128") if be == "torch" else "complex128")
    s = NS(positions=positions, shape=extra + (nr, nc), expand_dim=expand, dtype=dtype)
    s.n0, s.i0, s.j0 = idx_in(ctx, "n0", N), idx_in(ctx, "i0", nr), idx_in(ctx, "j0", nc)
    s.case = f"{be},{len(s.shape)}d,{'expand' if expand else 'noexpand'},{'dtype=None' if dtype is None else 'complex dtype'}"
    return s


def torch_dtype(name):
    import torch

    return getattr(torch, name)


def fto_dtype_ok(dtype):
    if dtype is None:
        return True
    import torch
    import numpy as np

    if isinstance(dtype, torch.dtype):
        return dtype.is_complex
    try:
        return bool(np.issubdtype(np.dtype(dtype), np.complexfloating))
    except TypeError:
        return False


def fto_requires(s):
    ok = fto_dtype_ok(s.dtype)
    return [("positions-is-(N,2)", AND(lift(s.positions.shape[0]) >= 0, lift(s.positions.shape[1]) == 2)),
            ("roi-at-least-1x1", AND(lift(s.shape[-2]) >= 1, lift(s.shape[-1]) >= 1)),
            ("dtype-is-None-or-complex", z3.BoolVal(bool(ok)))]


def fto_out_shape(s):
    nmid = (len(s.shape) - 2) if truthy(s.expand_dim) else 0
    return (s.positions.shape[0],) + (1,) * nmid + (s.shape[-2], s.shape[-1])


def truthy(x):
    if isinstance(x, Sym):
        lit = x.literal()
        if lit is None:
            raise V.OutOfSubset("symbolic flag")
        return bool(lit)
    return bool(x)


def fto_ensures(s):
    res = s.result
    want_shape = fto_out_shape(s)
    out = [("shape=(N,[1..],nr,nc)", shapes_eq(res.shape, want_shape) if isinstance(res, SymArr) else z3.BoolVal(False))]
    if not isinstance(res, SymArr) or len(res.shape) != len(want_shape):
        return out
    nr, nc = s.shape[-2], s.shape[-1]
    mid = (z3.IntVal(0),) * (len(want_shape) - 3)
    if s.mode != "verify":
        # at call sites: unit modulus for every index (proved below at a generic index), the kernel formula at the caller's points
        out.append(("unit-modulus", all_unit(res)))
        pts = cm.ctx_state(s.ctx).__dict__.get("points", [])
    else:
        pts = [(s.n0, s.i0, s.j0)]
    for (n, i, j) in pts:
        v = res.fn(lift(n), *mid, lift(i), lift(j))
        r, c = s.positions.fn(lift(n), z3.IntVal(0)), s.positions.fn(lift(n), z3.IntVal(1))
        out.append(("ramp=exp(-2pi i(fftfreq_r[i] r + fftfreq_c[j] c))", ceq(v, ramp_spec(r, c, lift(i), lift(j), nr, nc))))
        if s.mode == "verify":
            out.append(("unit-modulus", unit(v)))
    return out


def fto_result(ctx, s):
    """call sites see a fresh complex array constrained only by the postconditions"""
    return cm.fresh_cx(ctx, "ramp", tuple(fto_out_shape(s)))


C_FTO = Contract(f"{PU}:fourier_translation_operator", setup=fto_setup, requires=fto_requires, ensures=fto_ensures, result=fto_result,
                 inline=AF_INLINE)


# ------------------------------------------------------------------------------------------------ electron wavelength (helper)

UT = "quantem.core.utils.utils"
WL = z3.Function("electron_wavelength", z3.RealSort(), z3.RealSort())

C_WL = Contract(f"{UT}:electron_wavelength_angstrom", setup=lambda ctx: NS(E_eV=ctx.fresh("E_eV", "real")),
                requires=lambda s: [("energy>0", lift(s.E_eV) > 0)],
                ensures=lambda s: [("wavelength>0", r_term(s.result) > 0)],
                result=lambda ctx, s: Sym(WL(r_term(s.E_eV))))

# ------------------------------------------------------------------------------------------------ ProbeBase._compute_propagator_arrays

PROBE = resolve(f"{PM}:ProbeBase")
PROBE_INLINE = [f"{PM}:ProbeBase.{n}" for n in ("roi_shape", "device", "probe_params", "probe_tilt")]


def prop_factors(wl, dz, kr, kc, th_r, th_c):
    """The three factors of the Fresnel kernel, each of the form exp(i * c * dz) with c independent of dz:
         exp(-i pi lambda dz (kr^2+kc^2)),  exp(-2 pi i dz tan(th_r/1e3) kr),  exp(-2 pi i dz tan(th_c/1e3) kc)
    (the tilt factors are present only for a non-zero tilt component, as in the code; for a zero tilt they are 1)."""
    k2 = S(kr) ** 2 + S(kc) ** 2
    p = cm.cexp(Cx(0, -1.0) * Sym(PI) * wl * dz * k2)
    tr = Cx(0, 1.0) * (-2 * Sym(PI) * dz * Sym(cm.TAN(r_term(th_r / 1e3)))) * kr
    tc = Cx(0, 1.0) * (-2 * Sym(PI) * dz * Sym(cm.TAN(r_term(th_c / 1e3)))) * kc
    er, ec = cm.cexp(tr), cm.cexp(tc)
    def pick(th, e):
        # on a path that has already decided `th != 0` the conditional is resolved (keeps the goals small)
        c = lift(th) != 0
        try:
            ctx = V.cur()
            if ctx.entails(c):
                return e
            if ctx.entails(z3.Not(c)):
                return Cx(1, 0)
        except RuntimeError:
            pass
        return Cx(V.ite(c, e.re, 1), V.ite(c, e.im, 0))

    return p, pick(th_r, er), pick(th_c, ec)


def prop_spec(wl, dz, kr, kc, th_r, th_c):
    p, fr, fc = prop_factors(wl, dz, kr, kc, th_r, th_c)
    return p * fr * fc


def cpa_setup(ctx):
    cm.ctx_state(ctx).backend = "torch"
    Sr, Sc = pos_int(ctx, "Sr"), pos_int(ctx, "Sc")
    E = ctx.fresh("energy", "real")
    tilt = cm.fresh_real(ctx, "tilt", (2,))
    me = Obj(PROBE, dict(_roi_shape=(Sr, Sc), _device="cpu", _probe_params={"energy": E}, _probe_tilt=tilt))
    T = pos_int(ctx, "T", 0)
    dz = cm.fresh_real(ctx, "dz", (T,))
    samp = (ctx.fresh("dr", "real"), ctx.fresh("dc", "real"))
    ns = pos_int(ctx, "num_slices", 1)
    s = NS(self=me, sampling=samp, num_slices=ns, slice_thicknesses=dz, E=E, T=T, Sr=Sr, Sc=Sc, tilt=tilt)
    s.t0, s.i0, s.j0 = idx_in(ctx, "t0", T), idx_in(ctx, "i0", Sr), idx_in(ctx, "j0", Sc)
    return s


def cpa_requires(s):
    return [("energy>0", lift(s.E) > 0), ("sampling!=0", AND(lift(s.sampling[0]) != 0, lift(s.sampling[1]) != 0))]


def cpa_ensures(s):
    res = s.result
    single = lift(s.num_slices) == 1
    if not isinstance(res, SymArr):
        # num_slices == 1: an empty tensor
        return [("single-slice=>empty", AND(single, z3.BoolVal(res.numel() == 0)))]
    out = [("multislice-branch", NOT(single)), ("shape=(T,Sr,Sc)", shapes_eq(res.shape, (s.T, s.Sr, s.Sc)))]
    if len(res.shape) != 3:
        return out
    t, i, j = lift(s.t0), lift(s.i0), lift(s.j0)
    v = res.fn(t, i, j)
    wl = Sym(WL(r_term(s.E)))
    kr, kc = freq(i, s.Sr, s.sampling[0]), freq(j, s.Sc, s.sampling[1])
    fac = prop_factors(wl, s.slice_thicknesses.fn(t), kr, kc, s.tilt.fn(z3.IntVal(0)), s.tilt.fn(z3.IntVal(1)))
    spec = fac[0] * fac[1] * fac[2]
    # unit modulus of the kernel = unit modulus of each factor (below) + lemma `propagator`: |A|=|B|=|C|=1 => |ABC|=1
    out += [("P=exp(-i pi lam dz k^2) exp(-2pi i dz (tan(tr) kr + tan(tc) kc))", ceq(v, spec)),
            ("unit-modulus: Fresnel factor", unit(fac[0])), ("unit-modulus: row-tilt factor", unit(fac[1])), ("unit-modulus: column-tilt factor", unit(fac[2]))]
    return out


C_CPA = Contract(f"{PM}:ProbeBase._compute_propagator_arrays", setup=cpa_setup, requires=cpa_requires, ensures=cpa_ensures,
                 inline=PROBE_INLINE)


# ------------------------------------------------------------------------------------------------ sum_patches_base / sum_patches (scatter)


def flat(ctx, a):
    return cm.c_reshape(ctx, a, (-1,))


def scatter_spec(idx_flat, p_flat, j):
    """sum over all n of p[n] for which idx[n] == j   (repeated indices accumulate)"""
    ifn, pfn = idx_flat.fn, p_flat.fn
    return reals.sigma(lift(idx_flat.shape[0]), lambda n: z3.If(lift(ifn(n)) == lift(j), r_term(pfn(n)), z3.RealVal(0)))


def flat_in_range(ctx, indices, n_out):
    fi = flat(ctx, indices)
    q = I("q")
    v = lift(fi.fn(q))
    return forall(q, implies(AND(q >= 0, q < lift(fi.shape[0])), AND(v >= 0, v < lift(n_out))))


def patch_arrays(ctx, complex_patches=False):
    B, nr, nc = pos_int(ctx, "B", 0), pos_int(ctx, "nr"), pos_int(ctx, "nc")
    H, W = pos_int(ctx, "H"), pos_int(ctx, "W")
    patches = cm.fresh_cx(ctx, "patches", (B, nr, nc)) if complex_patches else cm.fresh_real(ctx, "patches", (B, nr, nc))
    # storage precision of the patches: single or double (the scatter must accumulate and return in the patches' own dtype)
    double = bool(ctx.branch(ctx.fresh("patches_double_precision", "bool").t))
    dt = torch_dtype(("complex128" if double else "complex64") if complex_patches else ("float64" if double else "float32"))
    cm.tag_dtype(patches, dt)
    indices = cm.fresh_real(ctx, "indices", (B, nr, nc), kind="int")
    return NS(patches=patches, indices=indices, obj_shape=(H, W), H=H, W=W, h0=idx_in(ctx, "h0", H), w0=idx_in(ctx, "w0", W), dt=dt,
              case=str(dt).replace("torch.", ""))


def spb_setup(ctx):
    cm.ctx_state(ctx).backend = "torch"
    return patch_arrays(ctx, False)


def sp_requires(s):
    return [("same-shape", shapes_eq(s.indices.shape, s.patches.shape)),
            ("indices-in-range(C-order view)", flat_in_range(s.ctx, s.indices, lift(s.obj_shape[0]) * lift(s.obj_shape[1]))),
            ("obj_shape-2d-positive", AND(lift(s.obj_shape[0]) >= 1, lift(s.obj_shape[1]) >= 1))]


def spb_ensures(s):
    res = s.result
    out = [("shape=obj_shape", shapes_eq(res.shape, tuple(s.obj_shape)))]
    if s.mode == "verify":
        h, w = lift(s.h0), lift(s.w0)
        j = h * lift(s.obj_shape[1]) + w
        out.append(("out[h,w]=sum{p[n]: idx[n]==h*W+w}", r_term(res.fn(h, w)) == scatter_spec(flat(s.ctx, s.indices), flat(s.ctx, s.patches), j).t))
    out.append(dtype_clause(s, res))
    return out


def dtype_clause(s, res):
    """exact adjoint in the arithmetic of the input: accumulated and returned in the dtype of the patches (no narrowing)"""
    want, got = cm.dtype_tag(s.patches), cm.dtype_tag(res)
    return ("result (and accumulator) dtype = patches.dtype", z3.BoolVal(want is None or got == want))


def spb_result(ctx, s):
    fi, fp = flat(ctx, s.indices), flat(ctx, s.patches)
    W = lift(s.obj_shape[1])
    r = SymArr(tuple(s.obj_shape), lambda h, w: scatter_spec(fi, fp, lift(h) * W + lift(w)), "real")
    r.c16_cx = False
    cm.tag_dtype(r, cm.dtype_tag(s.patches))
    return cm.like(r, None, ctx)


C_SPB = Contract(f"{PU}:sum_patches_base", setup=spb_setup, requires=sp_requires, ensures=spb_ensures, result=spb_result,
                 inline=AF_INLINE)


def sp_setup(ctx):
    cm.ctx_state(ctx).backend = "torch"
    cx = bool(ctx.branch(ctx.fresh("patches_complex", "bool").t))
    s = patch_arrays(ctx, cx)
    s.cx = cx
    return s


def sp_ensures(s):
    res = s.result
    out = [("shape=obj_shape", shapes_eq(res.shape, tuple(s.obj_shape)))]
    if s.mode != "verify":
        return out
    ctx = s.ctx
    h, w = lift(s.h0), lift(s.w0)
    j = h * lift(s.obj_shape[1]) + w
    fi = flat(ctx, s.indices)
    v = res.fn(h, w)
    if s.cx:
        pre = flat(ctx, s.interp.getattr(s.patches, "real"))
        pim = flat(ctx, s.interp.getattr(s.patches, "imag"))
        out.append(("complex:out[h,w]=sum{p[n]: idx[n]==h*W+w}", ceq(v, Cx(scatter_spec(fi, pre, j), scatter_spec(fi, pim, j)))))
        out.append(("complex-result", z3.BoolVal(isinstance(v, Cx))))
    else:
        out.append(("real:out[h,w]=sum{p[n]: idx[n]==h*W+w}", ceq(v, scatter_spec(fi, flat(ctx, s.patches), j))))
        out.append(("real-result", z3.BoolVal(not isinstance(v, Cx))))
        out.append(dtype_clause(s, res))
    return out


def sp_result(ctx, s):
    fi = flat(ctx, s.indices)
    W = lift(s.obj_shape[1])
    if cm.is_cx(s.patches):
        pre, pim = flat(ctx, s.interp.getattr(s.patches, "real")), flat(ctx, s.interp.getattr(s.patches, "imag"))
        fn = lambda h, w: Cx(scatter_spec(fi, pre, lift(h) * W + lift(w)), scatter_spec(fi, pim, lift(h) * W + lift(w)))
    else:
        fp = flat(ctx, s.patches)
        fn = lambda h, w: scatter_spec(fi, fp, lift(h) * W + lift(w))
    r = SymArr(tuple(s.obj_shape), fn, "real")
    return cm.like(r, None, ctx)


C_SP = Contract(f"{PU}:sum_patches", setup=sp_setup, requires=sp_requires, ensures=sp_ensures, result=sp_result, inline=AF_INLINE)

# ------------------------------------------------------------------------------------------------ ObjectBase._get_obj_patches (gather)

OBJB = resolve(f"{OM}:ObjectBase")


def gop_setup(ctx):
    cm.ctx_state(ctx).backend = "torch"
    cx = bool(ctx.branch(ctx.fresh("obj_complex", "bool").t))
    Sn, H, W = pos_int(ctx, "S"), pos_int(ctx, "H"), pos_int(ctx, "W")
    B, nr, nc = pos_int(ctx, "B", 0), pos_int(ctx, "nr"), pos_int(ctx, "nc")
    obj = cm.fresh_cx(ctx, "obj", (Sn, H, W)) if cx else cm.fresh_real(ctx, "obj", (Sn, H, W))
    idx = cm.fresh_real(ctx, "patch_indices", (B, nr, nc), kind="int")
    s = NS(self=Obj(OBJB, {}), obj_array=obj, patch_indices=idx, cx=cx, H=H, W=W, S=Sn)
    s.s0, s.b0, s.i0, s.j0 = idx_in(ctx, "s0", Sn), idx_in(ctx, "b0", B), idx_in(ctx, "i0", nr), idx_in(ctx, "j0", nc)
    return s


def gop_requires(s):
    b, i, j = I("b"), I("i"), I("j")
    sh = s.patch_indices.shape
    v = lift(s.patch_indices.fn(b, i, j))
    return [("indices-in-range", forall([b, i, j], implies(AND(b >= 0, b < lift(sh[0]), i >= 0, i < lift(sh[1]), j >= 0, j < lift(sh[2])),
                                                            AND(v >= 0, v < lift(s.H) * lift(s.W)))))]


def gop_ensures(s):
    res = s.result
    out = [("shape=(S,)+indices.shape", shapes_eq(res.shape, (s.obj_array.shape[0],) + tuple(s.patch_indices.shape)))]
    if len(res.shape) != 4 or s.mode != "verify":
        return out
    s0, b0, i0, j0 = lift(s.s0), lift(s.b0), lift(s.i0), lift(s.j0)
    v = res.fn(s0, b0, i0, j0)
    q = lift(s.patch_indices.fn(b0, i0, j0))
    W = lift(s.W)
    src = s.obj_array.fn(s0, q / W, q % W)  # C-order: flat index q <-> (q div W, q mod W)
    if s.cx:
        out.append(("complex:patch=obj.reshape(S,-1)[s,idx]", ceq(v, src)))
    else:
        out += [("real:patch=exp(i*obj).reshape(S,-1)[s,idx]", ceq(v, cis(src))), ("real:pure-phase-unit-modulus", unit(v))]
    out.append(("complex-result", z3.BoolVal(isinstance(v, Cx))))
    return out


def gop_result(ctx, s):
    """call sites see the gather through its specification (definitional result)"""
    obj, idx = s.obj_array, s.patch_indices
    W = lift(obj.shape[2])
    of, xf = obj.fn, idx.fn
    cx = cm.is_cx(obj)

    def fn(sl, b, i, j):
        q = lift(xf(b, i, j))
        v = of(sl, q / W, q % W)
        return v if cx else cis(v)

    r = SymArr((obj.shape[0],) + tuple(idx.shape), fn, "complex")
    r.c16_cx = True
    return cm.like(r, None, ctx)


def gop_requires_any(s):
    if not hasattr(s, "H"):
        s.H, s.W = s.obj_array.shape[1], s.obj_array.shape[2]
    return gop_requires(s)


C_GOP = Contract(f"{OM}:ObjectBase._get_obj_patches", setup=gop_setup, requires=gop_requires_any, ensures=gop_ensures, result=gop_result)


# ------------------------------------------------------------------------------------------------ _propagate_array (two copies)

PBASE = resolve(f"{PB}:PtychographyBase")


def all_unit(arr):
    """forall indices in range: |arr[idx]|^2 == 1"""
    idx = [I(f"u{d}") for d in range(arr.ndim)]
    rng = [AND(x >= 0, x < lift(d)) for x, d in zip(idx, arr.shape)]
    return forall(idx, implies(AND(*rng), unit(arr.fn(*idx))))


def generics_for(ctx, nb):
    return [g for g in cm.ctx_state(ctx).generic if len(g) == nb]


def pa_setup_for(cls):
    def setup(ctx):
        cm.ctx_state(ctx).backend = "torch"
        M, B, nr, nc = pos_int(ctx, "M"), pos_int(ctx, "B"), pos_int(ctx, "nr"), pos_int(ctx, "nc")
        s = NS(self=Obj(cls, {}), M=M, B=B, nr=nr, nc=nc)
        s.m0, s.b0, s.i0, s.j0 = idx_in(ctx, "m0", M), idx_in(ctx, "b0", B), idx_in(ctx, "i0", nr), idx_in(ctx, "j0", nc)
        cm.register_generic(ctx, (s.m0, s.b0))
        s.array = cm.fresh_cx(ctx, "array", (M, B, nr, nc))
        s.propagator_array = cm.fresh_cx(ctx, "propagator", (nr, nc))
        return s
    return setup


def pa_requires(s):
    a, p = s.array, s.propagator_array
    return [("kernel-is-2d-of-roi-shape", z3.BoolVal(p.ndim == 2 and a.ndim >= 2) if not (p.ndim == 2 and a.ndim >= 2) else
             AND(lift(p.shape[0]) == lift(a.shape[-2]), lift(p.shape[1]) == lift(a.shape[-1])))]


def pa_ensures(s):
    res, a, p = s.result, s.array, s.propagator_array
    ctx = s.ctx
    out = [("shape=array.shape", shapes_eq(res.shape, a.shape))]
    link = getattr(res, "c16_ifft_of", None)
    out.append(("result=ifft2(G) with default norm", z3.BoolVal(link is not None and link[1] == "backward")))
    if link is None or len(res.shape) != len(a.shape):
        return out
    G = link[0]
    F = cm.spectrum(ctx, a, None)
    for g in generics_for(ctx, a.ndim - 2):
        if s.mode == "verify":
            cm.energy_hint(ctx, G, g, F, g)
            i, j = lift(s.i0), lift(s.j0)
            out.append(("G=fft2(array)*P (default norm)", ceq(G.fn(*g, i, j), F.fn(*g, i, j) * p.fn(i, j))))
        out.append(("unit-modulus-kernel=>total-intensity-preserved", implies(all_unit(p), cm.energy(res, g).t == cm.energy(a, g).t)))
    return out


def pa_result(ctx, s):
    F = cm.spectrum(ctx, s.array, None)
    G = F * s.propagator_array
    r = cm.dft2(ctx, G, None, True)
    # index functions are recorded as of NOW (callers may update these arrays in place afterwards)
    cm.ctx_state(ctx).__dict__.setdefault("propagations", []).append(
        NS(array=s.array, kernel=s.propagator_array, result=r, array_fn=s.array.fn, kernel_fn=s.propagator_array.fn, result_fn=r.fn))
    return r


C_PA1 = Contract(f"{PB}:PtychographyBase._propagate_array", setup=pa_setup_for(PBASE), requires=pa_requires, ensures=pa_ensures, result=pa_result)
C_PA2 = Contract(f"{OM}:ObjectBase._propagate_array", setup=pa_setup_for(OBJB), requires=pa_requires, ensures=pa_ensures, result=pa_result)

# ------------------------------------------------------------------------------------------------ PtychographyBase.overlap_projection

OBJPIX = resolve(f"{OM}:ObjectPixelated")


def op_setup(ctx):
    cm.ctx_state(ctx).backend = "torch"
    Sn, M, B, nr, nc = pos_int(ctx, "S"), pos_int(ctx, "M"), pos_int(ctx, "B"), pos_int(ctx, "nr"), pos_int(ctx, "nc")
    H, W = pos_int(ctx, "H"), pos_int(ctx, "W")
    s = NS(S=Sn, M=M, B=B, nr=nr, nc=nc)
    s.m0, s.b0, s.i0, s.j0 = idx_in(ctx, "m0", M), idx_in(ctx, "b0", B), idx_in(ctx, "i0", nr), idx_in(ctx, "j0", nc)
    cm.register_generic(ctx, (s.m0, s.b0))
    objm = Obj(OBJPIX, dict(_obj=cm.fresh_real(ctx, "obj", (Sn, H, W))))
    s.props = cm.fresh_cx(ctx, "propagators", (Sn - 1, nr, nc))
    s.self = Obj(PBASE, dict(_obj_model=objm, _propagators=s.props))
    s.obj_patches = cm.fresh_cx(ctx, "obj_patches", (Sn, B, nr, nc))
    s.input_probe = cm.fresh_cx(ctx, "input_probe", (M, B, nr, nc))
    return s


def op_requires(s):
    return [("pure-phase-object: |obj_patches| = 1", all_unit(s.obj_patches)), ("unit-modulus-propagators", all_unit(s.props))]


def op_loop_inv(s):
    g = (lift(s.pre.self.fields["$g"][0]), lift(s.pre.self.fields["$g"][1]))
    i0, j0 = s.pre.self.fields["$ij"]
    pp = s.propagated_probes
    cm.energy_hint(s.ctx, s.overlap, g, s.input_probe, g)
    if s.get("propagated_probe") is not None:
        cm.energy_hint(s.ctx, s.overlap, g, s.propagated_probe, g)
    return [("overlap-shape", shapes_eq(s.overlap.shape, s.input_probe.shape)),
            ("energy(overlap)=energy(input_probe)", cm.energy(s.overlap, g).t == cm.energy(s.input_probe, g).t),
            ("len(propagated_probes)=k+1", lift(cm.tl_len(pp)) == lift(s.k) + 1),
            ("overlap=obj_patches[k]*propagated_probes[k]", ceq(s.overlap.fn(*g, lift(i0), lift(j0)),
                                                                s.obj_patches.fn(lift(s.k), g[1], lift(i0), lift(j0)) * cm.tl_get(pp, lift(s.k), *g, lift(i0), lift(j0)))),
            ("propagated_probes[0]=input_probe", ceq(cm.tl_get(pp, 0, *g, lift(i0), lift(j0)), s.input_probe.fn(*g, lift(i0), lift(j0)))),
            ("the step from slice k-1 to slice k propagates with propagators[k-1] (and nothing else)", op_kernel_clause(s, i0, j0))]


def op_kernel_clause(s, i0, j0):
    """ghost: the _propagate_array applications recorded on this path (at most the one of the iteration under verification)"""
    log = cm.ctx_state(s.ctx).__dict__.get("propagations", [])
    if not log:
        return z3.BoolVal(True)
    if len(log) > 1:
        return z3.BoolVal(False)
    props = s.pre.self.fields["_propagators"]
    return ceq(log[-1].kernel_fn(lift(i0), lift(j0)), props.fn(lift(s.k) - 1, lift(i0), lift(j0)))


def op_havoc_list(ctx, old):
    shape = old.elem_shape if isinstance(old, cm.SymTensorList) else old[0].shape
    fam = cm.fresh_cx(ctx, "propagated_probes", (ctx.fresh("len_pp", "int"),) + tuple(shape))
    return cm.SymTensorList(fam.shape[0], shape, fam.fn)


def op_ensures(s):
    res = s.result
    if not (isinstance(res, tuple) and len(res) == 2):
        return [("returns (propagated_probes, overlap)", z3.BoolVal(False))]
    pp, ov = res
    g = (lift(s.m0), lift(s.b0))
    i, j = lift(s.i0), lift(s.j0)
    return [("overlap-shape=(M,B,nr,nc)", shapes_eq(ov.shape, s.input_probe.shape)),
            ("propagated-shape=(S,M,B,nr,nc)", shapes_eq(pp.shape, (s.S,) + tuple(s.input_probe.shape))),
            ("propagated[0]=input_probe", ceq(pp.fn(z3.IntVal(0), *g, i, j), s.input_probe.fn(*g, i, j))),
            ("overlap=obj_patches[S-1]*propagated[S-1]", ceq(ov.fn(*g, i, j), s.obj_patches.fn(lift(s.S) - 1, g[1], i, j) * pp.fn(lift(s.S) - 1, *g, i, j))),
            ("pure-phase: total intensity of the exit wave = total intensity of the probe (any number of slices)",
             cm.energy(ov, g).t == cm.energy(s.input_probe, g).t)]


def op_requires_and_ghost(s):
    s.self.fields["$g"] = (s.m0, s.b0)
    s.self.fields["$ij"] = (s.i0, s.j0)
    return op_requires(s)


C_OP = Contract(f"{PB}:PtychographyBase.overlap_projection", setup=op_setup, requires=op_requires_and_ghost, ensures=op_ensures,
                inline=[f"{PB}:PtychographyBase.num_slices", f"{PB}:PtychographyBase.obj_model", f"{OM}:ObjectPixelated.num_slices"],
                loops={0: LoopSpec(inv=op_loop_inv, kinds={"overlap": lambda ctx, old: cm.fresh_cx(ctx, "overlap", old.shape)},
                                   havoc={"propagated_probes": lambda s: s.env.assign("propagated_probes", op_havoc_list(s.ctx, s.propagated_probes))})})

# ------------------------------------------------------------------------------------------------ DetectorPixelated.forward

DET = resolve(f"{DM}:DetectorPixelated")


def centre(i, n):
    """detector (centred) index of Fourier index i:  fftshift moves index 0 to n//2"""
    i, n = lift(i), lift(n)
    return (i + n / 2) % n


def uncentre(i, n):
    """Fourier index read at detector index i by fftshift:  (i - n//2) mod n"""
    return cm.shift_index(i, n, False)


def mode_intensity(ctx, waves, norm="ortho"):
    """sum_m |fft2(waves, norm)[m, ...]|^2  as an array (B, nr, nc), in the term shape of sum(abs(F)**2, dim=0)"""
    F = cm.spectrum(ctx, waves, norm)
    return reals.reduce_sum(cm.abs2_arr(F), 0, False)


def det_setup(ctx):
    cm.ctx_state(ctx).backend = "torch"
    M, B, nr, nc = pos_int(ctx, "M"), pos_int(ctx, "B"), pos_int(ctx, "nr"), pos_int(ctx, "nc")
    s = NS(self=Obj(DET, {}), M=M, B=B, nr=nr, nc=nc)
    s.b0, s.i0, s.j0 = idx_in(ctx, "b0", B), idx_in(ctx, "i0", nr), idx_in(ctx, "j0", nc)
    cm.register_sum0(ctx, (s.b0,))
    s.exit_waves = cm.fresh_cx(ctx, "exit_waves", (M, B, nr, nc))
    return s


def det_ensures(s):
    res, ctx = s.result, s.ctx
    out = [("shape=(B,nr,nc)", shapes_eq(res.shape, (s.B, s.nr, s.nc)))]
    if len(res.shape) != 3:
        return out
    b, i, j = lift(s.b0), lift(s.i0), lift(s.j0)
    inten = mode_intensity(ctx, s.exit_waves, "ortho")
    out += [("I[b,i,j]=sum_m|F_ortho[m,b,(i-nr//2)%nr,(j-nc//2)%nc]|^2 (centred)", r_term(res.fn(b, i, j)) == r_term(inten.fn(b, uncentre(i, s.nr), uncentre(j, s.nc)))),
            ("sum_ij I[b] = sum_m sum_ij |exit[m,b]|^2 (Parseval, any ROI)", cm.total(res, (b,)).t == cm.mode_energy(s.exit_waves, (b,)).t)]
    return out


C_DET = Contract(f"{DM}:DetectorPixelated.forward", setup=det_setup, ensures=det_ensures)


# ------------------------------------------------------------------------------------------------ PtychographyBase.estimate_amplitudes

EA_Q = f"{PB}:PtychographyBase.estimate_amplitudes"


def modes_fork(ctx, name="M"):
    """number of probe modes: 1 (single state) or 2 (mixed state), enumerated because sqrt of a symbolic-length sum has no facts"""
    return 1 if ctx.branch(ctx.fresh("single_mode", "bool").t) else 2


def ea_setup(ctx):
    cm.ctx_state(ctx).backend = "torch"
    M = modes_fork(ctx)
    B, nr, nc = pos_int(ctx, "B"), pos_int(ctx, "nr"), pos_int(ctx, "nc")
    s = NS(self=Obj(PBASE, {}), M=M, B=B, nr=nr, nc=nc)
    s.b0, s.i0, s.j0 = idx_in(ctx, "b0", B), idx_in(ctx, "i0", nr), idx_in(ctx, "j0", nc)
    s.overlap_array = cm.fresh_cx(ctx, "overlap", (M, B, nr, nc))
    s.corner_centered = bool(ctx.branch(ctx.fresh("corner_centered", "bool").t))
    s.case = f"M={M},{'corner' if s.corner_centered else 'centred'}"
    return s


def ea_ensures(s):
    res, ctx = s.result, s.ctx
    out = [("shape=(B,nr,nc)", shapes_eq(res.shape, (s.B, s.nr, s.nc)))]
    if len(res.shape) != 3:
        return out
    b, i, j = lift(s.b0), lift(s.i0), lift(s.j0)
    fi, fj = (i, j) if truthy(s.corner_centered) else (uncentre(i, s.nr), uncentre(j, s.nc))
    F = cm.spectrum(ctx, s.overlap_array, "ortho")
    a = r_term(res.fn(b, i, j))
    tag = f"[M={s.M}]"
    # The property statement makes no claim about this helper (after the fix the projection no longer calls it); what the
    # multislice / loss code relies on: a non-negative amplitude per detector pixel that is the incoherent mode sum of the
    # ortho-normalised spectrum, read at the centred pixel unless corner_centered, up to the small non-negative regulariser e
    # the code adds to the spectrum to keep sqrt differentiable at 0 (its value is not prescribed here, only its size).
    e = Rl("e_reg")
    reg2 = sum_modes([abs2(F.fn(z3.IntVal(m), b, fi, fj) + Sym(e)) for m in range(s.M)])
    out += [(f"amps>=0{tag}", a >= 0),
            (f"amps^2=sum_m|F_ortho+e|^2 for a regulariser 0<=e<=1e-6 (centred unless corner_centered){tag}",
             z3.Exists([e], z3.And(e >= 0, e <= z3.RealVal("1/1000000"), a * a == r_term(reg2))))]
    return out


C_EA = Contract(EA_Q, setup=ea_setup, ensures=ea_ensures)

# ------------------------------------------------------------------------------------------------ Ptychography.fourier_projection / gradient_step

PTY = resolve(f"{PT}:Ptychography")
FP_Q = f"{PT}:Ptychography.fourier_projection"
NUMPROBES_INLINE = [f"{PB}:PtychographyBase.num_probes", f"{PB}:PtychographyBase.probe_model", f"{PM}:ProbeBase.num_probes"]


def fp_setup(ctx):
    cm.ctx_state(ctx).backend = "torch"
    M = modes_fork(ctx)
    B, nr, nc = pos_int(ctx, "B"), pos_int(ctx, "nr"), pos_int(ctx, "nc")
    probe = Obj(PROBE, dict(_num_probes=M))
    s = NS(self=Obj(PTY, dict(_probe_model=probe)), M=M, B=B, nr=nr, nc=nc)
    s.b0, s.i0, s.j0 = idx_in(ctx, "b0", B), idx_in(ctx, "i0", nr), idx_in(ctx, "j0", nc)
    s.measured_amplitudes = cm.fresh_real(ctx, "measured", (B, nr, nc))
    s.overlap_array = cm.fresh_cx(ctx, "overlap", (M, B, nr, nc))
    s.case = f"M={M}"
    return s


def fp_requires(s):
    m = s.measured_amplitudes
    b, i, j = I("b"), I("i"), I("j")
    return [("measured-amplitudes>=0", forall([b, i, j], implies(AND(b >= 0, b < lift(m.shape[0]), i >= 0, i < lift(m.shape[1]), j >= 0, j < lift(m.shape[2])),
                                                                 r_term(m.fn(b, i, j)) >= 0)))]


def sum_modes(vals):
    r = 0
    for v in vals:
        r = cm.r_add(r, v)
    return r


def fp_ensures(s):
    res, ctx = s.result, s.ctx
    out = [("shape=overlap.shape", shapes_eq(res.shape, s.overlap_array.shape))]
    if s.mode != "verify":
        return out
    link = getattr(res, "c16_ifft_of", None)
    out.append(("result=ifft2(G, norm='ortho')", z3.BoolVal(link is not None and link[1] == "ortho")))
    if link is None or len(res.shape) != 4:
        return out
    G = link[0]
    M = s.M
    kind = "single" if M == 1 else "mixed"
    b, i, j = lift(s.b0), lift(s.i0), lift(s.j0)
    nr, nc = lift(s.nr), lift(s.nc)
    # the amplitudes the repo's own detector / estimate_amplitudes convention reads from the projected wave at centred pixel (ci, cj)
    got2 = r_term(sum_modes([abs2(G.fn(z3.IntVal(m), b, i, j)) for m in range(M)]))
    meas = r_term(s.measured_amplitudes.fn(b, centre(i, nr), centre(j, nc)))
    even = AND(nr % 2 == 0, nc % 2 == 0)
    if M == 1:
        out += [(f"{kind}:exactly-the-measured-amplitudes[even ROI]", implies(even, got2 == meas * meas)),
                (f"{kind}:exactly-the-measured-amplitudes[odd ROI]", implies(NOT(even), got2 == meas * meas))]
    else:
        # mixed state: the case split isolates the coefficients that vanish in every mode (a scaling projection cannot restore them)
        F = cm.spectrum(ctx, s.overlap_array, "ortho")
        f2 = r_term(sum_modes([abs2(F.fn(z3.IntVal(m), b, i, j)) for m in range(M)]))
        for roi_lab, roi_c in (("even ROI", even), ("odd ROI", NOT(even))):
            out += [(f"{kind}:exactly-the-measured-amplitudes[{roi_lab}, coefficient non-zero in some mode]", implies(AND(roi_c, f2 > 0), got2 == meas * meas)),
                    (f"{kind}:exactly-the-measured-amplitudes[{roi_lab}, coefficient zero in all modes]", implies(AND(roi_c, f2 == 0), got2 == meas * meas))]
    # idempotence: run the REAL body a second time on the projected wave; its spectrum must be the same array
    interp = s.interp
    res2 = interp.call_closure(interp.closure_of(C_FP.real), [s.self, s.measured_amplitudes, res], {})
    link2 = getattr(res2, "c16_ifft_of", None)
    ok2 = link2 is not None and link2[1] == "ortho"
    out.append((f"{kind}:second-projection=ifft2(G2, norm='ortho')", z3.BoolVal(ok2)))
    if ok2:
        G2 = link2[0]
        for m in range(M):
            out.append((f"{kind}:idempotent (spectrum of P(P(psi)) = spectrum of P(psi)), mode {m}", ceq(G2.fn(z3.IntVal(m), b, i, j), G.fn(z3.IntVal(m), b, i, j))))
    return out


def fp_result(ctx, s):
    r = cm.fresh_cx(ctx, "projected", s.overlap_array.shape)
    ctx.ghost["c16_last_projection"] = r
    return r


C_FP = Contract(FP_Q, setup=fp_setup, requires=fp_requires, ensures=fp_ensures, result=fp_result,
                inline=NUMPROBES_INLINE)


def gs_setup(ctx):
    s = fp_setup(ctx)
    s.amplitudes, s.overlap = s.measured_amplitudes, s.overlap_array
    return s


def gs_requires(s):
    s.measured_amplitudes = s.amplitudes
    return fp_requires(s)


def gs_ensures(s):
    res = s.result
    out = [("shape=overlap.shape", shapes_eq(res.shape, s.overlap.shape))]
    proj = s.ctx.ghost.get("c16_last_projection")
    out.append(("calls-fourier_projection", z3.BoolVal(proj is not None)))
    if proj is None or len(res.shape) != 4:
        return out
    m, b, i, j = z3.IntVal(0), lift(s.b0), lift(s.i0), lift(s.j0)
    for m in range(s.M):
        idx = (z3.IntVal(m), b, i, j)
        out.append((f"gradient=P(amplitudes,overlap)-overlap, mode {m}", ceq(res.fn(*idx), proj.fn(*idx) - s.overlap.fn(*idx))))
    return out


C_GS = Contract(f"{PT}:Ptychography.gradient_step", setup=gs_setup, requires=gs_requires, ensures=gs_ensures)


# ------------------------------------------------------------------------------------------------ fourier_shift_expand


def fse_setup(ctx):
    be = backend(ctx)
    cx = True  # the property quantifies over complex arrays / probe stacks; real input is outside the claim (see ASSUMPTIONS)
    N = pos_int(ctx, "npos", 0)
    nr, nc = pos_int(ctx, "nr"), pos_int(ctx, "nc")
    nb = 1 if ctx.branch(ctx.fresh("array_has_batch_axis", "bool").t) else 0
    batch = tuple(pos_int(ctx, f"a{q}") for q in range(nb))
    s = NS(N=N, nr=nr, nc=nc, cx=cx, nb=nb, batch=batch)
    s.n0, s.i0, s.j0 = idx_in(ctx, "n0", N), idx_in(ctx, "i0", nr), idx_in(ctx, "j0", nc)
    s.bidx = tuple(idx_in(ctx, f"b{q}", d) for q, d in enumerate(batch))
    g_arr = tuple(lift(x) for x in s.bidx)
    cm.register_generic(ctx, g_arr)
    cm.register_generic(ctx, (lift(s.n0),) + g_arr)
    cm.ctx_state(ctx).points = [(s.n0, s.i0, s.j0)]
    s.array = cm.fresh_cx(ctx, "array", batch + (nr, nc)) if cx else cm.fresh_real(ctx, "array", batch + (nr, nc))
    s.positions = cm.fresh_real(ctx, "positions", (N, 2))
    s.expand_dim = True
    s.case = f"{be},{'complex' if cx else 'real'} array,{nb} batch axes"
    return s


def fse_ensures(s):
    res, ctx = s.result, s.ctx
    want = (s.N,) + tuple(s.array.shape)
    out = [("shape=(N,)+array.shape", shapes_eq(res.shape, want))]
    link = getattr(res, "c16_ifft_of", None)
    out.append(("complex:result=ifft2(G) with default norm", z3.BoolVal(link is not None and link[1] == "backward")))
    if link is None or len(res.shape) != len(want):
        return out
    G = link[0]
    F = cm.spectrum(ctx, s.array, None)
    n, i, j = lift(s.n0), lift(s.i0), lift(s.j0)
    gb = tuple(lift(x) for x in s.bidx)
    r, c = s.positions.fn(n, z3.IntVal(0)), s.positions.fn(n, z3.IntVal(1))
    cm.energy_hint(ctx, G, (n,) + gb, F, gb)
    out += [("complex:G=fft2(array)*exp(-2pi i(fftfreq_r r + fftfreq_c c)) (shift theorem form)",
             ceq(G.fn(n, *gb, i, j), F.fn(*gb, i, j) * ramp_spec(r, c, i, j, s.nr, s.nc))),
            ("complex:total-intensity-preserved", cm.energy(res, (n,) + gb).t == cm.energy(s.array, gb).t)]
    return out


C_FSE = Contract(f"{PU}:fourier_shift_expand", setup=fse_setup, ensures=fse_ensures, inline=AF_INLINE)


# ------------------------------------------------------------------------------------------------ ObjectPixelated.forward (pure-phase object)

OBJPIX_Q = f"{OM}:ObjectPixelated"
OBJ_GETTERS = [f"{OM}:ObjectPixelated.obj", f"{OM}:ObjectPixelated.num_slices", f"{OM}:ObjectBase.obj_type", f"{OM}:ObjectBase.mask",
               "quantem.diffractive_imaging.constraints:BaseConstraints.constraints", f"{OM}:ObjectConstraints.apply_hard_constraints"]


def default_obj_constraints():
    return dict(resolve(f"{OM}:ObjectConstraints").DEFAULT_CONSTRAINTS)


def fwd_setup(ctx):
    import torch

    cm.ctx_state(ctx).backend = "torch"
    Sn, H, W = pos_int(ctx, "S"), pos_int(ctx, "H"), pos_int(ctx, "W")
    B, nr, nc = pos_int(ctx, "B", 0), pos_int(ctx, "nr"), pos_int(ctx, "nc")
    # the RAW optimisation parameter: any complex numbers (after optimiser steps / from_array its modulus is arbitrary);
    # "pure-phase object" is the declared obj_type, the unit modulus must come from the constraint applied by `obj`
    raw = cm.fresh_cx(ctx, "raw_obj", (Sn, H, W))
    me = Obj(OBJPIX, dict(_obj=raw, _obj_type="pure_phase", _constraints=default_obj_constraints(), _mask=torch.tensor([])))
    s = NS(self=me, patch_indices=cm.fresh_real(ctx, "patch_indices", (B, nr, nc), kind="int"), raw=raw, S=Sn, H=H, W=W)
    s.s0, s.b0, s.i0, s.j0 = idx_in(ctx, "s0", Sn), idx_in(ctx, "b0", B), idx_in(ctx, "i0", nr), idx_in(ctx, "j0", nc)
    return s


def fwd_requires(s):
    s.obj_array = s.raw
    return gop_requires(s)


def fwd_ensures(s):
    res = s.result
    if not isinstance(res, SymArr):
        return [("returns the object patches", z3.BoolVal(False))]
    out = [("shape=(S,)+indices.shape", shapes_eq(res.shape, (s.S,) + tuple(s.patch_indices.shape)))]
    if len(res.shape) != 4:
        return out
    v = res.fn(lift(s.s0), lift(s.b0), lift(s.i0), lift(s.j0))
    out.append(("pure-phase object: every transmitted patch element has unit modulus, whatever the modulus of the raw parameter", unit(v)))
    return out


C_FWD = Contract(f"{OM}:ObjectPixelated.forward", setup=fwd_setup, requires=fwd_requires, ensures=fwd_ensures, inline=OBJ_GETTERS)

# ------------------------------------------------------------------------------------------------ ObjectPixelated.backward (adjoint pass)


def bwd_setup(ctx):
    cm.ctx_state(ctx).backend = "torch"
    Sn = 1
    for k in (2, 3, 4):  # slice count unrolled (reversed(range(n)) loop); propagators are DISTINCT symbolic kernels
        if ctx.branch(ctx.fresh(f"num_slices_is_{k}", "bool").t):
            Sn = k
            break
    M = modes_fork(ctx)
    H, W = pos_int(ctx, "H"), pos_int(ctx, "W")
    B, nr, nc = pos_int(ctx, "B", 0), pos_int(ctx, "nr"), pos_int(ctx, "nc")
    raw = cm.fresh_cx(ctx, "raw_obj", (Sn, H, W))
    me = Obj(OBJPIX, dict(_obj=raw, _obj_type="pure_phase"))
    s = NS(self=me, S=Sn, M=M, H=H, W=W)
    s.gradient = cm.fresh_cx(ctx, "gradient", (M, B, nr, nc))
    s.obj_patches = cm.fresh_cx(ctx, "obj_patches", (Sn, B, nr, nc))
    s.shifted_probes = cm.fresh_cx(ctx, "propagated_probes", (Sn, M, B, nr, nc))
    s.propagators = cm.fresh_cx(ctx, "propagators", (Sn - 1, nr, nc)) if Sn > 1 else cm.fresh_cx(ctx, "propagators", (0, nr, nc))
    s.patch_indices = cm.fresh_real(ctx, "patch_indices", (B, nr, nc), kind="int")
    s.i0, s.j0 = idx_in(ctx, "i0", nr), idx_in(ctx, "j0", nc)
    s.m0, s.b0 = idx_in(ctx, "m0", M), idx_in(ctx, "b0", B)
    s.case = f"S={Sn},M={M}"
    return s


def bwd_requires(s):
    return [("indices-in-range(C-order view)", flat_in_range(s.ctx, s.patch_indices, lift(s.H) * lift(s.W)))]


def bwd_ensures(s):
    res = s.result
    out = [("shape=gradient.shape", shapes_eq(res.shape, (s.M,) + tuple(s.obj_patches.shape[1:])) if isinstance(res, SymArr) else z3.BoolVal(False))]
    log = cm.ctx_state(s.ctx).__dict__.get("propagations", [])
    tag = f"[S={s.S}]"
    out.append((f"one back-propagation per slice gap{tag}", z3.BoolVal(len(log) == s.S - 1)))
    if len(log) != s.S - 1:
        return out
    i, j = lift(s.i0), lift(s.j0)
    # the forward pass (overlap_projection) goes from slice t-1 to slice t with propagators[t-1]; back-propagation undoes it
    # ("propagating by a distance and then its negative is the identity") only with the conjugate of THAT kernel
    m, b = lift(s.m0), lift(s.b0)
    wave = s.old.gradient_fn  # the wave entering slice t (before back-transmission)
    for k, rec in enumerate(log):
        t = s.S - 1 - k  # backward visits t = S-1, ..., 1
        want = Cx.of(s.propagators.fn(z3.IntVal(t - 1), i, j)).conj()
        out.append((f"back-propagation from slice {t} to slice {t - 1} uses conj(propagators[{t - 1}]), the kernel of the forward step {t - 1}->{t}{tag}",
                    ceq(rec.kernel_fn(i, j), want)))
        out.append((f"back-transmission through slice {t} multiplies by conj(obj_patches[{t}]) (adjoint of the transmission){tag}",
                    ceq(rec.array_fn(m, b, i, j), Cx.of(wave(m, b, i, j)) * Cx.of(s.obj_patches.fn(z3.IntVal(t), b, i, j)).conj())))
        wave = rec.result_fn
    out.append((f"returned wave = wave at slice 0 times conj(obj_patches[0]){tag}",
                ceq(res.fn(m, b, i, j), Cx.of(wave(m, b, i, j)) * Cx.of(s.obj_patches.fn(z3.IntVal(0), b, i, j)).conj())))
    return out


C_BWD = Contract(f"{OM}:ObjectPixelated.backward", setup=bwd_setup, requires=bwd_requires, ensures=bwd_ensures,
                 snapshot=lambda s: NS(gradient_fn=s.gradient.fn),
                 inline=[f"{OM}:ObjectPixelated.num_slices", f"{OM}:ObjectBase.obj_type"])

CONTRACTS = [C_FTO, C_WL, C_CPA, C_SPB, C_SP, C_GOP, C_PA1, C_PA2, C_OP, C_DET, C_EA, C_FP, C_GS, C_FSE, C_FWD, C_BWD]
# ------------------------------------------------------------------------------------------------ property-level lemmas

cm.enable_trig_schema()


def period_instance(a, b, m):
    """A4 schema instance (2 pi periodicity):  a - b = 2 pi m with m an integer  =>  cos a = cos b and sin a = sin b."""
    COS, SIN = reals.F["cos"], reals.F["sin"]
    return z3.Implies(a - b == 2 * PI * z3.ToReal(m), z3.And(COS(a) == COS(b), SIN(a) == SIN(b)))


def lemma_ramp(ctx):
    """From the postcondition of fourier_translation_operator (ramp_spec) alone."""
    nr, nc, i, j = I("nr"), I("nc"), I("i"), I("j")
    r1, c1, r2, c2 = (Sym(Rl(n)) for n in ("r1", "c1", "r2", "c2"))
    base = [nr >= 1, nc >= 1, i >= 0, i < nr, j >= 0, j < nc]
    R1, R2, R12 = ramp_spec(r1, c1, i, j, nr, nc), ramp_spec(r2, c2, i, j, nr, nc), ramp_spec(r1 + r2, c1 + c2, i, j, nr, nc)
    Rm = ramp_spec(-r1, -c1, i, j, nr, nc)
    out = [("compose-additively: ramp(s1)*ramp(s2)=ramp(s1+s2)", base, ceq(R1 * R2, R12)),
           ("inverse: ramp(s)*ramp(-s)=1", base, ceq(R1 * Rm, Cx(1, 0))),
           ("unit-modulus", base, unit(R1))]
    # integer shift (p, q): the kernel equals the DFT shift-theorem kernel of np.roll by (p, q):  exp(-2 pi i (i p / nr + j q / nc))
    p, q = I("p"), I("q")
    pr, qr = Sym(z3.ToReal(p)), Sym(z3.ToReal(q))
    Rint = ramp_spec(pr, qr, i, j, nr, nc)
    ti = Cx(0, -2.0) * Sym(PI) * Sym(z3.ToReal(i) / z3.ToReal(nr)) * pr
    tj = Cx(0, -2.0) * Sym(PI) * Sym(z3.ToReal(j) / z3.ToReal(nc)) * qr
    roll_kernel = cm.cexp(ti) * cm.cexp(tj)
    a_i = r_term((Cx(0, -2.0) * Sym(PI) * freq(i, nr) * pr).im)
    a_j = r_term((Cx(0, -2.0) * Sym(PI) * freq(j, nc) * qr).im)
    per = [period_instance(a_i, r_term(ti.im), z3.If(i <= (nr - 1) / 2, 0, p)),
           period_instance(a_j, r_term(tj.im), z3.If(j <= (nc - 1) / 2, 0, q))]
    out.append(("integer-shift: ramp(p,q) is the shift-theorem kernel of a circular roll by (p,q)", base + per, ceq(Rint, roll_kernel)))
    return out


def lemma_propagator(ctx):
    """From the postcondition of _compute_propagator_arrays (prop_factors / prop_spec) alone."""
    wl, kr, kc, tr, tc = (Sym(Rl(n)) for n in ("lam", "kr", "kc", "theta_r", "theta_c"))
    d1, d2 = Sym(Rl("dz1")), Sym(Rl("dz2"))
    f1, f2, f12, fm = (prop_factors(wl, d, kr, kc, tr, tc) for d in (d1, d2, d1 + d2, -d1))
    names = ("Fresnel factor", "row-tilt factor", "column-tilt factor")
    out = []
    for k, nm in enumerate(names):
        out.append((f"{nm}: F(dz1)*F(dz2)=F(dz1+dz2)", [], ceq(f1[k] * f2[k], f12[k])))
        out.append((f"{nm}: F(dz)*F(-dz)=1", [], ceq(f1[k] * fm[k], Cx(1, 0))))
    # the kernel is the product of the three factors: additivity / inverse of the product from those of the factors (complex algebra)
    A1, B1, C1, A2, B2, C2, A12, B12, C12 = (Cx(Sym(Rl(n + "_re")), Sym(Rl(n + "_im"))) for n in ("A1", "B1", "C1", "A2", "B2", "C2", "A12", "B12", "C12"))
    hy = [(A1 * A2).eq(A12), (B1 * B2).eq(B12), (C1 * C2).eq(C12)]
    out.append(("kernel: P(dz1)*P(dz2)=P(dz1+dz2) from the factors", hy, ceq((A1 * B1 * C1) * (A2 * B2 * C2), A12 * B12 * C12)))
    out.append(("kernel: unit modulus from unit-modulus factors", [unit(A1), unit(B1), unit(C1)], unit(A1 * B1 * C1)))
    one = Cx(1, 0)
    out.append(("kernel: P(dz)*P(-dz)=1 from the factors", [(A1 * A2).eq(one), (B1 * B2).eq(one), (C1 * C2).eq(one)], ceq((A1 * B1 * C1) * (A2 * B2 * C2), one)))
    return out


def lemma_flatten(ctx):
    """gather (_get_obj_patches) and scatter (sum_patches) address the object through the same C-order flattening."""
    H, W, q, h, w = I("H"), I("W"), I("q"), I("h"), I("w")
    return [("flat->(row,col)->flat", [H >= 1, W >= 1, q >= 0, q < H * W], AND((q / W) * W + q % W == q, q % W >= 0, q % W < W, q / W >= 0)),
            ("row<H", [H >= 1, W >= 1, q >= 0, q < H * W], q / W < H),
            ("(row,col)->flat->(row,col)", [H >= 1, W >= 1, h >= 0, h < H, w >= 0, w < W], AND((h * W + w) / W == h, (h * W + w) % W == w))]


def lemma_shift_indices(ctx):
    """fftshift / ifftshift index maps (A5): what `centre` / `uncentre` do for even and odd sizes."""
    n, i = I("n"), I("i")
    base = [n >= 1, i >= 0, i < n]
    return [("ifftshift-after-fftshift=id (all n)", base, centre(uncentre(i, n), n) == i),
            ("fftshift-after-ifftshift=id (all n)", base, uncentre(centre(i, n), n) == i),
            ("DC: uncentre(n//2)=0", [n >= 1], uncentre(n / 2, n) == 0),
            ("even n: fftshift is an involution (fftshift=ifftshift)", base + [n % 2 == 0], uncentre(i, n) == centre(i, n)),
            ("odd n: fftshift twice = roll by -1 (source index i+1)", base + [n % 2 == 1], uncentre(uncentre(i, n), n) == (i + 1) % n)]


def lemma_projection_pointwise(ctx):
    """Single-mode projection at one Fourier coefficient F = (x, y), measured amplitude a >= 0, written as the code writes it:
    G = a * exp(i * angle(F)); the unit phase factor is well defined for F = 0 too (any angle gives modulus 1)."""
    x, y, a = Sym(Rl("x")), Sym(Rl("y")), Sym(Rl("a"))
    ang = reals.app("atan2", y, x)
    G = a * cis(ang)
    ang2 = reals.app("atan2", G.im, G.re)
    G2 = a * cis(ang2)
    return [("|G|^2=a^2 (incl. F=0)", [a.t >= 0], r_term(abs2(G)) == a.t * a.t),
            ("a=0 => G=0", [a.t == 0], ceq(G, Cx(0, 0))),
            ("idempotent: a*exp(i angle(G)) = G (incl. a=0, F=0)", [a.t >= 0], ceq(G2, G))]


LEMMAS = [Lemma("ramp", lemma_ramp, uses=["fourier_translation_operator"]),
          Lemma("propagator", lemma_propagator, uses=["ProbeBase._compute_propagator_arrays"]),
          Lemma("gather-scatter-flattening", lemma_flatten, uses=["sum_patches_base", "ObjectBase._get_obj_patches"]),
          Lemma("fftshift-index-maps", lemma_shift_indices, uses=["DetectorPixelated.forward", "Ptychography.fourier_projection"]),
          Lemma("projection-pointwise", lemma_projection_pointwise, uses=["Ptychography.fourier_projection"])]
# ------------------------------------------------------------------------------------------------ run-time oracles (replay, bounded stand-ins)


def _cap(n, hi=9):
    n = int(n) if n is not None else 4
    if n < 1:
        n = 1
    if n > hi:
        n = hi if n % 2 == hi % 2 else hi - 1
    return n


def conc_roi(ev, a="nr", b="nc"):
    return (_cap(ev(a, 4)), _cap(ev(b, 4)))


def conc_ramp(ev):
    nr, nc = conc_roi(ev)
    return dict(nr=nr, nc=nc, integer=False, extra=(), expand_dim=True, seed=1)


def conc_shift(ev):
    nr, nc = conc_roi(ev)
    return dict(nr=nr, nc=nc, extra=(), seed=1)


def conc_projection(ev):
    return dict(M=1 if ev("single_mode", True) else 2, B=1, roi=conc_roi(ev), seed=1)


def conc_detector(ev):
    return dict(M=_cap(ev("M", 2), 4), B=1, roi=conc_roi(ev), seed=1)


def conc_ea(ev):
    return dict(M=1 if ev("single_mode", True) else 2, B=1, roi=conc_roi(ev), seed=1)


def conc_energy(ev):
    return dict(S=_cap(ev("S", 2), 5), M=_cap(ev("M", 1), 3), B=1, roi=conc_roi(ev), seed=1)


def conc_patches(ev):
    roi = (_cap(ev("nr", 2), 4), _cap(ev("nc", 2), 4))
    return dict(B=_cap(ev("B", 2), 4), roi=roi, obj=(roi[0] + 2, roi[1] + 1), S=1, seed=1)


def conc_prop(ev):
    return dict(nr=_cap(ev("Sr", ev("nr", 4))), nc=_cap(ev("Sc", ev("nc", 4))), tilt=(1.5, -2.0), seed=1)


for _c, _rt, _fam, _conc in ((C_FTO, RT.rt_ramp, RT.fam_ramp, conc_ramp), (C_FSE, RT.rt_shift, RT.fam_shift, conc_shift),
                             (C_WL, RT.rt_propagator, RT.fam_propagator, conc_prop), (C_CPA, RT.rt_propagator, RT.fam_propagator, conc_prop),
                             (C_PA1, RT.rt_propagator, RT.fam_propagator, conc_prop), (C_PA2, RT.rt_propagator, RT.fam_propagator, conc_prop),
                             (C_SPB, RT.rt_patches, RT.fam_patches, conc_patches), (C_SP, RT.rt_patches, RT.fam_patches, conc_patches),
                             (C_GOP, RT.rt_patches, RT.fam_patches, conc_patches), (C_OP, RT.rt_energy, RT.fam_energy, conc_energy),
                             (C_DET, RT.rt_detector, RT.fam_detector, conc_detector), (C_EA, RT.rt_estimate_amplitudes, RT.fam_estimate_amplitudes, conc_ea),
                             (C_FP, RT.rt_projection, RT.fam_projection, conc_projection), (C_GS, RT.rt_projection, RT.fam_projection, conc_projection),
                             (C_FWD, RT.rt_objforward, RT.fam_objforward, lambda ev: dict(S=_cap(ev("S", 2), 3), M=1, B=1, roi=conc_roi(ev), modulus=(0.5, 1.5), seed=1)),
                             (C_BWD, RT.rt_backward, RT.fam_backward, lambda ev: dict(S=4 if ev("num_slices_is_4", False) else 3, M=1 if ev("single_mode", True) else 2, B=1, roi=conc_roi(ev), seed=1))):
    _c.rt, _c.rt_family, _c.concretize = _rt, _fam, _conc

BOUNDED = [
    Bounded.from_rt("phase ramps: theorem form, unit modulus, additivity, inverse (float64)", RT.rt_ramp, RT.fam_ramp,
                    "ROIs 1x1..7x8 (..16x9 thorough) odd/even/non-square, 3 random + integer positions, shapes with 0..2 extra axes, torch+numpy"),
    Bounded.from_rt("Fourier shift of arrays: energy, additivity, inverse, integer shift = roll", RT.rt_shift, RT.fam_shift,
                    "complex arrays 1x3..7x8 with 0/1 batch axes, torch+numpy"),
    Bounded.from_rt("propagators and propagation: unit modulus, theorem form, additive in dz, inverse, energy", RT.rt_propagator, RT.fam_propagator,
                    "ROIs 1x2..7x8, 4 tilts, 2 energies / samplings, both _propagate_array copies"),
    Bounded.from_rt("gather / scatter: scatter spec, gather spec, <gather(o),p> = <o,scatter(p)>", RT.rt_patches, RT.fam_patches,
                    "1..5 patches of 1x1..5x2 in grids up to 7x6, wrap-around and repeated positions, real and complex, int32/int64 indices"),
    Bounded.from_rt("pure-phase multislice: summed pattern intensity = probe intensity", RT.rt_energy, RT.fam_energy,
                    "1,2,3,5 slices x 1..3 modes x 5 ROIs (odd/even/non-square), with and without tilt, end to end through the real gather, propagators, overlap_projection and detector"),
    Bounded.from_rt("pure-phase ObjectPixelated.forward: unit-modulus patches for any raw parameter, energy through the real chain", RT.rt_objforward, RT.fam_objforward,
                    "1..3 slices x 1,2 modes x 3 ROIs x raw modulus {1, [0.5,1.5], [2,3]} (object built by from_array, obj_type='pure_phase')"),
    Bounded.from_rt("ObjectPixelated.backward undoes overlap_projection; <F psi,g> = <psi,B g>", RT.rt_backward, RT.fam_backward,
                    "1..5 slices with non-uniform thicknesses x 1,2 modes x 3 ROIs, with and without tilt"),
    Bounded.from_rt("detector: Parseval (non-square ROIs), mode sum, DC position", RT.rt_detector, RT.fam_detector, "1,2,4 modes x 10 ROIs 1x1..3x8"),
    Bounded.from_rt("single-mode Fourier projection: exact amplitudes (detector convention), idempotent, gradient_step", RT.rt_projection, RT.fam_projection_single,
                    "8 ROIs (10 thorough), measured zeros, zero Fourier coefficients, tiny amplitudes", klass=RT.klass_projection),
    Bounded.from_rt("mixed-state Fourier projection: exact amplitudes, idempotent (2 and 3 modes)", RT.rt_projection, RT.fam_projection_mixed,
                    "2 and 3 modes x 8 ROIs (10 thorough), measured zeros, zero Fourier coefficients, tiny amplitudes", klass=RT.klass_projection),
    Bounded.from_rt("estimate_amplitudes = sqrt(sum_m |F_ortho|^2) up to the regulariser, centring", RT.rt_estimate_amplitudes, RT.fam_estimate_amplitudes, "1 and 3 modes x 3 ROIs"),
]

TRUSTED = [
    "A4: cos/sin/exp/sqrt/atan2 uninterpreted with the ground lemma instances of pyvc/reals.py; extra schemas of pyvc/lib/c16_models.trig_schema "
    "(angle addition, negation, zero - side condition kept as antecedent) and 2-pi periodicity instances in the integer-shift lemma; tan uninterpreted (no facts)",
    "complex numbers as (re, im) pairs: exp(i t) = (cos t, sin t), |z|^2 = re^2 + im^2, arg z = atan2(im, re) (pyvc/lib/c16_models.Cx)",
    "A5 DFT axioms exactly as stated in pyvc/lib/c16_models.py: Parseval per 2-d slice in the form matching `norm` (instantiated at the generic batch "
    "indices of each contract), Parseval summed over the leading mode axis, ifft2(fft2 x) = x and fft2(ifft2 G) = G for equal norm, fft2 is a function "
    "of its argument; fftshift/ifftshift index maps i -> (i -+ n//2) mod n and preservation of the sum over the shifted axes. The FFT itself is outside reach.",
    "A5 consequences used at property level but not derived here: shift theorem (a spectrum multiplied by exp(-2 pi i (k_r p/nr + k_c q/nc)) is the circular "
    "roll by (p,q)); congruence of ifft2 (equal spectra give equal arrays) - these turn the pointwise spectral identities (lemmas `ramp`, `propagator`, "
    "contract clauses `G=fft2(array)*...`) into 'integer shift = roll', 'compose additively', 'propagate by dz then -dz = identity'",
    "finite sums: Sigma2(nr,nc,summand) with syntactic congruence; sum-extensionality instances (equal summands => equal sums) added by "
    "c16_models.sum_ext_hint; finite regrouping (exchange of two finite sums, Kronecker delta) linking scatter spec to adjointness "
    "<gather(o),p> = <o,scatter(p)> and the per-mode energies of overlap_projection to the detector's mode-summed total - not derived, covered by bounded stand-ins",
    "A6 torch/numpy contracts of pyvc/lib/c16_models.py: index_add_ (accumulating scatter, IndexError out of range), advanced-index gather, C-order reshape, "
    "dtype casts (complex -> real dtype drops the imaginary part), boolean-mask assignment of inf and x/inf = 0, fftfreq, stack, prod; numpy arrays / torch tensors "
    "share one index-function semantics (array_funcs' dispatch is interpreted for both)",
    "generic-index reasoning: clauses proved at arbitrary (fresh, in-range) indices hold for all indices; contracts used at call sites expose their per-slice "
    "energy clauses at the caller's registered generic batch indices only",
    "pyvc engine, z3, cvc5",
]
ASSUMPTIONS = [
    "A1 floats are reals: float32 frequency vectors (kr, kc are cast to float32 in fourier_translation_operator), complex64 propagators and rounding are not modelled; "
    "the float64 bounded stand-ins use tolerances 2e-6 (ramp path) / 1e-9",
    "mixed-state (num_probes > 1) Fourier projection: proved for 2 modes (exact wherever some mode has a non-zero coefficient, idempotent everywhere); more than 2 modes only bounded. "
    "A coefficient that vanishes in ALL modes cannot be restored by the scaling projection (result 0, measured > 0): that clause of the statement fails and is a known finding",
    "estimate_amplitudes / fourier_projection are verified for 1 and 2 probe modes (enumerated); every other contract is for symbolic mode, batch, slice counts and ROI sizes",
    "fourier_shift_expand is verified for COMPLEX arrays with 0 or 1 batch axes and expand_dim=True (torch and numpy). Real input arrays are outside the "
    "property's quantifier ('for all complex arrays/probe stacks') and are not checked; note only: for a real array the function passes dtype=array.dtype, "
    "so the ramp is cast to a real dtype and the result is not the shifted array",
    "estimate_amplitudes: the statement makes no claim about it; its contract only fixes shape, non-negativity, centring and the incoherent mode sum up to a "
    "regulariser 0 <= e <= 1e-6 added to the spectrum (the code's eps for autograd stability)",
    "overlap_projection (symbolic slice count): shapes, propagated_probes[0] = input, overlap = obj[S-1]*propagated[S-1], the step k-1 -> k uses propagators[k-1], "
    "and the energy invariant. ObjectPixelated.backward: slice count unrolled 1..4 with distinct symbolic kernels, 1-2 modes, obj_type pure_phase: per step the "
    "kernel is conj(propagators[t-1]) and the transmission is conj(obj_patches[t]); that these steps compose to backward(F(psi)) = psi uses P*conj(P) = 1 and the "
    "trusted DFT congruence / inverse - end to end only in the bounded stand-in. The object-gradient part of backward (scatter of conj(probe)*grad) is interpreted "
    "but carries no clause",
    "ObjectPixelated.forward: verified for obj_type 'pure_phase' with the default constraint set (no FOV mask, no blur / Butterworth, no identical_slices) and an "
    "arbitrary complex raw parameter; other obj_types / constraint settings belong to C10",
    "adjointness of scatter/gather, 'integer shift = roll', the detector/multislice energy chain across functions rest on the trusted finite-sum / DFT steps listed in TRUSTED",
]
EXPLANATION = ("VCs from the real source of 14 functions (phase ramps, propagators, scatter/gather, propagation, multislice loop with an energy loop invariant, "
               "detector, amplitude estimation, Fourier projection incl. a second symbolic run for idempotence) over complex numbers as real pairs, "
               "trusted DFT axioms (Parseval / inverse / shift maps) and finite-sum terms; property lemmas for additivity, inverse, integer-shift kernel, "
               "flattening and fftshift index maps; float64 run-time oracles as replay and bounded stand-ins")
