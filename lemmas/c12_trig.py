"""C12 lemma machinery (part of the trusted base, kept small and syntactic):

1. `trig_facts(terms)`  - ground instances of the textbook angle-addition / parity identities
        a + b = t  =>  cos t = cos a cos b - sin a sin b   and   sin t = sin a cos b + cos a sin b
        t = -u     =>  cos t = cos u                       and   sin t = -sin u
        t = u      =>  cos t = cos u                       and   sin t = sin u            (pure congruence)
        t = 0      =>  cos t = 1                           and   sin t = 0
   for every cos/sin application occurring in an obligation whose argument is a linear combination of "angle atoms"
   (phi, phi_nm, atan2(..), pi, ...).  The *side condition* (a + b = t etc.) is part of the emitted fact, so the solver - not
   this file - checks that the decomposition chosen here is arithmetically right; what is trusted is only the schema.
   Chains  n x = x + (n-1) x  reduce multiple angles to the atoms cos x, sin x.

2. `diff(t, x)`  - symbolic derivative of a z3 real term w.r.t. the real constant x: linearity, product, quotient,
   chain rule for cos / sin.  Anything else that mentions x is rejected (ValueError), never guessed.

3. `poly_normal_form` - exact polynomial normaliser over Fractions, used (a) to self-check every emitted instance
   numerically-free? no: it is used only for the Lean emitter and for diagnostics; obligations are closed by z3.
"""
from __future__ import annotations

import random
import math
from fractions import Fraction

import z3

from pyvc import reals
from pyvc import values as V

COS, SIN = reals.F["cos"], reals.F["sin"]
K = z3


def _num_value(t):
    """Fraction value of a numeral term (through ToReal), else None."""
    if z3.is_rational_value(t):
        return Fraction(t.numerator_as_long(), t.denominator_as_long())
    if z3.is_int_value(t):
        return Fraction(t.as_long())
    if z3.is_app(t) and t.decl().kind() == z3.Z3_OP_TO_REAL:
        return _num_value(t.arg(0))
    if z3.is_app(t) and t.decl().kind() == z3.Z3_OP_UMINUS:
        v = _num_value(t.arg(0))
        return None if v is None else -v
    return None


def _factors(e):
    """e == coef * prod(rest) with coef a Fraction and rest non-numeral factors; products and quotients by numerals are
    flattened.  (None, [e]) if e is not of that form."""
    v = _num_value(e)
    if v is not None:
        return v, []
    if z3.is_app(e):
        k = e.decl().kind()
        if k == z3.Z3_OP_MUL:
            coef, rest = Fraction(1), []
            for ch in e.children():
                c2, r2 = _factors(ch)
                if c2 is None:
                    rest.append(ch)
                else:
                    coef *= c2
                    rest.extend(r2)
            return coef, rest
        if k == z3.Z3_OP_DIV:
            d = _num_value(e.arg(1))
            if d is not None and d != 0:
                c2, r2 = _factors(e.arg(0))
                if c2 is not None:
                    return c2 / d, r2
        if k == z3.Z3_OP_UMINUS:
            c2, r2 = _factors(e.arg(0))
            if c2 is not None:
                return -c2, r2
    return Fraction(1), [e]


def linear_form(t):
    """t == const + sum coef_i * atom_i  ->  (dict id -> [atom, coef], const).  Non-linear subterms are atoms."""
    lin, const = {}, Fraction(0)

    def add(atom, c):
        k = atom.get_id()
        if k in lin:
            lin[k][1] += c
        else:
            lin[k] = [atom, c]

    def go(e, c):
        nonlocal const
        v = _num_value(e)
        if v is not None:
            const += c * v
            return
        if z3.is_app(e):
            k = e.decl().kind()
            if k == z3.Z3_OP_ADD:
                for ch in e.children():
                    go(ch, c)
                return
            if k == z3.Z3_OP_SUB:
                ch = e.children()
                go(ch[0], c)
                for x in ch[1:]:
                    go(x, -c)
                return
            if k == z3.Z3_OP_UMINUS:
                go(e.arg(0), -c)
                return
            if k in (z3.Z3_OP_MUL, z3.Z3_OP_DIV):
                coef, rest = _factors(e)
                if coef is not None:
                    if len(rest) == 0:
                        const += c * coef
                        return
                    if len(rest) == 1 and rest[0].get_id() != e.get_id():
                        go(rest[0], c * coef)
                        return
                    if len(rest) > 1 and (coef != 1 or k == z3.Z3_OP_DIV):
                        rest = sorted(rest, key=lambda x: x.get_id())
                        prod = rest[0]
                        for r_ in rest[1:]:
                            prod = prod * r_
                        add(prod, c * coef)  # numeral coefficient pulled out of a non-linear product (the product is the atom)
                        return
        add(e, c)

    go(t, Fraction(1))
    return {k: v for k, v in lin.items() if v[1] != 0}, const


def _rv(fr):
    fr = Fraction(fr)
    return z3.RealVal(f"{fr.numerator}/{fr.denominator}") if fr.denominator != 1 else z3.RealVal(fr.numerator)


def _mk(items):
    """canonical term for sum k_i * atom_i (items: list of (atom, Fraction) sorted)."""
    parts = []
    for atom, k in items:
        parts.append(atom if k == 1 else _rv(k) * atom)
    r = parts[0]
    for p in parts[1:]:
        r = r + p
    return r


def _trig_apps(terms):
    out = {}
    seen = set()
    stack = list(terms)
    while stack:
        e = stack.pop()
        i = e.get_id()
        if i in seen:
            continue
        seen.add(i)
        if z3.is_quantifier(e):
            stack.append(e.body())
            continue
        if z3.is_app(e):
            d = e.decl()
            if d.eq(COS) or d.eq(SIN):
                out[e.arg(0).get_id()] = e.arg(0)
            stack.extend(e.children())
    return list(out.values())


# Marker hypothesis: an obligation that carries this (otherwise unconstrained) Boolean constant among its hypotheses asks
# for NO angle-addition instances - its cos/sin applications stay opaque.  Used for the gradient obligations (3), where
# both sides contain the *same* applications cos(m(phi - phi_nm)) / sin(m(phi - phi_nm)) and expanding them would only
# blow the polynomials up.  (Fewer lemma instances can never make a false obligation provable.)
OPAQUE = z3.Bool("c12!trig-applications-stay-opaque")


def _is_pi_times_int(atom):
    """atom is syntactically pi * ToReal(int term) [* ToReal(int term)...]"""
    if not (z3.is_app(atom) and atom.decl().kind() == z3.Z3_OP_MUL):
        return False
    ch = atom.children()
    n_pi = sum(1 for c in ch if c.get_id() == V.PI.get_id())
    others = [c for c in ch if c.get_id() != V.PI.get_id()]
    return n_pi == 1 and others and all(z3.is_app(c) and c.decl().kind() == z3.Z3_OP_TO_REAL for c in others)


def trig_facts(terms, max_facts=4000):
    """Ground instances of the angle-addition schemas that reduce every occurring cos/sin of a linear combination of
    angle atoms to cos/sin of the atoms.  Returns a list of z3 facts (each one an instance of a textbook identity with
    its arithmetic side condition as antecedent)."""
    facts, done = [], set()
    if any(t.get_id() == OPAQUE.get_id() for t in terms):
        return []

    def emit(guard, *eqs):
        body = z3.And(*eqs) if len(eqs) > 1 else eqs[0]
        facts.append(z3.Implies(guard, body))

    def need(arg):
        k = arg.get_id()
        if k in done or len(facts) > max_facts:
            return
        done.add(k)
        if reals._has_var(arg):
            return
        lin, const = linear_form(arg)
        items = sorted(((a, c) for a, c in lin.values()), key=lambda p: p[0].get_id())
        if const != 0:
            items.append((z3.RealVal(1), const))
        # rational multiples: rescale the atom so that all coefficients are integers
        items2 = []
        for atom, c in items:
            if c.denominator != 1:
                atom = atom / _rv(c.denominator)
                c = Fraction(c.numerator)
            items2.append((atom, c))
        items = items2
        # whole periods: an atom pi*K with K integer-valued (ToReal of an Int term) and an even integer coefficient
        per = [(atom, c) for atom, c in items if c % 2 == 0 and _is_pi_times_int(atom)]
        if per:
            rest = arg
            for atom, c in per:
                rest = rest - _rv(c) * atom
            rest = z3.simplify(rest)
            # textbook: cos(t + 2 pi k) = cos t, sin(t + 2 pi k) = sin t for integer k (k = (c/2)*K is an integer term here)
            emit(z3.BoolVal(True), COS(arg) == COS(rest), SIN(arg) == SIN(rest))
            need(rest)
            return
        if not items:
            emit(arg == 0, COS(arg) == 1, SIN(arg) == 0)
            return
        if len(items) == 1:
            atom, c = items[0]
            if c == 1:
                if atom.get_id() != arg.get_id():
                    emit(arg == atom, COS(arg) == COS(atom), SIN(arg) == SIN(atom))
                    need_atom(atom)
                return
            if c < 0:
                u = _mk([(atom, -c)])
                emit(arg == -u, COS(arg) == COS(u), SIN(arg) == -SIN(u))
                need(u)
                return
            a, b = atom, _mk([(atom, c - 1)])
        else:
            a, b = _mk(items[:1]), _mk(items[1:])
        emit(a + b == arg,
             COS(arg) == COS(a) * COS(b) - SIN(a) * SIN(b),
             SIN(arg) == SIN(a) * COS(b) + COS(a) * SIN(b))
        need(a)
        need(b)

    def need_atom(atom):
        done.add(atom.get_id())

    for a in _trig_apps(terms):
        need(a)
    return facts


# ---------------------------------------------------------------------------------------------------------------------
# symbolic differentiation
# ---------------------------------------------------------------------------------------------------------------------


def _mentions(t, x, cache):
    k = t.get_id()
    if k in cache:
        return cache[k]
    r = t.get_id() == x.get_id() or any(_mentions(c, x, cache) for c in t.children())
    cache[k] = r
    return r


def diff(t, x, _cache=None, _m=None):
    """d t / d x for a real z3 term t and a real constant x."""
    cache = {} if _cache is None else _cache
    m = {} if _m is None else _m
    k = t.get_id()
    if k in cache:
        return cache[k]
    zero, one = z3.RealVal(0), z3.RealVal(1)

    def d(e):
        return diff(e, x, cache, m)

    if t.get_id() == x.get_id():
        r = one
    elif not _mentions(t, x, m):
        r = zero
    elif not z3.is_app(t):
        raise ValueError(f"cannot differentiate {t}")
    else:
        kind = t.decl().kind()
        ch = t.children()
        if kind == z3.Z3_OP_ADD:
            r = None
            for c in ch:
                dc = d(c)
                if z3.is_rational_value(dc) and dc.numerator_as_long() == 0:
                    continue
                r = dc if r is None else r + dc
            r = zero if r is None else r
        elif kind == z3.Z3_OP_SUB:
            r = d(ch[0])
            for c in ch[1:]:
                r = r - d(c)
        elif kind == z3.Z3_OP_UMINUS:
            r = -d(ch[0])
        elif kind == z3.Z3_OP_MUL:
            r = None
            for i, c in enumerate(ch):
                if not _mentions(c, x, m):
                    continue
                term = d(c)
                for j, o in enumerate(ch):
                    if j != i:
                        term = term * o
                r = term if r is None else r + term
            r = zero if r is None else r
        elif kind == z3.Z3_OP_DIV:
            u, v = ch
            if not _mentions(v, x, m):
                r = d(u) / v
            else:
                r = (d(u) * v - u * d(v)) / (v * v)
        elif t.decl().eq(COS):
            r = -SIN(ch[0]) * d(ch[0])
        elif t.decl().eq(SIN):
            r = COS(ch[0]) * d(ch[0])
        elif kind == z3.Z3_OP_TO_REAL:
            raise ValueError(f"integer-valued term depends on the differentiation variable: {t}")
        else:
            raise ValueError(f"no differentiation rule for {t.decl().name()} in {str(t)[:80]}")
    cache[k] = r
    return r


# ---------------------------------------------------------------------------------------------------------------------
# numeric evaluation of terms (self-check of the emitted instances / of the differentiator, and for run-time oracles)
# ---------------------------------------------------------------------------------------------------------------------


def eval_float(t, env, _cache=None):
    """Evaluate a real/bool z3 term with floats; env: id -> float for atoms (constants / applications)."""
    cache = {} if _cache is None else _cache
    k = t.get_id()
    if k in cache:
        return cache[k]
    v = _num_value(t)
    if v is not None:
        r = float(v)
    elif k in env:
        r = env[k]
    else:
        kind = t.decl().kind()
        ch = [eval_float(c, env, cache) for c in t.children()]
        if kind == z3.Z3_OP_ADD:
            r = sum(ch)
        elif kind == z3.Z3_OP_SUB:
            r = ch[0] - sum(ch[1:])
        elif kind == z3.Z3_OP_UMINUS:
            r = -ch[0]
        elif kind == z3.Z3_OP_MUL:
            r = 1.0
            for c in ch:
                r *= c
        elif kind == z3.Z3_OP_DIV:
            r = ch[0] / ch[1]
        elif kind == z3.Z3_OP_TO_REAL:
            r = float(ch[0])
        elif t.decl().eq(COS):
            r = math.cos(ch[0])
        elif t.decl().eq(SIN):
            r = math.sin(ch[0])
        elif t.decl().eq(reals.F["sqrt"]):
            r = math.sqrt(ch[0])
        elif t.decl().eq(reals.F["atan2"]):
            r = math.atan2(ch[0], ch[1])
        elif t.get_id() == V.PI.get_id():
            r = math.pi
        else:
            raise KeyError(f"no value for {str(t)[:60]}")
    cache[k] = r
    return r


# ---------------------------------------------------------------------------------------------------------------------
# exact division of a polynomial term by a variable (used for (1/alpha) d chi / d phi).  NOT trusted: the caller states the
# obligation  x * divide_by(t, x) == t  and z3 proves it.
# ---------------------------------------------------------------------------------------------------------------------


def divide_by(t, x, _m=None):
    """A term q with x*q == t, obtained by removing one factor x from every summand; ValueError if some summand has none."""
    m = {} if _m is None else _m
    if t.get_id() == x.get_id():
        return z3.RealVal(1)
    v = _num_value(t)
    if v is not None and v == 0:
        return z3.RealVal(0)
    if not z3.is_app(t) or not _mentions(t, x, m):
        raise ValueError(f"summand without a factor {x}: {str(t)[:80]}")
    kind = t.decl().kind()
    ch = t.children()
    if kind == z3.Z3_OP_ADD:
        r = None
        for c in ch:
            q = divide_by(c, x, m)
            r = q if r is None else r + q
        return r
    if kind == z3.Z3_OP_SUB:
        r = divide_by(ch[0], x, m)
        for c in ch[1:]:
            r = r - divide_by(c, x, m)
        return r
    if kind == z3.Z3_OP_UMINUS:
        return -divide_by(ch[0], x, m)
    if kind == z3.Z3_OP_MUL:
        # a zero factor makes the product zero
        if any(_num_value(c) == 0 for c in ch):
            return z3.RealVal(0)
        for i, c in enumerate(ch):
            if _mentions(c, x, m):
                try:
                    q = divide_by(c, x, m)
                except ValueError:
                    continue
                r = None
                for j, o in enumerate(ch):
                    f = q if j == i else o
                    r = f if r is None else r * f
                return r
        raise ValueError(f"no factor {x} in product {str(t)[:80]}")
    if kind == z3.Z3_OP_DIV and not _mentions(ch[1], x, m):
        return divide_by(ch[0], x, m) / ch[1]
    raise ValueError(f"cannot divide {str(t)[:80]} by {x}")
