/-
  Discrete lemma schemas that the pyvc engine / the contract modules use WITHOUT proof by the SMT solvers, proved from Mathlib.

  D1  values.RowMajor (pyvc/values.py): the C-order bijection between index tuples and linear indices for SYMBOLIC extents is
      axiomatised by uninterpreted functions lin / unr_a.  The axioms hold for  lin(idx, i) = lin(idx) * d + i,
      unr_last(v) = v % d, unr_a(v) = unr_a(v / d)  by induction on the number of axes; the induction step and the explicit
      2-D and 3-D instances are proved here.
  D2  C17 path induction: a function that agrees on adjacent vertices is constant on connected regions (equivalence closure of
      the adjacency relation), hence `out - phi_true = c(root)` is one constant per connected region of the mask.
  D3  C09 T1 telescoping: sum_{k<n} (P(k+1) - P(k)) = P(n) - P(0)  (prefix-sum certificate of subdivide/generate_batches).
-/
import Mathlib.Algebra.BigOperators.Group.Finset.Basic
import Mathlib.Algebra.BigOperators.Intervals
import Mathlib.Logic.Relation
import Mathlib.Tactic.Ring
import Mathlib.Tactic.Linarith
import Mathlib.Tactic.NormNum
import Mathlib.Algebra.Order.Group.Int
import Mathlib.Data.Int.Basic
import Mathlib.Data.Real.Basic

namespace A4

/-- D1 step, forward: appending an axis of extent d to a linear index L' in [0,T). -/
theorem rowmajor_step_lin (T d L' i : ℤ) (hL0 : 0 ≤ L') (hLT : L' < T) (hi0 : 0 ≤ i) (hid : i < d) :
    0 ≤ L' * d + i ∧ L' * d + i < T * d ∧ (L' * d + i) / d = L' ∧ (L' * d + i) % d = i := by
  have hd : 0 < d := lt_of_le_of_lt hi0 hid
  refine ⟨by positivity, ?_, ?_, ?_⟩
  · have : (L' + 1) * d ≤ T * d := by
      apply mul_le_mul_of_nonneg_right _ hd.le
      linarith
    nlinarith
  · rw [add_comm, Int.add_mul_ediv_right _ _ hd.ne', Int.ediv_eq_zero_of_lt hi0 hid, zero_add]
  · rw [add_comm, Int.add_mul_emod_self_right, Int.emod_eq_of_lt hi0 hid]

/-- D1 step, backward: splitting a linear index v in [0, T*d) into (v / d, v % d). -/
theorem rowmajor_step_unr (T d v : ℤ) (hd : 0 < d) (hv0 : 0 ≤ v) (hvT : v < T * d) :
    0 ≤ v / d ∧ v / d < T ∧ 0 ≤ v % d ∧ v % d < d ∧ (v / d) * d + v % d = v := by
  refine ⟨Int.ediv_nonneg hv0 hd.le, ?_, Int.emod_nonneg _ hd.ne', Int.emod_lt_of_pos _ hd, ?_⟩
  · exact Int.ediv_lt_of_lt_mul hd hvT
  · have h := Int.emod_add_mul_ediv v d
    linarith [h, mul_comm d (v / d)]

/-- D1, explicit 2-D instance: lin(i, j) = i * W + j, unr0(v) = v / W, unr1(v) = v % W satisfy both RowMajor axioms. -/
theorem rowmajor_2d_lin (H W i j : ℤ) (hi0 : 0 ≤ i) (hiH : i < H) (hj0 : 0 ≤ j) (hjW : j < W) :
    0 ≤ (0 * H + i) * W + j ∧ (0 * H + i) * W + j < H * W ∧ ((0 * H + i) * W + j) / W = i ∧ ((0 * H + i) * W + j) % W = j := by
  have h := rowmajor_step_lin H W i j hi0 hiH hj0 hjW
  simpa using h

theorem rowmajor_2d_unr (H W v : ℤ) (hv0 : 0 ≤ v) (hvT : v < H * W) (hW : 0 < W) :
    0 ≤ v / W ∧ v / W < H ∧ 0 ≤ v % W ∧ v % W < W ∧ (0 * H + v / W) * W + v % W = v := by
  have h := rowmajor_step_unr H W v hW hv0 hvT
  simpa using h

/-- D1, explicit 3-D instance: lin(i, j, k) = (i * B + j) * C + k; unr0 = v / C / B, unr1 = v / C % B, unr2 = v % C. -/
theorem rowmajor_3d_lin (A B C i j k : ℤ) (hi0 : 0 ≤ i) (hiA : i < A) (hj0 : 0 ≤ j) (hjB : j < B) (hk0 : 0 ≤ k) (hkC : k < C) :
    0 ≤ (i * B + j) * C + k ∧ (i * B + j) * C + k < A * B * C ∧
      ((i * B + j) * C + k) / C / B = i ∧ ((i * B + j) * C + k) / C % B = j ∧ ((i * B + j) * C + k) % C = k := by
  obtain ⟨h1, h2, h3, h4⟩ := rowmajor_step_lin A B i j hi0 hiA hj0 hjB
  obtain ⟨g1, g2, g3, g4⟩ := rowmajor_step_lin (A * B) C (i * B + j) k h1 h2 hk0 hkC
  exact ⟨g1, g2, by rw [g3, h3], by rw [g3, h4], g4⟩

theorem rowmajor_3d_unr (A B C v : ℤ) (hB : 0 < B) (hC : 0 < C) (hv0 : 0 ≤ v) (hvT : v < A * B * C) :
    0 ≤ v / C / B ∧ v / C / B < A ∧ 0 ≤ v / C % B ∧ v / C % B < B ∧ 0 ≤ v % C ∧ v % C < C ∧
      ((v / C / B) * B + v / C % B) * C + v % C = v := by
  obtain ⟨h1, h2, h3, h4, h5⟩ := rowmajor_step_unr (A * B) C v hC hv0 hvT
  obtain ⟨g1, g2, g3, g4, g5⟩ := rowmajor_step_unr A B (v / C) hB h1 h2
  exact ⟨g1, g2, g3, g4, h3, h4, by rw [g5, h5]⟩

/-- D2: a function that agrees on adjacent vertices is constant on every class of the equivalence closure of adjacency
    (= connected region of the undirected neighbour graph). -/
theorem same_root_of_connected {α β : Type*} (adj : α → α → Prop) (R : α → β)
    (h : ∀ u v, adj u v → R u = R v) : ∀ u v, Relation.EqvGen adj u v → R u = R v := by
  intro u v huv
  induction huv with
  | rel x y hxy => exact h x y hxy
  | refl x => rfl
  | symm x y _ ih => exact ih.symm
  | trans x y z _ _ ih1 ih2 => exact ih1.trans ih2

/-- D2 corollary in the form used by C17: if `out - phi_true` depends on the union-find root only and adjacent valid pixels
    share a root, then `out - phi_true` is one constant on every connected region. -/
theorem constant_on_connected_regions {α : Type*} (adj : α → α → Prop) (R : α → α) (res : α → ℝ)
    (hroot : ∀ u v, R u = R v → res u = res v) (hadj : ∀ u v, adj u v → R u = R v) :
    ∀ u v, Relation.EqvGen adj u v → res u = res v :=
  fun u v huv => hroot u v (same_root_of_connected adj R hadj u v huv)

/-- D3 (T1): telescoping of the prefix-sum certificate. -/
theorem telescoping (P : ℕ → ℤ) (n : ℕ) : (∑ k ∈ Finset.range n, (P (k + 1) - P k)) = P n - P 0 :=
  Finset.sum_range_sub P n

/-- D3 in the form used by C09: batch sizes s_k = P(k+1) - P(k) with P 0 = 0 and P n = N sum to N. -/
theorem sizes_sum_to_total (P : ℕ → ℤ) (n : ℕ) (N : ℤ) (h0 : P 0 = 0) (hn : P n = N) :
    (∑ k ∈ Finset.range n, (P (k + 1) - P k)) = N := by
  rw [telescoping, h0, hn, sub_zero]

end A4

#print axioms A4.rowmajor_step_lin
#print axioms A4.rowmajor_step_unr
#print axioms A4.rowmajor_2d_lin
#print axioms A4.rowmajor_2d_unr
#print axioms A4.rowmajor_3d_lin
#print axioms A4.rowmajor_3d_unr
#print axioms A4.same_root_of_connected
#print axioms A4.constant_on_connected_regions
#print axioms A4.telescoping
#print axioms A4.sizes_sum_to_total

