"""C16 run-time oracles: the statements of contracts/C16.py evaluated on the REAL functions with concrete float64 / complex128
inputs (replay of counter-models, fallback search, bounded stand-ins).  Nothing here re-implements repository code: every
oracle calls the real function and compares against the property's identity (computed with numpy in float64)."""
from __future__ import annotations

import types

TOL = 2e-6       # identities that go through the float32 frequency vectors of fourier_translation_operator (kr, kc are float32)
TOL64 = 1e-9     # identities evaluated entirely in float64 / complex128


def _mods():
    import numpy as np
    import torch

    if torch.get_num_threads() != 1:
        torch.set_num_threads(1)  # tiny arrays: intra-op threading only costs (and fights with the other checks' processes)
    from quantem.diffractive_imaging import ptycho_utils as pu
    from quantem.diffractive_imaging.ptychography_base import PtychographyBase
    from quantem.diffractive_imaging.ptychography import Ptychography
    from quantem.diffractive_imaging.probe_models import ProbeBase
    from quantem.diffractive_imaging.object_models import ObjectBase
    from quantem.diffractive_imaging.detector_models import DetectorPixelated

    return types.SimpleNamespace(np=np, torch=torch, pu=pu, PB=PtychographyBase, PT=Ptychography, PRB=ProbeBase, OB=ObjectBase,
                                 DET=DetectorPixelated)


def _stub(**attrs):
    """A plain namespace standing in for `self`; real (unbound) methods are bound onto it with `_bind`."""
    return types.SimpleNamespace(**attrs)


def _bind(stub, cls, *names):
    for n in names:
        setattr(stub, n, types.MethodType(cls.__dict__[n], stub))
    return stub


def _res(problems, expected):
    return dict(violated=bool(problems), observed="; ".join(problems[:3]) or "ok", expected=expected)


def _cplx(rng, shape):
    return rng.normal(size=shape) + 1j * rng.normal(size=shape)


# ------------------------------------------------------------------------------------------------ translation operator


def rt_ramp(inp):
    """fourier_translation_operator: theorem form exp(-2 pi i (k_r r + k_c c)) with k = fftfreq, unit modulus, additivity, inverse, shape."""
    m = _mods()
    np, torch = m.np, m.torch
    nr, nc = inp["nr"], inp["nc"]
    rng = np.random.default_rng(inp["seed"])
    npos = inp.get("npos", 3)
    s1 = rng.uniform(-4, 4, size=(npos, 2))
    s2 = rng.uniform(-4, 4, size=(npos, 2))
    if inp.get("integer"):
        s1, s2 = np.round(s1), np.round(s2)
    extra = tuple(inp.get("extra", ()))
    shape = extra + (nr, nc)
    expand = inp.get("expand_dim", True)
    t = lambda a: torch.tensor(a, dtype=torch.float64)
    problems = []
    for backend in inp.get("backends", ("torch", "numpy")):
        conv = t if backend == "torch" else (lambda a: np.asarray(a, dtype=np.float64))
        R1 = np.asarray(m.pu.fourier_translation_operator(conv(s1), shape, expand))
        R2 = np.asarray(m.pu.fourier_translation_operator(conv(s2), shape, expand))
        R12 = np.asarray(m.pu.fourier_translation_operator(conv(s1 + s2), shape, expand))
        Rm = np.asarray(m.pu.fourier_translation_operator(conv(-s1), shape, expand))
        want_shape = (npos,) + ((1,) * len(extra) if expand else ()) + (nr, nc)
        if R1.shape != want_shape:
            problems.append(f"[{backend}] ramp shape {R1.shape}, expected {want_shape}")
            continue
        kr, kc = np.fft.fftfreq(nr), np.fft.fftfreq(nc)
        want = np.exp(-2j * np.pi * (kr[None, :, None] * s1[:, 0][:, None, None] + kc[None, None, :] * s1[:, 1][:, None, None])).reshape(want_shape)
        if np.abs(R1 - want).max() > TOL:
            problems.append(f"[{backend}] ramp differs from exp(-2 pi i (fftfreq_r r + fftfreq_c c)) by {np.abs(R1 - want).max():.3e}")
        if np.abs(np.abs(R1) - 1).max() > TOL:
            problems.append(f"[{backend}] |ramp| != 1 (max dev {np.abs(np.abs(R1) - 1).max():.3e})")
        if np.abs(R1 * R2 - R12).max() > TOL:
            problems.append(f"[{backend}] ramp(s1)*ramp(s2) != ramp(s1+s2) (max dev {np.abs(R1 * R2 - R12).max():.3e})")
        if np.abs(R1 * Rm - 1).max() > TOL:
            problems.append(f"[{backend}] ramp(s)*ramp(-s) != 1 (max dev {np.abs(R1 * Rm - 1).max():.3e})")
    return _res(problems, "ramp[n,..,i,j] = exp(-2 pi i (fftfreq(nr)[i] r_n + fftfreq(nc)[j] c_n)); unit modulus; additive; inverse; shape (N,[1..],nr,nc)")


def fam_ramp(tier="quick", seed=0):
    shapes = [(1, 1), (1, 4), (2, 2), (3, 3), (4, 4), (4, 5), (5, 4), (5, 5), (6, 3), (7, 8)] + ([(16, 9), (11, 12)] if tier == "thorough" else [])
    for (nr, nc) in shapes:
        for integer in (False, True):
            yield dict(nr=nr, nc=nc, integer=integer, extra=(), expand_dim=True, seed=seed + nr * 13 + nc)
        yield dict(nr=nr, nc=nc, integer=False, extra=(2,), expand_dim=True, seed=seed + nr + nc)
        yield dict(nr=nr, nc=nc, integer=False, extra=(2, 3), expand_dim=True, seed=seed + nr + 2 * nc)
        yield dict(nr=nr, nc=nc, integer=False, extra=(2,), expand_dim=False, seed=seed + nr + 3 * nc)


# ------------------------------------------------------------------------------------------------ fourier_shift_expand


def rt_shift(inp):
    """fourier_shift_expand on complex arrays (and, class 'real-input', on real arrays): energy, additivity, inverse, integer shift = roll."""
    import warnings

    with warnings.catch_warnings():
        warnings.simplefilter("ignore")  # the real-array path triggers "Casting complex values to real discards the imaginary part"
        return _rt_shift(inp)


def _rt_shift(inp):
    m = _mods()
    np, torch = m.np, m.torch
    nr, nc = inp["nr"], inp["nc"]
    rng = np.random.default_rng(inp["seed"])
    extra = tuple(inp.get("extra", ()))
    real_input = inp.get("real_input", False)
    x = rng.normal(size=extra + (nr, nc)) if real_input else _cplx(rng, extra + (nr, nc))
    s1 = rng.uniform(-3, 3, size=(2, 2))
    s2 = rng.uniform(-3, 3, size=(2, 2))
    si = rng.integers(-2 * max(nr, nc), 2 * max(nr, nc) + 1, size=(2, 2))
    problems = []
    for backend in inp.get("backends", ("torch", "numpy")):
        if backend == "torch":
            conv = lambda a: torch.tensor(a)
            pos = lambda a: torch.tensor(np.asarray(a, dtype=np.float64))
        else:
            conv = lambda a: np.asarray(a)
            pos = lambda a: np.asarray(a, dtype=np.float64)
        f = lambda arr, p: np.asarray(m.pu.fourier_shift_expand(conv(arr), pos(p)))
        y1 = f(x, s1)
        if y1.shape != (2,) + x.shape:
            problems.append(f"[{backend}] result shape {y1.shape}, expected {(2,) + x.shape}")
            continue
        if np.iscomplexobj(y1) != (not real_input):
            problems.append(f"[{backend}] result complexness {np.iscomplexobj(y1)} for {'real' if real_input else 'complex'} input")
        ax = tuple(range(1, y1.ndim))
        e0 = (np.abs(x) ** 2).sum()
        if not real_input:
            e1 = (np.abs(y1) ** 2).sum(axis=ax)
            if np.abs(e1 - e0).max() > TOL * max(1.0, e0):
                problems.append(f"[{backend}] total intensity {e1.tolist()} after shift, {e0:.6f} before")
        # integer shift = circular roll
        yi = f(x, si)
        for n in range(2):
            want = np.roll(x, (int(si[n, 0]), int(si[n, 1])), axis=(-2, -1))
            if np.abs(yi[n] - want).max() > 5 * TOL * (1 + max(nr, nc)):
                problems.append(f"[{backend}] integer shift {si[n].tolist()} is not the circular roll (max dev {np.abs(yi[n] - want).max():.3e})")
                break
        # additivity and inverse, position by position (shift the n-th result by the n-th second shift)
        for n in range(2):
            y12 = f(y1[n], s2[n:n + 1])[0]
            ysum = f(x, (s1 + s2)[n:n + 1])[0]
            if real_input and (nr % 2 == 0 or nc % 2 == 0):
                break  # the Nyquist bin of a real array is not shift-additive after taking the real part (mathematical, not a defect)
            if np.abs(y12 - ysum).max() > 5 * TOL:
                problems.append(f"[{backend}] shift(shift(x,s1),s2) != shift(x,s1+s2) (max dev {np.abs(y12 - ysum).max():.3e})")
                break
            yb = f(y1[n], -s1[n:n + 1])[0]
            if np.abs(yb - x).max() > 5 * TOL:
                problems.append(f"[{backend}] shift by s then -s is not the identity (max dev {np.abs(yb - x).max():.3e})")
                break
    return _res(problems, "sum|y|^2 = sum|x|^2; shift(s1) then shift(s2) = shift(s1+s2); shift(s) then shift(-s) = id; integer shift = np.roll")


def klass_shift(inp, res):
    return "real-input" if inp.get("real_input") else "complex-input"


def fam_shift(tier="quick", seed=0):
    shapes = [(1, 3), (2, 2), (3, 3), (4, 4), (4, 5), (5, 4), (5, 5), (6, 3), (7, 8)] + ([(16, 9), (11, 12)] if tier == "thorough" else [])
    for (nr, nc) in shapes:
        yield dict(nr=nr, nc=nc, extra=(), seed=seed + nr * 17 + nc)
        yield dict(nr=nr, nc=nc, extra=(2,), seed=seed + nr * 19 + nc)


# ------------------------------------------------------------------------------------------------ propagators / propagation


def _probe_stub(m, roi, energy, tilt):
    return _stub(roi_shape=m.np.asarray(roi), device="cpu", probe_params={"energy": energy},
                 probe_tilt=m.torch.tensor(tilt, dtype=m.torch.float64))


def _propagators(m, roi, sampling, energy, tilt, dzs):
    st = _probe_stub(m, roi, energy, tilt)
    return m.PRB._compute_propagator_arrays(st, sampling, len(dzs) + 1, m.np.asarray(dzs, dtype=float))


def rt_propagator(inp):
    """_compute_propagator_arrays + _propagate_array (both copies): unit modulus, theorem form, additivity in dz, inverse, energy."""
    m = _mods()
    np, torch = m.np, m.torch
    nr, nc = inp["nr"], inp["nc"]
    rng = np.random.default_rng(inp["seed"])
    sampling = tuple(inp.get("sampling", (0.31, 0.47)))
    energy = inp.get("energy", 80e3)
    tilt = tuple(inp.get("tilt", (0.0, 0.0)))
    dz1, dz2 = inp.get("dz", (7.3, 11.9))
    problems = []
    P = _propagators(m, (nr, nc), sampling, energy, tilt, [dz1, dz2, dz1 + dz2, -dz1])
    P = P.to(torch.complex128).numpy() if P.numel() else P.numpy()
    if P.shape != (4, nr, nc):
        problems.append(f"propagator stack shape {P.shape}, expected {(4, nr, nc)}")
        return _res(problems, "shape (num_slices-1, Sr, Sc)")
    P1 = _propagators(m, (nr, nc), sampling, energy, tilt, [])
    if P1.numel() != 0:
        problems.append("num_slices == 1 must give an empty propagator stack")
    tol = 3e-5  # complex64 kernels
    from quantem.core.utils.utils import electron_wavelength_angstrom

    lam = electron_wavelength_angstrom(energy)
    kr, kc = np.fft.fftfreq(nr, sampling[0]), np.fft.fftfreq(nc, sampling[1])
    k2 = kr[:, None] ** 2 + kc[None] ** 2
    want = np.exp(-1j * np.pi * lam * dz1 * k2) * np.exp(-2j * np.pi * dz1 * np.tan(tilt[0] / 1e3) * kr[:, None]) * np.exp(-2j * np.pi * dz1 * np.tan(tilt[1] / 1e3) * kc[None])
    if np.abs(P[0] - want).max() > tol * (1 + abs(dz1) * k2.max()):
        problems.append(f"P(dz) differs from exp(-i pi lam dz k^2) exp(-2 pi i dz (tan(tr) kr + tan(tc) kc)) by {np.abs(P[0] - want).max():.3e}")
    if np.abs(np.abs(P) - 1).max() > tol:
        problems.append(f"|P| != 1 (max dev {np.abs(np.abs(P) - 1).max():.3e})")
    if np.abs(P[0] * P[1] - P[2]).max() > tol * 10:
        problems.append(f"P(dz1) P(dz2) != P(dz1+dz2) (max dev {np.abs(P[0] * P[1] - P[2]).max():.3e})")
    if np.abs(P[0] * P[3] - 1).max() > tol * 10:
        problems.append(f"P(dz) P(-dz) != 1 (max dev {np.abs(P[0] * P[3] - 1).max():.3e})")
    # propagation with these kernels (exact unit-modulus float64 kernels built from the checked phase so tolerances stay tight)
    Pt = torch.tensor(P / np.abs(P))
    x = torch.tensor(_cplx(rng, (2, 3, nr, nc)))
    for cls, who in ((m.PB, "PtychographyBase"), (m.OB, "ObjectBase")):
        st = _stub()
        f = lambda a, p, _c=cls, _s=st: _c.__dict__["_propagate_array"](_s, a, p)
        y = f(x, Pt[0])
        e0, e1 = (x.abs() ** 2).sum(dim=(-2, -1)), (y.abs() ** 2).sum(dim=(-2, -1))
        if (e0 - e1).abs().max().item() > 1e-9 * e0.max().item():
            problems.append(f"{who}._propagate_array changes the total intensity ({e0.flatten()[0].item():.6f} -> {e1.flatten()[0].item():.6f})")
        if (f(y, Pt[3]) - x).abs().max().item() > 1e-6:
            problems.append(f"{who}: propagate(dz) then propagate(-dz) is not the identity (max dev {(f(y, Pt[3]) - x).abs().max().item():.3e})")
        if (f(y, Pt[1]) - f(x, Pt[2])).abs().max().item() > 1e-5:
            problems.append(f"{who}: propagate(dz1) then (dz2) != propagate(dz1+dz2) (max dev {(f(y, Pt[1]) - f(x, Pt[2])).abs().max().item():.3e})")
        want_y = np.fft.ifft2(np.fft.fft2(x.numpy()) * Pt[0].numpy())
        if np.abs(y.numpy() - want_y).max() > 1e-9:
            problems.append(f"{who}._propagate_array != ifft2(fft2(x) * P)")
    return _res(problems, "|P|=1; P(dz1)P(dz2)=P(dz1+dz2); P(dz)P(-dz)=1; propagation preserves sum|x|^2, composes additively, inverse")


def fam_propagator(tier="quick", seed=0):
    for (nr, nc) in [(1, 2), (2, 2), (3, 3), (4, 4), (4, 5), (5, 4), (6, 3), (7, 8)]:
        for tilt in ((0.0, 0.0), (3.0, 0.0), (0.0, -2.0), (4.0, 5.0)):
            yield dict(nr=nr, nc=nc, tilt=tilt, dz=(7.3, 11.9), energy=80e3, sampling=(0.31, 0.47), seed=seed + nr + 5 * nc)
        yield dict(nr=nr, nc=nc, tilt=(1.0, 2.0), dz=(2.5, 40.0), energy=300e3, sampling=(0.2, 0.2), seed=seed + nr + 7 * nc)


# ------------------------------------------------------------------------------------------------ gather / scatter


def _patch_indices(np, rng, B, roi, obj_shape, wrap=True, repeats=True):
    """Patch index sets as dataset_models._set_patch_indices builds them: corner-centred windows, wrapped into the object grid."""
    nr, nc = roi
    H, W = obj_shape
    r0 = rng.integers(0, H if wrap else max(1, H - nr), size=B)
    c0 = rng.integers(0, W if wrap else max(1, W - nc), size=B)
    if repeats and B > 1:
        r0[-1], c0[-1] = r0[0], c0[0]
    xi = np.round(np.fft.fftfreq(nr, 1 / nr)).astype(int)
    yi = np.round(np.fft.fftfreq(nc, 1 / nc)).astype(int)
    row = (r0[:, None, None] + xi[None, :, None]) % H
    col = (c0[:, None, None] + yi[None, None, :]) % W
    return (row * W + col).astype(np.int64)


class _RealDT(dict):
    def __missing__(self, k):
        import torch

        return {torch.complex64: torch.float32, torch.complex128: torch.float64}.get(k, k)


_REAL_DT = _RealDT()


def rt_patches(inp):
    """sum_patches(_base) / _get_obj_patches: scatter spec, gather spec, scatter = adjoint of gather."""
    m = _mods()
    np, torch = m.np, m.torch
    rng = np.random.default_rng(inp["seed"])
    B, (nr, nc), (H, W), S = inp["B"], inp["roi"], inp["obj"], inp.get("S", 1)
    idx = _patch_indices(np, rng, B, (nr, nc), (H, W))
    tidx = torch.tensor(idx, dtype=getattr(torch, inp.get("idx_dtype", "int32")))
    problems = []
    for cplx in (False, True):
        p = _cplx(rng, idx.shape) if cplx else rng.normal(size=idx.shape)
        got = m.pu.sum_patches(torch.tensor(p), tidx, (H, W)).numpy()
        want = np.zeros(H * W, dtype=p.dtype)
        np.add.at(want, idx.reshape(-1), p.reshape(-1))
        want = want.reshape(H, W)
        if got.shape != (H, W):
            problems.append(f"sum_patches shape {got.shape}")
            continue
        if np.abs(got - want).max() > 1e-10:
            problems.append(f"sum_patches({'complex' if cplx else 'real'})[j] != sum of p[n] over idx[n]==j (max dev {np.abs(got - want).max():.3e})")
        if np.iscomplexobj(got) != cplx:
            problems.append(f"sum_patches complexness {np.iscomplexobj(got)} for complex={cplx} patches")
        for dt in ((torch.complex64, torch.complex128) if cplx else (torch.float32, torch.float64)):
            try:
                gd = m.pu.sum_patches(torch.tensor(p).to(dt), tidx, (H, W)).dtype
                gb_d = m.pu.sum_patches_base(torch.tensor(p.real.copy()).to(_REAL_DT[dt]), tidx, (H, W)).dtype
            except Exception as e:  # an exception of the real function is a reported failure, not a checker fault
                problems.append(f"sum_patches raised {type(e).__name__}: {e} for {dt} patches")
                continue
            if gd != dt:
                problems.append(f"sum_patches returns {gd} for {dt} patches (narrowed accumulator: not the exact adjoint in the input's precision)")
            if gb_d != _REAL_DT[dt]:
                problems.append(f"sum_patches_base returns {gb_d} for {_REAL_DT[dt]} patches")
        gb = m.pu.sum_patches_base(torch.tensor(p.real.copy()), tidx, (H, W)).numpy()
        if np.abs(gb - want.real).max() > 1e-10:
            problems.append("sum_patches_base(real part) differs from the scatter spec")
        # adjointness with the real gather
        o = _cplx(rng, (S, H, W))
        patches = m.OB._get_obj_patches(_stub(), torch.tensor(o), tidx).numpy()  # (S, B, nr, nc)
        if patches.shape != (S,) + idx.shape:
            problems.append(f"_get_obj_patches shape {patches.shape}, expected {(S,) + idx.shape}")
            continue
        if np.abs(patches - o.reshape(S, -1)[:, idx]).max() > 0:
            problems.append("_get_obj_patches(complex obj) != obj.reshape(S,-1)[:, idx]")
        lhs = np.vdot(patches[0], p)  # <gather(o), p>
        rhs = np.vdot(o[0], got)  # <o, scatter(p)>
        if abs(lhs - rhs) > 1e-9 * (1 + abs(lhs)):
            problems.append(f"<gather(o), p> = {lhs:.6f} but <o, sum_patches(p)> = {rhs:.6f}")
    # pure-phase objects: real array -> exp(i obj), unit modulus patches
    phi = rng.normal(size=(S, H, W))
    patches = m.OB._get_obj_patches(_stub(), torch.tensor(phi), tidx).numpy()
    if np.abs(patches - np.exp(1j * phi).reshape(S, -1)[:, idx]).max() > 1e-12:
        problems.append("_get_obj_patches(real obj) != exp(i obj).reshape(S,-1)[:, idx]")
    if np.abs(np.abs(patches) - 1).max() > 1e-12:
        problems.append("pure-phase patches are not unit modulus")
    return _res(problems, "sum_patches(p,idx)[j] = sum_{n: idx[n]=j} p[n]; gather = obj.reshape(S,-1)[:, idx]; <gather(o),p> = <o,scatter(p)>")


def fam_patches(tier="quick", seed=0):
    for B in (1, 2, 5):
        for roi in ((1, 1), (2, 2), (3, 3), (3, 4), (4, 3), (5, 2)):
            for obj in ((roi[0], roi[1]), (roi[0] + 2, roi[1] + 3), (7, 6)):
                if obj[0] < roi[0] or obj[1] < roi[1]:
                    continue
                yield dict(B=B, roi=roi, obj=obj, S=1 + (B % 2), idx_dtype="int32" if B != 2 else "int64", seed=seed + B + 3 * roi[0] + 5 * roi[1] + obj[0])


# ------------------------------------------------------------------------------------------------ multislice energy / detector


def rt_energy(inp):
    """Pure-phase object: sum of predicted intensities of every pattern = total probe intensity (any #slices, #modes, ROI)."""
    m = _mods()
    np, torch = m.np, m.torch
    rng = np.random.default_rng(inp["seed"])
    S, M, B, (nr, nc) = inp["S"], inp["M"], inp["B"], inp["roi"]
    H, W = nr + 3, nc + 2
    idx = torch.tensor(_patch_indices(np, rng, B, (nr, nc), (H, W)), dtype=torch.int32)
    phi = torch.tensor(rng.normal(size=(S, H, W)) * 2.0)
    patches = m.OB._get_obj_patches(_stub(), phi, idx)  # (S,B,nr,nc) unit modulus
    probes = torch.tensor(_cplx(rng, (M, B, nr, nc)))
    dzs = list(rng.uniform(2.0, 30.0, size=S - 1))
    if S > 1:
        P = _propagators(m, (nr, nc), (0.3, 0.41), 80e3, tuple(inp.get("tilt", (0.0, 0.0))), dzs).to(torch.complex128)
        P = P / P.abs()  # remove complex64 round-off of the kernel so the identity can be checked to 1e-9
    else:
        P = torch.tensor([])
    st = _bind(_stub(num_slices=S, _propagators=P), m.PB, "_propagate_array")
    prop, overlap = m.PB.overlap_projection(st, patches, probes)
    problems = []
    if tuple(prop.shape) != (S, M, B, nr, nc) or tuple(overlap.shape) != (M, B, nr, nc):
        problems.append(f"shapes {tuple(prop.shape)}, {tuple(overlap.shape)}")
        return _res(problems, "propagated (S,M,B,nr,nc), overlap (M,B,nr,nc)")
    if (prop[0] - probes).abs().max().item() > 0:
        problems.append("propagated_probes[0] is not the input probe")
    # recursion: overlap_s = obj[s] * prop[s]; prop[s] = propagate(obj[s-1]*prop[s-1], P[s-1])
    for s in range(1, S):
        want = torch.fft.ifft2(torch.fft.fft2(patches[s - 1] * prop[s - 1]) * P[s - 1])
        if (prop[s] - want).abs().max().item() > 1e-9:
            problems.append(f"propagated_probes[{s}] != propagate(obj[{s - 1}] * propagated_probes[{s - 1}], P[{s - 1}])")
            break
    if (overlap - patches[S - 1] * prop[S - 1]).abs().max().item() > 1e-9:
        problems.append("overlap != obj[S-1] * propagated_probes[S-1]")
    inten = m.DET.forward(m.DET(), overlap)
    if tuple(inten.shape) != (B, nr, nc):
        problems.append(f"detector output shape {tuple(inten.shape)}")
        return _res(problems, "(B,nr,nc)")
    tot = inten.sum(dim=(-2, -1)).numpy()
    want = (probes.abs() ** 2).sum(dim=(0, 2, 3)).numpy()
    if np.abs(tot - want).max() > 1e-9 * want.max():
        problems.append(f"summed pattern intensity {tot.tolist()[:3]} != total probe intensity {want.tolist()[:3]}")
    if inten.min().item() < -1e-12:
        problems.append("negative intensity")
    return _res(problems, "sum_ij I[b,i,j] = sum_m sum_ij |probe[m,b,i,j]|^2 for every pattern b")


def fam_energy(tier="quick", seed=0):
    for S in (1, 2, 3, 5):
        for M in (1, 2, 3):
            for roi in ((2, 2), (3, 3), (4, 5), (5, 4), (6, 3)):
                yield dict(S=S, M=M, B=2, roi=roi, tilt=(0.0, 0.0) if (S + M) % 2 else (2.0, -3.0), seed=seed + 100 * S + 10 * M + roi[0] + roi[1])


def rt_detector(inp):
    """DetectorPixelated.forward: Parseval with the code's normalisation (non-square ROIs), incoherent mode sum, DC at (nr//2, nc//2)."""
    m = _mods()
    np, torch = m.np, m.torch
    rng = np.random.default_rng(inp["seed"])
    M, B, (nr, nc) = inp["M"], inp["B"], inp["roi"]
    x = torch.tensor(_cplx(rng, (M, B, nr, nc)))
    I = m.DET.forward(m.DET(), x).numpy()
    problems = []
    if I.shape != (B, nr, nc):
        problems.append(f"shape {I.shape}")
        return _res(problems, "(B,nr,nc)")
    want_tot = (x.abs() ** 2).sum(dim=(0, 2, 3)).numpy()
    if np.abs(I.sum(axis=(-2, -1)) - want_tot).max() > 1e-9 * want_tot.max():
        problems.append(f"sum I = {I.sum(axis=(-2, -1)).tolist()} != sum |exit|^2 = {want_tot.tolist()} (ROI {nr}x{nc})")
    F = np.fft.fft2(x.numpy(), norm="ortho")
    want = np.fft.fftshift((np.abs(F) ** 2).sum(axis=0), axes=(-2, -1))
    if np.abs(I - want).max() > 1e-9 * (1 + want.max()):
        problems.append("I != fftshift(sum_m |fft2_ortho(exit)|^2) (DC must sit at (nr//2, nc//2))")
    c = torch.ones((1, 1, nr, nc), dtype=torch.complex128)
    Ic = m.DET.forward(m.DET(), c).numpy()[0]
    if abs(Ic[nr // 2, nc // 2] - nr * nc) > 1e-9 * nr * nc:
        problems.append(f"constant wave: intensity at the centre pixel ({nr // 2},{nc // 2}) is {Ic[nr // 2, nc // 2]:.4f}, expected {nr * nc}")
    return _res(problems, "I[b] = fftshift(sum_m |F_ortho exit[m,b]|^2); sum I[b] = sum_m sum |exit[m,b]|^2")


def fam_detector(tier="quick", seed=0):
    for M in (1, 2, 4):
        for roi in ((1, 1), (2, 2), (2, 3), (3, 3), (4, 4), (4, 5), (5, 4), (5, 5), (6, 3), (3, 8)):
            yield dict(M=M, B=2, roi=roi, seed=seed + M + roi[0] * 3 + roi[1])


# ------------------------------------------------------------------------------------------------ Fourier projection


def _proj(m, meas, ov, nprobes):
    st = _bind(_stub(num_probes=nprobes), m.PB, "estimate_amplitudes")
    _bind(st, m.PT, "fourier_projection", "gradient_step")
    return st


def rt_projection(inp):
    """fourier_projection / gradient_step: the projected wave has exactly the measured amplitudes (as the repo's own detector /
    estimate_amplitudes convention reads them: centred, DC at n//2), and projecting twice = projecting once."""
    m = _mods()
    np, torch = m.np, m.torch
    rng = np.random.default_rng(inp["seed"])
    M, B, (nr, nc) = inp["M"], inp["B"], inp["roi"]
    ov = _cplx(rng, (M, B, nr, nc)) * inp.get("scale", 1.0)
    meas = rng.uniform(0.2, 2.0, size=(B, nr, nc))
    zf = inp.get("zero_fourier", False)
    if zf:  # make one Fourier coefficient of every mode exactly zero (remove it in Fourier space)
        F = np.fft.fft2(ov, norm="ortho")
        F[..., (nr - 1) // 2, (nc - 1) // 2] = 0.0
        if inp.get("zero_fourier") == "all":
            F[...] = 0.0
        ov = np.fft.ifft2(F, norm="ortho")
    if inp.get("zero_measured", False):
        meas[:, 0, 0] = 0.0
        meas[:, nr // 2, nc // 2] = 0.0
    st = _proj(m, meas, ov, M)
    tm, tov = torch.tensor(meas), torch.tensor(ov)
    out = st.fourier_projection(tm, tov)
    problems, kinds = [], set()
    if tuple(out.shape) != (M, B, nr, nc):
        problems.append(f"shape {tuple(out.shape)}")
        return dict(_res(problems, "(M,B,nr,nc)"), kinds=["shape"])
    det_amp = torch.sqrt(m.DET.forward(m.DET(), out)).numpy()
    est_amp = None
    scale = meas.max()
    err = np.abs(det_amp - meas).max()
    tol = 1e-11 * scale
    if err > tol:
        # classify: the measured pattern rolled by the fftshift/ifftshift mismatch (odd sizes only)?
        odd = bool(nr % 2 or nc % 2)
        rolled = np.roll(meas, (-(nr % 2), -(nc % 2)), axis=(-2, -1))
        err_r = np.abs(det_amp - rolled).max()
        if odd and err_r <= tol:
            kinds.add("odd-roi-roll")
            problems.append(f"ROI {nr}x{nc}: amplitudes of the projected wave (through DetectorPixelated) equal the measured ones rolled by (-{nr % 2},-{nc % 2}); max dev from measured {err:.3e}")
        else:
            Fm = np.sqrt((np.abs(np.fft.fftshift(np.fft.fft2(ov, norm="ortho"), axes=(-2, -1))) ** 2).sum(axis=0))
            # which reference explains the result better on the well-conditioned coefficients: the measured pattern or its roll?
            good = Fm > 1e-3 * max(Fm.max(), 1e-300)
            use_roll = odd and np.abs(det_amp - rolled)[good].max(initial=0.0) < np.abs(det_amp - meas)[good].max(initial=0.0)
            ref = rolled if use_roll else meas
            e2 = np.abs(det_amp - ref)
            if use_roll:
                kinds.add("odd-roi-roll")
                problems.append(f"ROI {nr}x{nc}: projected amplitudes follow the measured pattern rolled by (-{nr % 2},-{nc % 2}) (fftshift where ifftshift is needed)")
            zero_pix = Fm < 1e-6 * max(1.0, inp.get("scale", 1.0))  # coefficients that (numerically) vanish in all modes
            if inp.get("scale", 1.0) < 1.0:
                zero_pix = Fm < 1e-300
            nz = ~zero_pix
            # eps-sized relative error on non-zero coefficients: |amp - meas| <= meas * M * 3 eps / |F|
            eps_ok = M > 1 and (e2[nz] <= ref[nz] * (3e-9 * M / np.maximum(Fm[nz], 1e-300) + 1e-11) + tol).all()
            zero_ok = M > 1 and (not zero_pix.any() or (det_amp[zero_pix] <= ref[zero_pix] + tol).all())
            if eps_ok and zero_ok:
                if e2[nz].size and e2[nz].max() > tol:
                    kinds.add("mixed-state-eps")
                    problems.append(f"mixed state ({M} modes): projected amplitudes differ from measured by {e2[nz].max():.3e} (eps=1e-9 added to the complex spectrum in estimate_amplitudes)")
                if zero_pix.any() and (np.abs(det_amp - ref)[zero_pix] > tol).any():
                    kinds.add("mixed-state-zero-coefficient")
                    problems.append(f"mixed state ({M} modes): Fourier coefficients that vanish in all modes are not restored (amplitude {det_amp[zero_pix].max():.3e}, measured {ref[zero_pix].max():.3f})")
            else:
                kinds.add("other")
                problems.append(f"{M} mode(s), ROI {nr}x{nc}: projected amplitudes differ from the measured amplitudes by {err:.3e}")
    # idempotence
    out2 = st.fourier_projection(tm, out)
    e_id = (out2 - out).abs().max().item()
    if e_id > 1e-10 * (1 + out.abs().max().item()):
        if M > 1 and zf:
            kinds.add("mixed-state-zero-coefficient")
            problems.append(f"mixed state ({M} modes): projecting twice differs from projecting once by {e_id:.3e} at (near-)zero coefficients (eps term)")
        elif M > 1 and e_id <= 1e-7 * (1 + out.abs().max().item()) / min(1.0, inp.get("scale", 1.0)):
            kinds.add("mixed-state-eps")
            problems.append(f"mixed state ({M} modes): projecting twice differs from projecting once by {e_id:.3e} (eps term)")
        else:
            kinds.add("other")
            problems.append(f"{M} mode(s): projecting twice differs from projecting once by {e_id:.3e}")
    g = st.gradient_step(tm, tov)
    if (g - (out - tov)).abs().max().item() > 1e-12 * (1 + out.abs().max().item()):
        kinds.add("other")
        problems.append("gradient_step != fourier_projection(amplitudes, overlap) - overlap")
    r = _res(problems, "sqrt(DetectorPixelated.forward(P(meas, psi))) == meas exactly; P(meas, P(meas, psi)) == P(meas, psi); gradient_step = P - psi")
    r["kinds"] = sorted(kinds)
    return r


def klass_projection(inp, res):
    k = res.get("kinds") or ["other"]
    if "other" in k or "shape" in k:
        return "other"
    return "+".join(k)


def fam_projection_single(tier="quick", seed=0):
    for inp in fam_projection(tier, seed):
        if inp["M"] == 1:
            yield inp


def fam_projection_mixed(tier="quick", seed=0):
    for inp in fam_projection(tier, seed):
        if inp["M"] > 1:
            yield inp


def fam_projection(tier="quick", seed=0):
    rois = [(2, 2), (4, 4), (4, 6), (3, 3), (5, 5), (4, 5), (5, 4), (7, 3)] + ([(8, 8), (9, 6)] if tier == "thorough" else [])
    for roi in rois:
        for M in (1, 2, 3):
            sd = seed + 31 * M + roi[0] * 5 + roi[1]
            yield dict(M=M, B=2, roi=roi, seed=sd)
            yield dict(M=M, B=1, roi=roi, zero_measured=True, seed=sd + 1)
            yield dict(M=M, B=1, roi=roi, zero_fourier=True, seed=sd + 2)
    for M in (1, 2):
        yield dict(M=M, B=1, roi=(4, 4), zero_fourier="all", seed=seed + M)
        yield dict(M=M, B=1, roi=(4, 4), scale=1e-6, seed=seed + 7 + M)


def rt_estimate_amplitudes(inp):
    """estimate_amplitudes: sqrt(sum_m |F_ortho|^2), centred unless corner_centered (the eps term makes it inexact: class 'eps')."""
    m = _mods()
    np, torch = m.np, m.torch
    rng = np.random.default_rng(inp["seed"])
    M, B, (nr, nc) = inp["M"], inp["B"], inp["roi"]
    ov = _cplx(rng, (M, B, nr, nc)) * inp.get("scale", 1.0)
    st = _stub()
    problems, kinds = [], set()
    F = np.fft.fft2(ov, norm="ortho")
    want = np.sqrt((np.abs(F) ** 2).sum(axis=0))
    for cc in (True, False):
        a = m.PB.estimate_amplitudes(st, torch.tensor(ov), corner_centered=cc).numpy()
        w = want if cc else np.fft.fftshift(want, axes=(-2, -1))
        e = np.abs(a - w).max()
        if e > 1e-6 * (1 + w.max()):  # the code's regulariser (eps added to the spectrum) is allowed; anything larger is not
            kinds.add("other")
            problems.append(f"estimate_amplitudes(corner_centered={cc}) deviates from sqrt(sum_m |F|^2){'' if cc else ' (fftshift-ed)'} by {e:.3e}")
    r = _res(problems, "amps = sqrt(sum_m |fft2_ortho(overlap)|^2), fftshift-ed unless corner_centered")
    r["kinds"] = sorted(kinds)
    return r


def fam_estimate_amplitudes(tier="quick", seed=0):
    for M in (1, 3):
        for roi in ((2, 2), (3, 4), (5, 5)):
            yield dict(M=M, B=2, roi=roi, seed=seed + M + roi[0])


# ------------------------------------------------------------------------------------------------ object model: forward / backward


def _object_model(m, S, H, W, rng, modulus=(0.5, 1.5), dz=None):
    """A REAL ObjectPixelated declared pure_phase whose raw parameter has arbitrary modulus (from_array with |guess| != 1)."""
    from quantem.diffractive_imaging.object_models import ObjectPixelated

    np = m.np
    guess = rng.uniform(*modulus, size=(S, H, W)) * np.exp(1j * rng.uniform(-1.5, 1.5, size=(S, H, W)))
    om = ObjectPixelated.from_array(guess.astype(np.complex64), slice_thicknesses=dz if dz is not None else 5.0, obj_type="pure_phase")
    om._initialize_obj((S, H, W), sampling=(0.3, 0.41))
    return om


def rt_objforward(inp):
    """ObjectPixelated.forward of a pure-phase object: unit-modulus patches (whatever the raw parameter), and through the real chain
    the summed pattern intensity equals the probe intensity."""
    m = _mods()
    np, torch = m.np, m.torch
    rng = np.random.default_rng(inp["seed"])
    S, M, B, (nr, nc) = inp["S"], inp["M"], inp["B"], inp["roi"]
    H, W = nr + 3, nc + 2
    om = _object_model(m, S, H, W, rng, modulus=tuple(inp.get("modulus", (0.5, 1.5))))
    idx = torch.tensor(_patch_indices(np, rng, B, (nr, nc), (H, W)), dtype=torch.int32)
    problems = []
    with torch.no_grad():
        patches = om.forward(idx)
    if tuple(patches.shape) != (S, B, nr, nc):
        problems.append(f"forward shape {tuple(patches.shape)}")
        return _res(problems, "(S,B,nr,nc)")
    dev = (patches.abs() - 1).abs().max().item()
    if dev > 1e-5:
        problems.append(f"pure-phase object: |forward(patch_indices)| deviates from 1 by {dev:.3e} (raw parameter modulus in {inp.get('modulus', (0.5, 1.5))})")
    probes = torch.tensor(_cplx(rng, (M, B, nr, nc)))
    if S > 1:
        P = _propagators(m, (nr, nc), (0.3, 0.41), 80e3, (0.0, 0.0), list(rng.uniform(2.0, 30.0, size=S - 1))).to(torch.complex128)
        P = P / P.abs()
    else:
        P = torch.tensor([])
    st = _bind(_stub(num_slices=S, _propagators=P), m.PB, "_propagate_array")
    _pp, overlap = m.PB.overlap_projection(st, patches.to(torch.complex128), probes)
    tot = m.DET.forward(m.DET(), overlap).sum(dim=(-2, -1)).numpy()
    want = (probes.abs() ** 2).sum(dim=(0, 2, 3)).numpy()
    if np.abs(tot - want).max() > 1e-4 * want.max():
        problems.append(f"summed pattern intensity {tot.tolist()[:3]} != total probe intensity {want.tolist()[:3]}")
    return _res(problems, "|patch| = 1 for a pure_phase object; sum_ij I[b] = sum_m sum_ij |probe[m,b]|^2")


def fam_objforward(tier="quick", seed=0):
    for S in (1, 2, 3):
        for M in (1, 2):
            for roi in ((2, 2), (3, 4), (5, 4)):
                for modulus in ((1.0, 1.0), (0.5, 1.5), (2.0, 3.0)):
                    yield dict(S=S, M=M, B=2, roi=roi, modulus=modulus, seed=seed + 50 * S + 7 * M + roi[0] + roi[1])


def rt_backward(inp):
    """ObjectPixelated.backward after PtychographyBase.overlap_projection on a pure-phase object with unit-modulus kernels:
    back-propagation undoes forward propagation (backward(exit wave) = input probe) and <F psi, g> = <psi, B g>."""
    m = _mods()
    np, torch = m.np, m.torch
    rng = np.random.default_rng(inp["seed"])
    S, M, B, (nr, nc) = inp["S"], inp["M"], inp["B"], inp["roi"]
    H, W = nr + 3, nc + 2
    om = _object_model(m, S, H, W, rng, modulus=(1.0, 1.0))
    idx = torch.tensor(_patch_indices(np, rng, B, (nr, nc), (H, W)), dtype=torch.int32)
    with torch.no_grad():
        patches = om.forward(idx).to(torch.complex128)
        patches = patches / patches.abs()
    dzs = list(rng.uniform(2.0, 30.0, size=S - 1)) if not inp.get("uniform") else [12.0] * (S - 1)
    if S > 1:
        P = _propagators(m, (nr, nc), (0.3, 0.41), 80e3, tuple(inp.get("tilt", (0.0, 0.0))), dzs).to(torch.complex128)
        P = P / P.abs()
    else:
        P = torch.tensor([])
    st = _bind(_stub(num_slices=S, _propagators=P), m.PB, "_propagate_array")
    probes = torch.tensor(_cplx(rng, (M, B, nr, nc)))
    prop, exit_wave = m.PB.overlap_projection(st, patches, probes)
    problems = []
    with torch.no_grad():
        back = om.backward(exit_wave.clone(), patches, prop, P, idx)
        g = torch.tensor(_cplx(rng, (M, B, nr, nc)))
        Bg = om.backward(g.clone(), patches, prop, P, idx)
    e = (back - probes).abs().max().item()
    if e > 1e-9 * (1 + probes.abs().max().item()):
        problems.append(f"{S} slices (dz={['%.1f' % d for d in dzs]}): backward(overlap_projection(probe)) differs from the probe by {e:.3e}")
    lhs, rhs = torch.vdot(exit_wave.flatten(), g.flatten()).item(), torch.vdot(probes.flatten(), Bg.flatten()).item()
    if abs(lhs - rhs) > 1e-9 * (1 + abs(lhs)):
        problems.append(f"{S} slices: <F psi, g> = {lhs:.6f} but <psi, B g> = {rhs:.6f}")
    return _res(problems, "backward(F(psi)) = psi and <F psi, g> = <psi, B g> for a pure-phase object with unit-modulus propagators")


def fam_backward(tier="quick", seed=0):
    for S in (1, 2, 3, 4, 5):
        for M in (1, 2):
            for roi in ((2, 2), (3, 4), (5, 4)):
                yield dict(S=S, M=M, B=2, roi=roi, tilt=(0.0, 0.0) if (S + M) % 2 else (2.0, -3.0), seed=seed + 100 * S + 10 * M + roi[0] + roi[1])


# ------------------------------------------------------------------------------------------------ oracles never crash


def safe(rt):
    """An unexpected exception from the REAL function is a failure the oracle reports (violated=True), not a checker fault."""
    import functools

    @functools.wraps(rt)
    def wrapped(inp):
        try:
            return rt(inp)
        except Exception as e:  # noqa: BLE001
            return dict(violated=True, observed=f"real code raised {type(e).__name__}: {e}"[:400], expected="no exception", kinds=["other"])

    return wrapped


for _n in [n for n in list(globals()) if n.startswith("rt_")]:
    globals()[_n] = safe(globals()[_n])
