#!/bin/bash
# lemmas/check_lean.sh [file.lean]
# Compiles lemmas/real_analysis.lean (the A4 lemma schemas of pyvc/reals.py, proved from Mathlib) with the offline Lean 4 + Mathlib.
# Exit 0 iff  * lean reports no error,
#             * the source (comments stripped) contains no sorry / axiom / native_decide / admit / unsafe escape hatches,
#             * every public theorem has a `#print axioms` line and each depends only on propext, Classical.choice, Quot.sound.
# Prints the number of theorems; last line:  LEAN-CROSS-CHECK status=<ok|fail> theorems=<n> seconds=<s>
# Keeps no build products (lean is run on the source file only; nothing is written).
HERE="$(cd "$(dirname "$0")" && pwd)"
FILE="${1:-$HERE/real_analysis.lean}"
MATHLIB="${MATHLIB_DIR:-/opt/veriftools/mathlib4}"
LEAN_BIN="${LEAN_BIN:-lean}"
T0=$(date +%s.%N)

finish() {  # status, message
    local secs
    secs=$(awk -v a="$T0" -v b="$(date +%s.%N)" 'BEGIN{printf "%.1f", b-a}')
    [ -n "$2" ] && echo "$2"
    echo "LEAN-CROSS-CHECK status=$1 theorems=${NTHM:-0} seconds=$secs"
    [ "$1" = ok ] && exit 0
    exit 1
}

[ -f "$FILE" ] || finish fail "check_lean: no such file $FILE"
command -v "$LEAN_BIN" >/dev/null 2>&1 || finish fail "check_lean: lean not on PATH"
command -v perl >/dev/null 2>&1 || finish fail "check_lean: perl not available (needed to strip comments)"

# 1. textual scan, comments removed (block comments /- ... -/ are not nested in this file; line comments -- ...)
STRIPPED="$(perl -0777 -pe 's{/-.*?-/}{}gs; s{--[^\n]*}{}g' "$FILE")"
NTHM=$(printf '%s\n' "$STRIPPED" | grep -cE '^[[:space:]]*theorem[[:space:]]')
BAD="$(printf '%s\n' "$STRIPPED" | grep -nE '(^|[^A-Za-z0-9_.])(sorry|axiom|native_decide|admit|unsafe|implemented_by|extern|ofReduceBool|reduceBool|skipKernelTC)([^A-Za-z0-9_]|$)')"
if [ -n "$BAD" ]; then
    echo "$BAD"
    finish fail "check_lean: forbidden token(s) in $FILE (outside comments)"
fi
[ "$NTHM" -gt 0 ] || finish fail "check_lean: no theorem in $FILE"

# 1b. drift guard (textual correspondence Python <-> Lean): every schema-emitting expression of the engine
#     (reals.lemma_instances `add(..)`, values.PI_FACTS, c12_trig.trig_facts `emit(..)`, c16_models.trig_schema `facts.append(..)`,
#     C16.period_instance `return ..`, c20_models sign-fact lambdas) must be quoted verbatim (modulo white space) in a comment
#     of the Lean file.  A schema added to or changed in the Python sources without a matching Lean theorem fails here.
#     A4_DRIFT=0 skips this step.
if [ "${A4_DRIFT:-1}" != 0 ]; then
    ROOT="$(dirname "$HERE")"
    PY="$ROOT/.venv/bin/python"
    [ -x "$PY" ] || PY="$(command -v python3)"
    [ -n "$PY" ] || finish fail "check_lean: no python interpreter for the schema drift guard"
    DRIFT="$("$PY" - "$ROOT" "$FILE" <<'PYEOF'
import ast, re, sys
root, lean = sys.argv[1], sys.argv[2]
norm = lambda s: re.sub(r"\s+", " ", s).strip()
lean_text = norm(open(lean, encoding="utf-8").read())
segs = []  # (where, text)

def load(rel):
    src = open(f"{root}/{rel}", encoding="utf-8").read()
    return src, ast.parse(src)

def func(tree, name):
    for n in ast.walk(tree):
        if isinstance(n, ast.FunctionDef) and n.name == name:
            return n
    raise SystemExit(f"DRIFT: function {name} not found")

def calls(src, fn, pred, rel, arg_only=False):
    k = 0
    for n in ast.walk(fn):
        if isinstance(n, ast.Call) and pred(n.func):
            segs.append((f"{rel}:{n.lineno}", ast.get_source_segment(src, n.args[0] if arg_only else n)))
            k += 1
    if not k:
        raise SystemExit(f"DRIFT: no schema-emitting call found in {rel}:{fn.name} (the guard's pattern is stale)")

try:
    src, tree = load("pyvc/reals.py")
    calls(src, func(tree, "lemma_instances"), lambda f: isinstance(f, ast.Name) and f.id == "add", "pyvc/reals.py")
    src, tree = load("pyvc/values.py")
    pf = [n for n in ast.walk(tree) if isinstance(n, ast.Assign) and any(isinstance(t, ast.Name) and t.id == "PI_FACTS" for t in n.targets)]
    if not pf:
        raise SystemExit("DRIFT: PI_FACTS not found in pyvc/values.py")
    segs.append((f"pyvc/values.py:{pf[0].lineno}", ast.get_source_segment(src, pf[0])))
    src, tree = load("lemmas/c12_trig.py")
    calls(src, func(tree, "trig_facts"), lambda f: isinstance(f, ast.Name) and f.id == "emit", "lemmas/c12_trig.py")
    src, tree = load("pyvc/lib/c16_models.py")
    calls(src, func(tree, "trig_schema"), lambda f: isinstance(f, ast.Attribute) and f.attr == "append" and isinstance(f.value, ast.Name) and f.value.id == "facts",
          "pyvc/lib/c16_models.py", arg_only=True)
    src, tree = load("contracts/C16.py")
    for n in ast.walk(func(tree, "period_instance")):
        if isinstance(n, ast.Return):
            segs.append((f"contracts/C16.py:{n.lineno}", ast.get_source_segment(src, n.value)))
    src, tree = load("pyvc/lib/c20_models.py")
    k = 0
    for n in ast.walk(tree):
        if isinstance(n, ast.Assign) and isinstance(n.value, ast.Lambda) and any(isinstance(t, ast.Name) and t.id == "odd_sign" for t in n.targets):
            segs.append((f"pyvc/lib/c20_models.py:{n.lineno}", ast.get_source_segment(src, n.value.body)))
            k += 1
        if isinstance(n, ast.Call) and isinstance(n.func, ast.Name) and n.func.id == "_unary":
            for a in n.args[3:]:
                if isinstance(a, ast.Lambda):
                    segs.append((f"pyvc/lib/c20_models.py:{n.lineno}", ast.get_source_segment(src, a.body)))
                    k += 1
    if not k:
        raise SystemExit("DRIFT: no sign-fact lambda found in pyvc/lib/c20_models.py (the guard's pattern is stale)")
except FileNotFoundError as e:
    raise SystemExit(f"DRIFT: {e}")
missing = [(w, norm(t)) for w, t in segs if norm(t) not in lean_text]
for w, t in missing:
    print(f"DRIFT: schema at {w} is not quoted in {lean}: {t}")
print(f"schemas_in_python_sources={len(segs)} unmatched={len(missing)}")
sys.exit(1 if missing else 0)
PYEOF
)"
    DRC=$?
    printf '%s\n' "$DRIFT" | tail -n 12
    [ $DRC -eq 0 ] || finish fail "check_lean: Python schema text and Lean file have drifted apart (see DRIFT lines); add/adjust the theorem and quote the new schema text"
fi

# 2. compile (LEAN_PATH assembled from the pre-built Mathlib tree; falls back to `lake env` when the layout differs)
LP=""
for d in "$MATHLIB"/.lake/packages/*/.lake/build/lib/lean "$MATHLIB"/.lake/build/lib/lean; do
    [ -d "$d" ] && LP="$LP${LP:+:}$d"
done
if [ -d "$MATHLIB/.lake/build/lib/lean/Mathlib" ]; then
    OUT="$(cd "$HERE" && LEAN_PATH="$LP" timeout "${LEAN_TIMEOUT:-1500}" "$LEAN_BIN" "$FILE" 2>&1)"
    RC=$?
elif command -v lake >/dev/null 2>&1 && [ -d "$MATHLIB" ]; then
    OUT="$(cd "$MATHLIB" && timeout "${LEAN_TIMEOUT:-1500}" lake env "$LEAN_BIN" "$FILE" 2>&1)"
    RC=$?
else
    finish fail "check_lean: Mathlib not found under $MATHLIB"
fi
if [ $RC -ne 0 ] || printf '%s\n' "$OUT" | grep -qE '(^|: )error'; then
    printf '%s\n' "$OUT" | grep -v "depends on axioms" | head -40
    finish fail "check_lean: lean exited $RC with errors"
fi

# 3. axiom audit: one `#print axioms` result per public theorem, only the three standard axioms of Mathlib's classical logic
if printf '%s\n' "$OUT" | grep -q "sorryAx"; then
    printf '%s\n' "$OUT" | grep "sorryAx" | head
    finish fail "check_lean: a theorem depends on sorryAx"
fi
AUDIT="$(printf '%s\n' "$OUT" | grep -E "depends on axioms|does not depend on any axioms")"
NAUD=$(printf '%s\n' "$AUDIT" | grep -c .)
OTHER="$(printf '%s\n' "$AUDIT" | grep "depends on axioms" | sed -e 's/.*depends on axioms: \[//' -e 's/\]$//' | tr ',' '\n' | sed 's/^ *//' | grep -vxE 'propext|Classical\.choice|Quot\.sound|')"
if [ -n "$OTHER" ]; then
    echo "$OTHER" | sort -u
    finish fail "check_lean: non-standard axiom(s) used"
fi
# every public theorem must be audited by name
MISSING=""
for name in $(printf '%s\n' "$STRIPPED" | sed -nE "s/^[[:space:]]*theorem[[:space:]]+([^[:space:]:(\[{]+).*/\1/p"); do
    printf '%s\n' "$AUDIT" | grep -qF "'A4.$name' " || MISSING="$MISSING $name"
done
if [ -n "$MISSING" ]; then
    finish fail "check_lean: no '#print axioms' result for:$MISSING"
fi
WARN=$(printf '%s\n' "$OUT" | grep -c "warning")
echo "check_lean: $FILE compiled; theorems=$NTHM axiom-audits=$NAUD warnings=$WARN; axioms used: propext, Classical.choice, Quot.sound only"
finish ok ""
