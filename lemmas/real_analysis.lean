/-
  A4 lemma schemas of the pyvc engine, proved from Mathlib (Lean 4.33.0).

  The engine (pyvc/reals.py) treats  cos sin exp log sqrt sinh arcsinh atan2 rpow  as UNINTERPRETED real functions and
  adds ground instances of the schemas below to the obligations.  Every schema that is instantiated anywhere
  (pyvc/reals.py `lemma_instances`, pyvc/values.py `PI_FACTS`, lemmas/c12_trig.py `trig_facts`,
  pyvc/lib/c16_models.py `trig_schema`, contracts/C16.py `period_instance`, pyvc/lib/c20_models.py sign facts,
  contracts/C07.py direct instances) is stated here over `Real` with the SAME hypotheses and the SAME conclusion and
  proved for the standard interpretation:

      cos, sin, exp, log, sqrt, sinh   :=  Real.cos, Real.sin, Real.exp, Real.log, Real.sqrt, Real.sinh
      arcsinh                          :=  Real.arsinh
      rpow(x, p)                       :=  Real.rpow x p   (written x ^ p)
      atan2(y, x)                      :=  Complex.arg ⟨x, y⟩   (principal argument of x + i y, range (-pi, pi], arg 0 = 0)
      pi (the constant V.PI)           :=  Real.pi

  z3's `==` between Booleans is `↔`; z3's `1 / p` is `1 / p` (the schema guards p > 0, so the value of x/0 is irrelevant).
  The comment above each theorem quotes the schema text from the Python source.  Table: lemmas/SCHEMAS.md.
  Run: lemmas/check_lean.sh   (no sorry, no extra axioms, no native_decide; `#print axioms` at the end is checked too).
-/
import Mathlib.Analysis.SpecialFunctions.Trigonometric.Basic
import Mathlib.Analysis.SpecialFunctions.Trigonometric.DerivHyp
import Mathlib.Analysis.SpecialFunctions.Log.Basic
import Mathlib.Analysis.SpecialFunctions.Pow.Real
import Mathlib.Analysis.SpecialFunctions.Arsinh
import Mathlib.Analysis.SpecialFunctions.Complex.Arg
import Mathlib.Analysis.SpecialFunctions.Sqrt
import Mathlib.Analysis.Real.Pi.Bounds
import Mathlib.Tactic.Ring
import Mathlib.Tactic.Linarith
import Mathlib.Tactic.Positivity
import Mathlib.Tactic.NormNum

namespace A4

open Real

/-- `rpow(x, p)` of pyvc/reals.py (`F["pow"] = z3.Function("rpow", R, R, R)`). -/
noncomputable abbrev rpow (x p : ℝ) : ℝ := Real.rpow x p

/-- `atan2(y, x)` of pyvc/reals.py: the principal argument of the complex number x + i y. -/
noncomputable abbrev atan2 (y x : ℝ) : ℝ := Complex.arg ⟨x, y⟩

/-- `arcsinh` of pyvc/reals.py. -/
noncomputable abbrev arcsinh (x : ℝ) : ℝ := Real.arsinh x

/-! ## pi  (pyvc/values.py) -/

-- PI_FACTS = [PI > z3.RealVal("3.14159"), PI < z3.RealVal("3.1416")]
theorem pi_bounds : π > 3.14159 ∧ π < 3.1416 := by
  refine ⟨?_, pi_lt_d4⟩
  have h := pi_gt_d6
  have : (3.14159 : ℝ) < 3.141592 := by norm_num
  exact lt_trans this h

/-! ## exp / log  (pyvc/reals.py lemma_instances, "# exp / log") -/

-- add(F["exp"](t) > 0)
theorem exp_pos (t : ℝ) : exp t > 0 := Real.exp_pos t

-- add(F["log"](F["exp"](t)) == t)
theorem log_exp (t : ℝ) : log (exp t) = t := Real.log_exp t

-- add(z3.Implies(t == 0, F["exp"](t) == 1))
theorem exp_eq_one_of_eq_zero (t : ℝ) : t = 0 → exp t = 1 := by
  intro h; rw [h, Real.exp_zero]

-- add(z3.Implies(t >= 0, F["exp"](t) >= 1))
theorem exp_ge_one (t : ℝ) : t ≥ 0 → exp t ≥ 1 := fun h => Real.one_le_exp h

-- add(z3.Implies(t <= 0, F["exp"](t) <= 1))
theorem exp_le_one (t : ℝ) : t ≤ 0 → exp t ≤ 1 := fun h => Real.exp_le_one_iff.mpr h

-- add(z3.Implies(t > 0, F["exp"](t) > 1))
theorem exp_gt_one (t : ℝ) : t > 0 → exp t > 1 := fun h => Real.one_lt_exp_iff.mpr h

-- add(F["exp"](zero) == 1)
theorem exp_zero : exp (0 : ℝ) = 1 := Real.exp_zero

-- add(F["log"](one) == 0)
theorem log_one : log (1 : ℝ) = 0 := Real.log_one

-- add(z3.Implies(t > 0, F["exp"](F["log"](t)) == t))
theorem exp_log (t : ℝ) : t > 0 → exp (log t) = t := fun h => Real.exp_log h

-- add(z3.Implies(t == 1, F["log"](t) == 0))
theorem log_eq_zero_of_eq_one (t : ℝ) : t = 1 → log t = 0 := by
  intro h; rw [h, Real.log_one]

-- add(z3.Implies(t > 1, F["log"](t) > 0))
theorem log_pos (t : ℝ) : t > 1 → log t > 0 := fun h => Real.log_pos h

-- add(z3.Implies(z3.And(t > 0, t < 1), F["log"](t) < 0))
theorem log_neg (t : ℝ) : t > 0 ∧ t < 1 → log t < 0 := fun h => Real.log_neg h.1 h.2

-- add((a < b) == (F["exp"](a) < F["exp"](b)))
theorem exp_lt_iff (a b : ℝ) : (a < b) ↔ (exp a < exp b) := Real.exp_lt_exp.symm

-- add((a == b) == (F["exp"](a) == F["exp"](b)))
theorem exp_eq_iff (a b : ℝ) : (a = b) ↔ (exp a = exp b) := Real.exp_eq_exp.symm

-- add(z3.Implies(z3.And(a > 0, b > 0), (a < b) == (F["log"](a) < F["log"](b))))
theorem log_lt_iff (a b : ℝ) : a > 0 ∧ b > 0 → ((a < b) ↔ (log a < log b)) :=
  fun h => (Real.log_lt_log_iff h.1 h.2).symm

-- add(z3.Implies(z3.And(a > 0, b > 0), F["log"](a * b) == F["log"](a) + F["log"](b)))
theorem log_mul (a b : ℝ) : a > 0 ∧ b > 0 → log (a * b) = log a + log b :=
  fun h => Real.log_mul (ne_of_gt h.1) (ne_of_gt h.2)

/-! ## sinh / arcsinh  (pyvc/reals.py, "# sinh / arcsinh : strictly increasing, odd, inverse pair") -/

-- add(F["sinh"](zero) == 0)
theorem sinh_zero : sinh (0 : ℝ) = 0 := Real.sinh_zero

-- add(F["arcsinh"](zero) == 0)
theorem arcsinh_zero : arcsinh 0 = 0 := Real.arsinh_zero

-- add(F["arcsinh"](F["sinh"](t)) == t)
theorem arcsinh_sinh (t : ℝ) : arcsinh (sinh t) = t := Real.arsinh_sinh t

-- add((t > 0) == (F["sinh"](t) > 0))
theorem sinh_pos_iff (t : ℝ) : (t > 0) ↔ (sinh t > 0) := Real.sinh_pos_iff.symm

-- add((t == 0) == (F["sinh"](t) == 0))
theorem sinh_eq_zero_iff (t : ℝ) : (t = 0) ↔ (sinh t = 0) := Real.sinh_eq_zero.symm

-- add(F["sinh"](F["arcsinh"](t)) == t)
theorem sinh_arcsinh (t : ℝ) : sinh (arcsinh t) = t := Real.sinh_arsinh t

-- add((t > 0) == (F["arcsinh"](t) > 0))
theorem arcsinh_pos_iff (t : ℝ) : (t > 0) ↔ (arcsinh t > 0) := Real.arsinh_pos_iff.symm

-- add((t == 0) == (F["arcsinh"](t) == 0))
theorem arcsinh_eq_zero_iff (t : ℝ) : (t = 0) ↔ (arcsinh t = 0) := Real.arsinh_eq_zero_iff.symm

-- add(F["sinh"](z3.simplify(-t)) == -F["sinh"](t))          (odd symmetry)
theorem sinh_neg (t : ℝ) : sinh (-t) = -sinh t := Real.sinh_neg t

-- add(F["arcsinh"](z3.simplify(-t)) == -F["arcsinh"](t))    (odd symmetry)
theorem arcsinh_neg (t : ℝ) : arcsinh (-t) = -arcsinh t := Real.arsinh_neg t

-- add((a < b) == (F["sinh"](a) < F["sinh"](b)))
theorem sinh_lt_iff (a b : ℝ) : (a < b) ↔ (sinh a < sinh b) := Real.sinh_lt_sinh.symm

-- add((a < b) == (F["arcsinh"](a) < F["arcsinh"](b)))
theorem arcsinh_lt_iff (a b : ℝ) : (a < b) ↔ (arcsinh a < arcsinh b) := Real.arsinh_lt_arsinh.symm

/-! ## sqrt  (pyvc/reals.py, "# sqrt") -/

-- s = F["sqrt"](t);  add(z3.Implies(t >= 0, z3.And(s >= 0, s * s == t)))
theorem sqrt_spec (t : ℝ) : t ≥ 0 → (sqrt t ≥ 0 ∧ sqrt t * sqrt t = t) :=
  fun h => ⟨Real.sqrt_nonneg t, Real.mul_self_sqrt h⟩

/-! ## cos / sin  (pyvc/reals.py, "# cos / sin"; the same two facts are written out in contracts/C07.py) -/

-- c, s = F["cos"](t), F["sin"](t);  add(c * c + s * s == 1)
theorem cos_sq_add_sin_sq (t : ℝ) : cos t * cos t + sin t * sin t = 1 := by
  have h := Real.cos_sq_add_sin_sq t
  nlinarith [h]

-- add(z3.And(c >= -1, c <= 1, s >= -1, s <= 1))
theorem cos_sin_bounds (t : ℝ) : cos t ≥ -1 ∧ cos t ≤ 1 ∧ sin t ≥ -1 ∧ sin t ≤ 1 :=
  ⟨Real.neg_one_le_cos t, Real.cos_le_one t, Real.neg_one_le_sin t, Real.sin_le_one t⟩

-- add(F["cos"](zero) == 1)
theorem cos_zero : cos (0 : ℝ) = 1 := Real.cos_zero

-- add(F["sin"](zero) == 0)
theorem sin_zero : sin (0 : ℝ) = 0 := Real.sin_zero

/-! ## rpow  (pyvc/reals.py, "# pow: x in [0,1], p>0 -> in [0,1], monotone, fixes 0 and 1, (x^p)^(1/p) = x";  r = rpow(x, p)) -/

-- add(z3.Implies(z3.And(x >= 0, p > 0), r >= 0))
theorem rpow_nonneg (x p : ℝ) : x ≥ 0 ∧ p > 0 → rpow x p ≥ 0 :=
  fun h => Real.rpow_nonneg h.1 p

-- add(z3.Implies(z3.And(x >= 0, x <= 1, p > 0), r <= 1))
theorem rpow_le_one (x p : ℝ) : x ≥ 0 ∧ x ≤ 1 ∧ p > 0 → rpow x p ≤ 1 :=
  fun h => Real.rpow_le_one h.1 h.2.1 (le_of_lt h.2.2)

-- add(z3.Implies(z3.And(x == 0, p > 0), r == 0))
theorem rpow_zero_base (x p : ℝ) : x = 0 ∧ p > 0 → rpow x p = 0 := by
  rintro ⟨hx, hp⟩
  subst hx
  exact Real.zero_rpow (ne_of_gt hp)

-- add(z3.Implies(x == 1, r == 1))
theorem rpow_one_base (x p : ℝ) : x = 1 → rpow x p = 1 := by
  intro hx
  subst hx
  exact Real.one_rpow p

-- add(z3.Implies(z3.And(x > 0), r > 0))
theorem rpow_pos (x p : ℝ) : x > 0 → rpow x p > 0 :=
  fun h => Real.rpow_pos_of_pos h p

-- add(z3.Implies(p == 1, r == x))
theorem rpow_one_exponent (x p : ℝ) : p = 1 → rpow x p = x := by
  intro hp
  subst hp
  exact Real.rpow_one x

-- add(z3.Implies(z3.And(x >= 0, p > 0), F["pow"](r, 1 / p) == x))
theorem rpow_rpow_inv (x p : ℝ) : x ≥ 0 ∧ p > 0 → rpow (rpow x p) (1 / p) = x := by
  rintro ⟨hx, hp⟩
  show (x ^ p) ^ (1 / p) = x
  rw [one_div]
  exact Real.rpow_rpow_inv hx (ne_of_gt hp)

-- add(z3.Implies(z3.And(x > 0), F["log"](r) == p * F["log"](x)))
theorem log_rpow (x p : ℝ) : x > 0 → log (rpow x p) = p * log x :=
  fun h => Real.log_rpow h p

-- add(z3.Implies(z3.And(x > 0), r == F["exp"](p * F["log"](x))))
theorem rpow_eq_exp_log (x p : ℝ) : x > 0 → rpow x p = exp (p * log x) := by
  intro h
  show x ^ p = exp (p * log x)
  rw [Real.rpow_def_of_pos h, mul_comm]

-- add(z3.Implies(z3.And(p1 == p2, p1 > 0, x1 >= 0, x2 >= 0), (x1 < x2) == (F["pow"](x1, p1) < F["pow"](x2, p2))))
theorem rpow_lt_iff_base (x1 p1 x2 p2 : ℝ) :
    p1 = p2 ∧ p1 > 0 ∧ x1 ≥ 0 ∧ x2 ≥ 0 → ((x1 < x2) ↔ (rpow x1 p1 < rpow x2 p2)) := by
  rintro ⟨hp, hp1, h1, h2⟩
  subst hp
  exact (Real.rpow_lt_rpow_iff h1 h2 hp1).symm

-- add(z3.Implies(z3.And(x1 == x2, x1 > 1), (p1 < p2) == (F["pow"](x1, p1) < F["pow"](x2, p2))))
theorem rpow_lt_iff_exponent (x1 p1 x2 p2 : ℝ) :
    x1 = x2 ∧ x1 > 1 → ((p1 < p2) ↔ (rpow x1 p1 < rpow x2 p2)) := by
  rintro ⟨hx, h1⟩
  subst hx
  exact (Real.rpow_lt_rpow_left_iff h1).symm

-- add(z3.Implies(z3.And(p1 == p2, x1 == x2), F["pow"](x1, p1) == F["pow"](x2, p2)))      (pure congruence)
theorem rpow_congr (x1 p1 x2 p2 : ℝ) : p1 = p2 ∧ x1 = x2 → rpow x1 p1 = rpow x2 p2 := by
  rintro ⟨hp, hx⟩
  rw [hp, hx]

/-! ## atan2  (pyvc/reals.py, "# atan2";  a = atan2(y, x), rr = sqrt(x*x + y*y)) -/

private theorem norm_mk (x y : ℝ) : ‖(⟨x, y⟩ : ℂ)‖ = sqrt (x * x + y * y) := by
  rw [Complex.norm_def, Complex.normSq_mk]

-- add(z3.And(rr >= 0, rr * rr == x * x + y * y))
theorem atan2_radius (y x : ℝ) :
    sqrt (x * x + y * y) ≥ 0 ∧ sqrt (x * x + y * y) * sqrt (x * x + y * y) = x * x + y * y :=
  ⟨Real.sqrt_nonneg _, Real.mul_self_sqrt (add_nonneg (mul_self_nonneg x) (mul_self_nonneg y))⟩

-- add(rr * F["cos"](a) == x)
theorem atan2_cos (y x : ℝ) : sqrt (x * x + y * y) * cos (atan2 y x) = x := by
  have h := Complex.norm_mul_cos_arg (⟨x, y⟩ : ℂ)
  rw [norm_mk] at h
  exact h

-- add(rr * F["sin"](a) == y)
theorem atan2_sin (y x : ℝ) : sqrt (x * x + y * y) * sin (atan2 y x) = y := by
  have h := Complex.norm_mul_sin_arg (⟨x, y⟩ : ℂ)
  rw [norm_mk] at h
  exact h

-- add(z3.And(a > -V.PI - 0, a <= V.PI))
theorem atan2_range (y x : ℝ) : atan2 y x > -π - 0 ∧ atan2 y x ≤ π := by
  refine ⟨?_, Complex.arg_le_pi _⟩
  have h := Complex.neg_pi_lt_arg (⟨x, y⟩ : ℂ)
  simpa using h

/-! ## angle addition / parity / zero / periodicity
    (lemmas/c12_trig.py `trig_facts`, pyvc/lib/c16_models.py `trig_schema`, contracts/C16.py `period_instance`) -/

-- c12_trig:  emit(a + b == arg, COS(arg) == COS(a) * COS(b) - SIN(a) * SIN(b), SIN(arg) == SIN(a) * COS(b) + COS(a) * SIN(b))
theorem angle_add (a b t : ℝ) :
    a + b = t → (cos t = cos a * cos b - sin a * sin b ∧ sin t = sin a * cos b + cos a * sin b) := by
  intro h
  subst h
  exact ⟨Real.cos_add a b, Real.sin_add a b⟩

-- c16_models: z3.Implies(t == a + b, z3.And(COS(t) == COS(a) * COS(b) - SIN(a) * SIN(b), SIN(t) == SIN(a) * COS(b) + COS(a) * SIN(b)))
theorem angle_add_c16 (a b t : ℝ) :
    t = a + b → (cos t = cos a * cos b - sin a * sin b ∧ sin t = sin a * cos b + cos a * sin b) :=
  fun h => angle_add a b t h.symm

-- c12_trig:  emit(arg == -u, COS(arg) == COS(u), SIN(arg) == -SIN(u))
theorem angle_neg (t u : ℝ) : t = -u → (cos t = cos u ∧ sin t = -sin u) := by
  intro h
  subst h
  exact ⟨Real.cos_neg u, Real.sin_neg u⟩

-- c16_models: z3.Implies(a + b == 0, z3.And(COS(b) == COS(a), SIN(b) == -SIN(a)))
theorem angle_neg_c16 (a b : ℝ) : a + b = 0 → (cos b = cos a ∧ sin b = -sin a) := by
  intro h
  have hb : b = -a := by linarith
  exact angle_neg b a hb

-- c12_trig:  emit(arg == atom, COS(arg) == COS(atom), SIN(arg) == SIN(atom))              (pure congruence)
theorem angle_congr (t u : ℝ) : t = u → (cos t = cos u ∧ sin t = sin u) := by
  intro h
  subst h
  exact ⟨rfl, rfl⟩

-- c12_trig:  emit(arg == 0, COS(arg) == 1, SIN(arg) == 0)
-- c16_models: z3.Implies(a == 0, z3.And(COS(a) == 1, SIN(a) == 0))
-- contracts/C07.py lemma_zero_degree: hyps Cc == 1, Ss == 0 for theta = 0
theorem angle_zero (t : ℝ) : t = 0 → (cos t = 1 ∧ sin t = 0) := by
  intro h
  subst h
  exact ⟨Real.cos_zero, Real.sin_zero⟩

-- contracts/C16.py period_instance:
--   z3.Implies(a - b == 2 * PI * z3.ToReal(m), z3.And(COS(a) == COS(b), SIN(a) == SIN(b)))      (m an Int term)
theorem angle_period (a b : ℝ) (m : ℤ) : a - b = 2 * π * (m : ℝ) → (cos a = cos b ∧ sin a = sin b) := by
  intro h
  have ha : a = b + (m : ℝ) * (2 * π) := by linarith
  rw [ha]
  exact ⟨Real.cos_add_int_mul_two_pi b m, Real.sin_add_int_mul_two_pi b m⟩

-- c12_trig "whole periods":  rest = simplify(arg - c * atom), atom = pi * ToReal(K1) [* ToReal(K2) ...], c an EVEN integer numeral;
--   emit(z3.BoolVal(True), COS(arg) == COS(rest), SIN(arg) == SIN(rest))
-- Stated with c = 2 * n and K the (integer) product of the integer factors:  cos(t) = cos(t - (2 n) (pi K)).
theorem angle_whole_periods (t : ℝ) (n K : ℤ) :
    cos t = cos (t - ((2 * n : ℤ) : ℝ) * (π * (K : ℝ))) ∧ sin t = sin (t - ((2 * n : ℤ) : ℝ) * (π * (K : ℝ))) := by
  have h : t - ((2 * n : ℤ) : ℝ) * (π * (K : ℝ)) = t - ((n * K : ℤ) : ℝ) * (2 * π) := by
    push_cast; ring
  rw [h]
  exact ⟨(Real.cos_sub_int_mul_two_pi t (n * K)).symm, (Real.sin_sub_int_mul_two_pi t (n * K)).symm⟩

/-! ## sign facts put on the path by pyvc/lib/c20_models.py `_unary` (r = f(t)) -/

-- np.log:  [z3.Implies(t > 0, z3.And((t > 1) == (r > 0), (t == 1) == (r == 0)))]
theorem c20_log_sign (t : ℝ) : t > 0 → (((t > 1) ↔ (log t > 0)) ∧ ((t = 1) ↔ (log t = 0))) := by
  intro h
  refine ⟨(Real.log_pos_iff (le_of_lt h)).symm, ?_⟩
  constructor
  · intro h1; rw [h1, Real.log_one]
  · intro h0
    rcases Real.log_eq_zero.mp h0 with h1 | h1 | h1
    · linarith
    · exact h1
    · linarith

-- np.exp:  [r > 0]                                       = exp_pos
-- np.sinh / np.arcsinh:  odd_sign = [(t > 0) == (r > 0), (t == 0) == (r == 0)]
theorem c20_sinh_sign (t : ℝ) : ((t > 0) ↔ (sinh t > 0)) ∧ ((t = 0) ↔ (sinh t = 0)) :=
  ⟨sinh_pos_iff t, sinh_eq_zero_iff t⟩

theorem c20_arcsinh_sign (t : ℝ) : ((t > 0) ↔ (arcsinh t > 0)) ∧ ((t = 0) ↔ (arcsinh t = 0)) :=
  ⟨arcsinh_pos_iff t, arcsinh_eq_zero_iff t⟩

/-! ## complex exponential / modulus / argument as (re, im) pairs  (pyvc/lib/c16_models.py `Cx`, pyvc/lib/c10_models.py `CT`) -/

-- "exp(a + i b) = exp(a) (cos b, sin b)"
theorem cexp_re_im (a b : ℝ) :
    (Complex.exp ⟨a, b⟩).re = exp a * cos b ∧ (Complex.exp ⟨a, b⟩).im = exp a * sin b :=
  ⟨Complex.exp_re _, Complex.exp_im _⟩

-- "|z|^2 = re^2 + im^2",  "abs = sqrt(re^2 + im^2)"
theorem cabs_re_im (x y : ℝ) : ‖(⟨x, y⟩ : ℂ)‖ = sqrt (x * x + y * y) := norm_mk x y

end A4

#print axioms A4.pi_bounds
#print axioms A4.exp_pos
#print axioms A4.log_exp
#print axioms A4.exp_eq_one_of_eq_zero
#print axioms A4.exp_ge_one
#print axioms A4.exp_le_one
#print axioms A4.exp_gt_one
#print axioms A4.exp_zero
#print axioms A4.log_one
#print axioms A4.exp_log
#print axioms A4.log_eq_zero_of_eq_one
#print axioms A4.log_pos
#print axioms A4.log_neg
#print axioms A4.exp_lt_iff
#print axioms A4.exp_eq_iff
#print axioms A4.log_lt_iff
#print axioms A4.log_mul
#print axioms A4.sinh_zero
#print axioms A4.arcsinh_zero
#print axioms A4.arcsinh_sinh
#print axioms A4.sinh_pos_iff
#print axioms A4.sinh_eq_zero_iff
#print axioms A4.sinh_arcsinh
#print axioms A4.arcsinh_pos_iff
#print axioms A4.arcsinh_eq_zero_iff
#print axioms A4.sinh_neg
#print axioms A4.arcsinh_neg
#print axioms A4.sinh_lt_iff
#print axioms A4.arcsinh_lt_iff
#print axioms A4.sqrt_spec
#print axioms A4.cos_sq_add_sin_sq
#print axioms A4.cos_sin_bounds
#print axioms A4.cos_zero
#print axioms A4.sin_zero
#print axioms A4.rpow_nonneg
#print axioms A4.rpow_le_one
#print axioms A4.rpow_zero_base
#print axioms A4.rpow_one_base
#print axioms A4.rpow_pos
#print axioms A4.rpow_one_exponent
#print axioms A4.rpow_rpow_inv
#print axioms A4.log_rpow
#print axioms A4.rpow_eq_exp_log
#print axioms A4.rpow_lt_iff_base
#print axioms A4.rpow_lt_iff_exponent
#print axioms A4.rpow_congr
#print axioms A4.atan2_radius
#print axioms A4.atan2_cos
#print axioms A4.atan2_sin
#print axioms A4.atan2_range
#print axioms A4.angle_add
#print axioms A4.angle_add_c16
#print axioms A4.angle_neg
#print axioms A4.angle_neg_c16
#print axioms A4.angle_congr
#print axioms A4.angle_zero
#print axioms A4.angle_period
#print axioms A4.angle_whole_periods
#print axioms A4.c20_log_sign
#print axioms A4.c20_sinh_sign
#print axioms A4.c20_arcsinh_sign
#print axioms A4.cexp_re_im
#print axioms A4.cabs_re_im
